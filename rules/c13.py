"""C13 Canonical form — structural obligations."""
import ast
import re

from sa.loader import AnalysisError, norm, walk_local
from sa.spec import schema_spec as spec
from .common import analysis, str_consts_compared

PROP = "C13"
TECHNIQUE = "constant propagation over the canonical writer's emitted templates (key whitelist and order, no whitespace, bare integers, primitives in simple form); provenance of names from the parser; walker exhaustiveness against the parser's kinds"
LEVEL_TEXT = (
    "Static analysis of the canonical-form writer: every text it can emit is reconstructed per schema kind from the constant parts of "
    "its write calls; the keys must be an order-respecting subsequence of name, type, fields, symbols, items, values, size with nothing "
    "else (so documentation, aliases, defaults, order, custom and logical attributes and namespace can never appear), no whitespace, "
    "size as a bare integer and primitives as bare names; names must be the parsed schema's (full names by C11.R2) because the public "
    "function parses first; the writer must handle every kind the parser produces."
)
LEVEL_NOTE = "Not decided: invariance under cosmetic rewrites, idempotence and 'describes the same encoding' as relations between runs on pairs of schemas (runtime values). `error` printed as `record` is fastavro's documented choice and is recorded, not judged."
ASSUMPTIONS = ["key order table transcribed from the specification's Parsing Canonical Form"]


def templates(f):
    """schema kind (from the if/elif chain on schema_type / isinstance) -> concatenated emitted text with placeholders"""
    out = {}

    def text_of(stmts):
        parts = []
        for st in stmts:
            for n in ast.walk(st):
                if isinstance(n, ast.Call) and isinstance(n.func, ast.Attribute) and n.func.attr == "write" and n.args:
                    parts.append((n.lineno, n.col_offset, render(n.args[0])))
        return "".join(t for (_, _, t) in sorted(parts))

    for n in walk_local(f.node):
        if isinstance(n, ast.If):
            t = norm(n.test)
            kinds = None
            if t == "isinstance(schema, list)":
                kinds = ("union",)
            elif t == "not isinstance(schema, dict)":
                kinds = ("reference",)
            else:
                lits = set()
                parts = n.test.values if isinstance(n.test, ast.BoolOp) and isinstance(n.test.op, ast.Or) else [n.test]
                for x in parts:
                    if isinstance(x, ast.Compare) and norm(x.left) == "schema_type" and isinstance(x.ops[0], ast.Eq) and isinstance(x.comparators[0], ast.Constant):
                        lits.add(x.comparators[0].value)
                    elif isinstance(x, ast.Compare) and norm(x.left) == "schema_type" and isinstance(x.ops[0], ast.In):
                        lits.add("<" + norm(x.comparators[0]) + ">")
                if lits:
                    kinds = tuple(sorted(lits))
            if kinds:
                out[kinds] = (n, text_of(n.body))
    return out


def render(e):
    if isinstance(e, ast.Constant) and isinstance(e.value, str):
        return e.value
    if isinstance(e, ast.JoinedStr):
        s = ""
        for v in e.values:
            if isinstance(v, ast.Constant):
                s += v.value
            elif isinstance(v, ast.FormattedValue):
                s += "\x00" + norm(v.value) + ("!" + chr(v.conversion) if v.conversion != -1 else "") + (":" + norm(v.format_spec) if v.format_spec else "") + "\x01"
        return s
    return "\x00?" + norm(e) + "\x01"


def run(ctx):
    a = analysis(ctx.program)
    p = a.p
    f = p.func("_schema_py:_to_parsing_canonical_form")
    pub = p.func("_schema_py:to_parsing_canonical_form")
    T = templates(f)

    ctx.rule("C13.R1", "emitted templates: keys are an order-respecting subsequence of name, type, fields, symbols, items, values, size; no whitespace; bare integers; primitives in simple form", floor=8)
    order = spec.CANONICAL_ORDER
    for kinds, (node, text) in sorted(T.items()):
        label = "/".join(kinds)
        const = re.sub(r"\x00.*?\x01", "", text)
        keys = re.findall(r'"([A-Za-z_]+)":', const)
        # field objects restart the order: split at '{'
        segs = [re.findall(r'"([A-Za-z_]+)":', seg) for seg in const.split("{")]
        ok_white = not re.search(r"\s", const)
        ok_keys = all(k in order for k in keys)
        ok_order = all(all(order.index(a) < order.index(b) for a, b in zip(seg, seg[1:])) for seg in segs if all(k in order for k in seg))
        ctx.check("C13.R1", f"{label}: only canonical attributes are emitted", ok_keys, f.where(node), f"_to_parsing_canonical_form {label}: keys {keys}", "an attribute outside name/type/fields/symbols/items/values/size is written into the canonical form")
        ctx.check("C13.R1", f"{label}: attributes in canonical order", ok_order, f.where(node), f"_to_parsing_canonical_form {label}: keys {keys}", "attributes are not in the order name, type, fields, symbols, items, values, size")
        ctx.check("C13.R1", f"{label}: no whitespace", ok_white, f.where(node), f"_to_parsing_canonical_form {label}: {const!r}", "the canonical form must contain no whitespace")
    rec = T.get(("error", "record"))
    if rec:
        ctx.check("C13.R1", "record: field objects are {name, type} only", '"fields":[' in rec[1] and re.sub(r"\x00.*?\x01", "", rec[1]).count('"name":') == 2, f.where(rec[0]), "_to_parsing_canonical_form record template", "fields must be written as {\"name\":..,\"type\":..} only")
    fx = T.get(("fixed",))
    if fx:
        ctx.check("C13.R1", "fixed: size is interpolated as a bare integer", '"size":\x00size\x01}' in fx[1], f.where(fx[0]), f"_to_parsing_canonical_form fixed: {fx[1]!r}", "the size must be a plain decimal integer, unquoted and unformatted")
    prim = [v for k, v in T.items() if any(x.startswith("<") for x in k)]
    ref = T.get(("reference",))
    for (node, text) in prim + ([ref] if ref else []):
        ctx.check("C13.R1", "primitives and references are written as bare quoted names", re.fullmatch(r'"\x00schema(_type)?\x01"', text) is not None, f.where(node), f"_to_parsing_canonical_form: {text!r}", "primitive types must be in simple form (\"int\", not {\"type\":\"int\"})")
    un = T.get(("union",))
    if un:
        ctx.check("C13.R1", "union: [branch,branch,...] with comma separators only between branches", re.sub(r"\x00.*?\x01", "", un[1]) == "[,]", f.where(un[0]), f"_to_parsing_canonical_form union: {un[1]!r}", "unions must be written as a JSON array without extra text")

    ctx.rule("C13.R2", "the public function parses first and emits the parsed schema's name; namespace is never emitted", floor=3)
    calls = [n for n in walk_local(pub.node) if isinstance(n, ast.Call) and isinstance(n.func, ast.Name) and n.func.id == f.name]
    ok = len(calls) == 1 and norm(calls[0].args[0]) == f"parse_schema({pub.pos_params[0]})"
    ctx.check("C13.R2", "to_parsing_canonical_form(schema) canonicalises parse_schema(schema)", ok, pub.where(), f"to_parsing_canonical_form: {[norm(c) for c in calls]}", "names would not be full names if the schema were not parsed first")
    alltext = "".join(t for (_, t) in T.values())
    ctx.check("C13.R2", "no template mentions namespace / doc / aliases / default / order / logicalType", not re.search(r"namespace|doc|aliases|default|order|logicalType", re.sub(r"\x00.*?\x01", "", alltext)), f.where(), "canonical templates", "a non-canonical attribute is emitted")
    names = [norm(n.value) for n in walk_local(f.node) if isinstance(n, ast.Assign) and norm(n.targets[0]) == "name"]
    ctx.check("C13.R2", "names written are schema['name'] / field['name'] of the parsed schema", sorted(set(names)) == ["field['name']", "schema['name']"], f.where(), f"_to_parsing_canonical_form: name sources {sorted(set(names))}", "the name emitted is not the parsed (full) name")

    ctx.rule("C13.R3", "the canonical writer handles every kind the parser produces", floor=6)
    ps = p.func("_schema_py:_parse_schema")
    parser_kinds = {k for k in str_consts_compared(ps.node, "schema_type")}
    mine = set()
    for kinds in T:
        mine |= set(kinds)
    for k in sorted(parser_kinds):
        ctx.check("C13.R3", f"kind {k} handled", k in mine, f.where(), f"_to_parsing_canonical_form lacks {k}", f"a parsed schema of kind {k} would produce no text")
    ctx.check("C13.R3", "primitive dict form handled", any(x.startswith("<") for k in T for x in k), f.where(), "_to_parsing_canonical_form lacks the primitive arm", "{'type': 'int'} would produce no text")
    ctx.check("C13.R3", "union and reference forms handled", ("union",) in T and ("reference",) in T, f.where(), "_to_parsing_canonical_form lacks list/str arms", "unions or names would produce no text")
    if rec:
        ctx.note("C13.R3", "records of kind 'error' are printed with type \"record\" (fastavro's documented choice; recorded, not judged)")
