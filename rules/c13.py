"""C13 Canonical form — structural obligations."""
import ast
import re

from sa.loader import AnalysisError, norm, walk_local
from sa.spec import schema_spec as spec
from .common import analysis, literals_tested, assigned_values, tree_order

PROP = "C13"
TECHNIQUE = "constant propagation over the canonical writer's emitted templates partitioned by the kind dispatch (key whitelist and order, no whitespace, bare integers, primitives in simple form); provenance of names from the parser (shared naming rules of C11); walker exhaustiveness; effect analysis restricted to the canonical-form functions (no remembered results)"
LEVEL_TEXT = (
    "Static analysis of the canonical-form writer: every text it can emit is reconstructed per schema kind from the constant parts of "
    "its write calls; the keys must be an order-respecting subsequence of name, type, fields, symbols, items, values, size with nothing "
    "else (so documentation, aliases, defaults, order, custom and logical attributes and namespace can never appear), no whitespace, "
    "size as a bare integer and primitives as bare names; names must be the parsed schema's (full names by C11.R2) because the public "
    "function parses first; the writer must handle every kind the parser produces."
)
LEVEL_NOTE = "Not decided: invariance under cosmetic rewrites, idempotence and 'describes the same encoding' as relations between runs on pairs of schemas (runtime values). `error` printed as `record` is fastavro's documented choice and is recorded, not judged."
ASSUMPTIONS = ["key order table transcribed from the specification's Parsing Canonical Form"]


class Canon:
    """roles of the canonical writer: S = schema parameter, FO = output parameter, tvar = local holding S['type']"""

    def __init__(self, f):
        self.f = f
        if len(f.pos_params) < 1:
            raise AnalysisError(f"{f.qualname} no longer takes (schema, output stream): the canonical form is produced in a way this rule does not follow")
        # one parameter: the text is what the function returns (fragments concatenated, nested schemas by recursive calls)
        self.returns = len(f.pos_params) == 1
        self.S, self.FO = f.pos_params[0], (f.pos_params[1] if len(f.pos_params) > 1 else "\x00none")
        tv = [n.targets[0].id for n in walk_local(f.node) if isinstance(n, ast.Assign) and isinstance(n.targets[0], ast.Name) and norm(n.value) in (f"{self.S}['type']", f"{self.S}.get('type')")]
        self.tvar = tv[0] if tv else f"{self.S}['type']"
        self.emit_methods = set()  # `fo.write(x)` on a text stream or `parts.append(x)` on a list of fragments joined with ''

    def text_of(self, stmts):
        if self.returns:
            return self.returned_text(stmts)
        parts = []
        for st in stmts:
            order = tree_order(st)
            here = []
            for n in ast.walk(st):
                if isinstance(n, ast.Call) and isinstance(n.func, ast.Attribute) and n.func.attr in ("write", "append") and norm(n.func.value) == self.FO and len(n.args) == 1 and not n.keywords:
                    self.emit_methods.add(n.func.attr)
                    here.append((order[id(n)], render(n.args[0])))
                elif isinstance(n, ast.Call) and isinstance(n.func, ast.Name) and n.func.id == self.FO and len(n.args) == 1 and not n.keywords:
                    # the second parameter is itself the emitting callable (`buf.write` / `parts.append` of the caller)
                    self.emit_methods.add("call")
                    here.append((order[id(n)], render(n.args[0])))
            parts.extend(t for _, t in sorted(here))
        return "".join(parts)

    def returned_text(self, stmts):
        """the template of the string an arm returns: literal text with \x00expr\x01 holes; a recursive call stands for a
        nested schema and contributes nothing, `sep.join(f(x) for x in xs)` is `sep` followed by the template of `f(x)`"""
        env = {}
        fname = self.f.name
        bad = []

        def r(e):
            if isinstance(e, ast.Constant) and isinstance(e.value, str):
                return e.value
            if isinstance(e, ast.JoinedStr):
                out = ""
                for v in e.values:
                    if isinstance(v, ast.Constant):
                        out += v.value
                    elif v.conversion == -1 and v.format_spec is None and (isinstance(v.value, ast.Name) and v.value.id in env or isinstance(v.value, ast.Call)):
                        out += r(v.value)
                    else:
                        out += "\x00" + norm(v.value) + ("!" + chr(v.conversion) if v.conversion != -1 else "") + (":" + norm(v.format_spec) if v.format_spec else "") + "\x01"
                return out
            if isinstance(e, ast.BinOp) and isinstance(e.op, ast.Add):
                return r(e.left) + r(e.right)
            if isinstance(e, ast.Name) and e.id in env:
                return env[e.id]
            if isinstance(e, ast.Call) and isinstance(e.func, ast.Name) and e.func.id == fname and len(e.args) == 1 and not e.keywords:
                return ""
            if isinstance(e, ast.Call) and isinstance(e.func, ast.Attribute) and e.func.attr == "join" and isinstance(e.func.value, ast.Constant) and isinstance(e.func.value.value, str) and len(e.args) == 1 and not e.keywords:
                a = e.args[0]
                if isinstance(a, (ast.GeneratorExp, ast.ListComp)) and len(a.generators) == 1 and not a.generators[0].ifs:
                    return e.func.value.value + r(a.elt)
                if isinstance(a, ast.Call) and isinstance(a.func, ast.Name) and a.func.id == "map" and len(a.args) == 2 and isinstance(a.args[0], ast.Name) and a.args[0].id == fname:
                    return e.func.value.value
                if isinstance(a, ast.Name) and a.id in env:
                    return e.func.value.value + env[a.id]
            if isinstance(e, (ast.GeneratorExp, ast.ListComp)) and len(e.generators) == 1 and not e.generators[0].ifs:
                return r(e.elt)
            if isinstance(e, ast.IfExp):
                bad.append(norm(e))
            return "\x00?" + norm(e) + "\x01"

        text = ""
        for st in stmts:
            if isinstance(st, ast.Assign) and len(st.targets) == 1 and isinstance(st.targets[0], ast.Name):
                v = st.value
                stringy = isinstance(v, (ast.JoinedStr, ast.BinOp, ast.GeneratorExp, ast.ListComp)) or isinstance(v, ast.Call) and (isinstance(v.func, ast.Name) and v.func.id == fname or isinstance(v.func, ast.Attribute) and v.func.attr == "join")
                if stringy:
                    env[st.targets[0].id] = r(v)
            elif isinstance(st, ast.Return) and st.value is not None:
                self.emit_methods.add("return")
                text += r(st.value)
            elif isinstance(st, (ast.If, ast.For, ast.While, ast.Try, ast.With)):
                if any(isinstance(n, ast.Return) for n in ast.walk(st)):
                    raise AnalysisError(f"{self.f.qualname}: an arm builds its text under further control flow: this rule does not follow it")
        return text

    def regions(self, stmts, out):
        """partition the function by its kind dispatch: {kinds: (node, text)}"""
        S = self.S
        for st in stmts:
            if not isinstance(st, ast.If):
                continue
            t = norm(st.test)
            if t == f"isinstance({S}, list)":
                out[("union",)] = (st, self.text_of(st.body))
                self.regions(st.orelse, out)
            elif t == f"isinstance({S}, dict)":
                self.regions(st.body, out)
                if st.orelse and not (len(st.orelse) == 1 and isinstance(st.orelse[0], ast.If)):
                    out[("reference",)] = (st, self.text_of(st.orelse))
                else:
                    self.regions(st.orelse, out)
            elif t in (f"not isinstance({S}, dict)", f"isinstance({S}, str)"):
                out[("reference",)] = (st, self.text_of(st.body))
                self.regions(st.orelse, out)
            else:
                lits = literals_tested(st.test, self.tvar)
                if lits:
                    out[tuple(sorted(lits))] = (st, self.text_of(st.body))
                    self.regions(st.orelse, out)
        return out

    def sources(self, expr_text):
        """what an interpolated expression stands for: the values assigned to it when it is a local name"""
        if re.fullmatch(r"[A-Za-z_]\w*", expr_text) and expr_text not in (self.S,):
            vals = {norm(v) for v in assigned_values(self.f.node, expr_text)}
            if vals:
                return vals
        return {expr_text}

    def field_vars(self):
        """loop variables that range over S['fields']"""
        out = set()
        for n in walk_local(self.f.node):
            if isinstance(n, (ast.For, ast.comprehension)) and f"{self.S}['fields']" in norm(n.iter):
                for x in ast.walk(n.target):
                    if isinstance(x, ast.Name):
                        out.add(x.id)
        return out


def templates(f):
    return Canon(f).regions(f.node.body, {})


def render(e):
    if isinstance(e, ast.Constant) and isinstance(e.value, str):
        return e.value
    if isinstance(e, ast.JoinedStr):
        s = ""
        for v in e.values:
            if isinstance(v, ast.Constant):
                s += v.value
            elif isinstance(v, ast.FormattedValue):
                s += "\x00" + norm(v.value) + ("!" + chr(v.conversion) if v.conversion != -1 else "") + (":" + norm(v.format_spec) if v.format_spec else "") + "\x01"
        return s
    return "\x00?" + norm(e) + "\x01"


def run(ctx):
    a = analysis(ctx.program)
    p = a.p
    f = p.func("_schema_py:_to_parsing_canonical_form")
    pub = p.func("_schema_py:to_parsing_canonical_form")
    K = Canon(f)
    T = K.regions(f.node.body, {})
    if not T:
        raise AnalysisError("_to_parsing_canonical_form: kind dispatch not recognised")

    ctx.rule("C13.R1", "emitted templates: keys are an order-respecting subsequence of name, type, fields, symbols, items, values, size; no whitespace; bare integers; primitives in simple form", floor=8)
    order = spec.CANONICAL_ORDER
    for kinds, (node, text) in sorted(T.items()):
        label = "/".join(kinds)
        const = re.sub(r"\x00.*?\x01", "", text)
        keys = re.findall(r'"([A-Za-z_]+)":', const)
        # field objects restart the order: split at '{'
        segs = [re.findall(r'"([A-Za-z_]+)":', seg) for seg in const.split("{")]
        ok_white = not re.search(r"\s", const)
        ok_keys = all(k in order for k in keys)
        ok_order = all(all(order.index(a) < order.index(b) for a, b in zip(seg, seg[1:])) for seg in segs if all(k in order for k in seg))
        ctx.check("C13.R1", f"{label}: only canonical attributes are emitted", ok_keys, f.where(node), f"_to_parsing_canonical_form {label}: keys {keys}", "an attribute outside name/type/fields/symbols/items/values/size is written into the canonical form")
        ctx.check("C13.R1", f"{label}: attributes in canonical order", ok_order, f.where(node), f"_to_parsing_canonical_form {label}: keys {keys}", "attributes are not in the order name, type, fields, symbols, items, values, size")
        ctx.check("C13.R1", f"{label}: no whitespace", ok_white, f.where(node), f"_to_parsing_canonical_form {label}: {const!r}", "the canonical form must contain no whitespace")
    rec = next((v for k, v in T.items() if "record" in k), None)
    if rec:
        ctx.check("C13.R1", "record: field objects are {name, type} only", '"fields":[' in rec[1] and re.sub(r"\x00.*?\x01", "", rec[1]).count('"name":') == 2, f.where(rec[0]), "_to_parsing_canonical_form record template", "fields must be written as {\"name\":..,\"type\":..} only")
    fx = T.get(("fixed",))
    if fx:
        m = re.search(r'"size":\x00([^\x01]*)\x01}', fx[1])
        ok = m is not None and K.sources(m.group(1)) == {f"{K.S}['size']"}
        ctx.check("C13.R1", "fixed: size is interpolated as a bare integer", ok, f.where(fx[0]), f"_to_parsing_canonical_form fixed: {fx[1]!r}", "the size must be a plain decimal integer, unquoted and unformatted")
    prim = [v for k, v in T.items() if any(x.startswith("<") for x in k)]
    ref = T.get(("reference",))
    for (node, text) in prim + ([ref] if ref else []):
        m = re.fullmatch(r'"\x00([^\x01]*)\x01"', text)
        ok = m is not None and K.sources(m.group(1)) <= {K.S, f"{K.S}['type']"}
        ctx.check("C13.R1", "primitives and references are written as bare quoted names", ok, f.where(node), f"_to_parsing_canonical_form: {text!r}", "primitive types must be in simple form (\"int\", not {\"type\":\"int\"})")
    un = T.get(("union",))
    if un:
        ctx.check("C13.R1", "union: [branch,branch,...] with comma separators only between branches", re.sub(r"\x00.*?\x01", "", un[1]) == "[,]", f.where(un[0]), f"_to_parsing_canonical_form union: {un[1]!r}", "unions must be written as a JSON array without extra text")

    ctx.rule("C13.R2", "the public function parses first and emits the parsed schema's name; namespace is never emitted", floor=3)
    calls = [n for n in walk_local(pub.node) if isinstance(n, ast.Call) and isinstance(n.func, ast.Name) and n.func.id == f.name]
    ok = len(calls) == 1 and norm(calls[0].args[0]) == f"parse_schema({pub.pos_params[0]})"
    ctx.check("C13.R2", "to_parsing_canonical_form(schema) canonicalises parse_schema(schema)", ok, pub.where(), f"to_parsing_canonical_form: {[norm(c) for c in calls]}", "names would not be full names if the schema were not parsed first")
    emit = set(K.emit_methods)
    out_arg = norm(calls[0].args[1]) if len(calls) == 1 and len(calls[0].args) > 1 else None
    if K.returns:
        rets = [norm(n.value) for n in walk_local(pub.node) if isinstance(n, ast.Return) and n.value is not None]
        if len(calls) != 1 or rets != [norm(calls[0])]:
            ctx.unrecognised("C13.R1", "text returned by the writer", pub.where(), f"the public function does not simply return the writer's text (returns {rets})")
    if "call" in emit:
        # the emitter is a callable handed in by the public function: a bound `write` / `append` of the collecting object
        m = re.fullmatch(r"([A-Za-z_]\w*)\.(write|append)", out_arg or "")
        if len(emit) > 1 or not m:
            ctx.unrecognised("C13.R1", "fragments passed to a callable", pub.where(), f"the emitting callable is not a bound write / append of a local collector ({out_arg})")
            emit = set()
        else:
            out_arg, emit = m.group(1), {m.group(2)}
            if m.group(2) == "write":
                rets = [norm(n.value) for n in walk_local(pub.node) if isinstance(n, ast.Return) and n.value is not None]
                if rets != [f"{out_arg}.getvalue()"] or [norm(v) for v in assigned_values(pub.node, out_arg)] not in (["StringIO()"], ["io.StringIO()"]):
                    ctx.unrecognised("C13.R1", "fragments passed to a callable", pub.where(), f"the collector is not a fresh StringIO whose value is returned (returns {rets})")
    if "append" in emit:
        # fragments collected in a list: the text is their concatenation only if the public function joins them with ''
        rets = [norm(n.value) for n in walk_local(pub.node) if isinstance(n, ast.Return) and n.value is not None]
        if "write" in emit or out_arg is None or rets != [f"''.join({out_arg})"] or [norm(v) for v in assigned_values(pub.node, out_arg)] != ["[]"]:
            ctx.unrecognised("C13.R1", "fragments appended to a list", pub.where(), f"the fragments are not simply joined with '' by the public function (returns {rets})")
    alltext = "".join(t for (_, t) in T.values())
    ctx.check("C13.R2", "no template mentions namespace / doc / aliases / default / order / logicalType", not re.search(r"namespace|doc|aliases|default|order|logicalType", re.sub(r"\x00.*?\x01", "", alltext)), f.where(), "canonical templates", "a non-canonical attribute is emitted")
    names = set()
    for m in re.finditer(r'"name":"\x00([^\x01]*)\x01"', alltext):
        names |= K.sources(m.group(1))
    allowed = {f"{K.S}['name']"} | {f"{v}['name']" for v in K.field_vars()}
    ctx.check("C13.R2", "names written are schema['name'] / field['name'] of the parsed schema", bool(names) and names <= allowed, f.where(), f"_to_parsing_canonical_form: name sources {sorted(names)}", "the name emitted is not the parsed (full) name")

    ctx.rule("C13.R3", "the canonical writer handles every kind the parser produces", floor=6)
    ps = p.func("_schema_py:_parse_schema")
    from .c11 import Roles

    parser_kinds = {k for k in Roles(ps).arms if not k.startswith("<")}
    mine = set()
    for kinds in T:
        mine |= set(kinds)
    for k in sorted(parser_kinds):
        ctx.check("C13.R3", f"kind {k} handled", k in mine, f.where(), f"_to_parsing_canonical_form lacks {k}", f"a parsed schema of kind {k} would produce no text")
    ctx.check("C13.R3", "primitive dict form handled", any(x.startswith("<") for k in T for x in k), f.where(), "_to_parsing_canonical_form lacks the primitive arm", "{'type': 'int'} would produce no text")
    ctx.check("C13.R3", "union and reference forms handled", ("union",) in T and ("reference",) in T, f.where(), "_to_parsing_canonical_form lacks list/str arms", "unions or names would produce no text")
    if rec:
        ctx.note("C13.R3", "records of kind 'error' are printed with type \"record\" (fastavro's documented choice; recorded, not judged)")

    # ---- shared ----
    ctx.borrow("C11", {"C11.R1": "C13.R4", "C11.R2": "C13.R5", "C11.R3": "C13.R6"}, "the canonical form writes the parsed schema's names: they are the specification's full names only if the parser computes, stores and resolves them per the naming rules")

    c13_funcs = {"to_parsing_canonical_form", "_to_parsing_canonical_form", "fingerprint", "rabin_fingerprint"}
    ctx.borrow("C17", {"C17.R2": "C13.R7"}, "the canonical form must be the transformation of the schema given now: a result remembered in module-level state is the form of whatever the object contained earlier", only=lambda o: o["where"].split(":")[1].split(".")[-1] in c13_funcs if ":" in o["where"] else False)


