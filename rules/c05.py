"""C05 Container layout interoperates both ways — structural obligations."""
import ast

from sa.loader import AnalysisError, norm, walk_local
from sa.shapes import consumption, has_unknown, flat, Shaper
from sa.cfg import cfg_of
from sa.callgraph import bind_args
from sa.spec import avro_wire as spec
import re

from .common import ifexp_alternatives, analysis, tokens, true_facts

PROP = "C05"
TECHNIQUE = "constant folding of the header constants; wire-shape extraction of dump / write_block / block codecs / block generators against the spec's container grammar; per-path summaries (reaching definitions with expression propagation) for codec payloads and is_avro; CFG ordering of offset/size bookkeeping"
LEVEL_TEXT = (
    "Static analysis: MAGIC, SYNC_SIZE and HEADER_SCHEMA are folded from the one definition both sides import and compared with "
    "the specification; the token terms of dump, write_block, the seven block writers, the seven block readers and both block "
    "generators are compared with the container grammar V(count) V(size) R(size) R(16)=sync and with each other; reads of the codec "
    "key must default to 'null'; is_avro must compare exactly len(MAGIC) bytes with MAGIC and close what it opened on all exits; "
    "the block reader's offset/size bookkeeping must bracket the block. Holds for every file because it is about all code paths."
)
LEVEL_NOTE = (
    "Not decided: that an independent parser recovers the records (runtime values), deflate/bzip2/xz bitstreams, contiguity as numbers. "
    "Trusted: spec table sa/spec/avro_wire.py, stdlib compression pairs."
)
ASSUMPTIONS = ["stdlib/third-party compress/decompress functions listed in sa/spec/avro_wire.CODEC_PAIRS are inverse pairs"]

GEN_NAMES = ["C", "H", "CODEC", "S", "N", "RS", "O"]


def generators(a):
    """the record generator and the block generator, found by role: assigned to self._elems in reader / block_reader"""
    out = {}
    for cname, role in (("reader", "records"), ("block_reader", "blocks")):
        ci = a.p.cls(f"_read_py:{cname}")
        init = ci.methods.get("__init__")
        if init is None:
            raise AnalysisError(f"{cname}.__init__ not found")
        cands = []
        cfg = None
        for n in walk_local(init.node):
            if isinstance(n, ast.Assign) and any(norm(t) == "self._elems" for t in n.targets) and isinstance(n.value, ast.Call):
                f = a.p.resolve_func(init.mod, n.value.func) if isinstance(n.value.func, (ast.Name, ast.Attribute)) else None
                if f is not None and f.is_generator():
                    # the arm for a JSON decoder (no container framing) is not the container-file generator
                    if cfg is None:
                        cfg = cfg_of(init)
                    facts = true_facts(cfg, cfg.node_of(n))
                    if any(re.fullmatch(r"isinstance\(.*, \w*JSON\w*\)", t) for t in facts):
                        continue
                    cands.append((f, n.value, init))
        if len(cands) != 1:
            raise AnalysisError(f"expected one container-file generator assigned to {cname}._elems, found {len(cands)}")
        out[role] = cands[0]
    return out


def gen_shape(a, f):
    return Shaper(a.p, a.cg, "r").shape(f, GEN_NAMES)


def block_loop(term):
    """body of the (single) block loop of a generator term, wherever it is nested; None if not exactly one"""
    loops = [t for t in flat(term) if t[0] == "while"]
    if len(loops) != 1:
        return None
    return loops[0][2]


def block_writer_shape(a, f):
    return Shaper(a.p, a.cg, "w").shape(f, ["C", "B", "L"])


def block_reader_shape(a, f):
    return Shaper(a.p, a.cg, "r").shape(f, ["C"])


def raw_var_sources(f, var):
    """texts of all values assigned to local `var` in f"""
    import copy

    roles = dict(zip(f.pos_params[1:3], ("B", "L")))
    out = []
    for n in walk_local(f.node):
        if isinstance(n, ast.Assign) and any(isinstance(t, ast.Name) and t.id == var for t in n.targets):
            for alt in ifexp_alternatives(n.value):
                alt = copy.deepcopy(alt)
                for x in ast.walk(alt):
                    if isinstance(x, ast.Name) and x.id in roles:
                        x.id = roles[x.id]
                out.append(norm(alt))
    return out


def check_block_writer(ctx, a, rule, codec, f):
    term = block_writer_shape(a, f)
    if has_unknown(term):
        ctx.unrecognised(rule, f"BLOCK_WRITERS[{codec}]", f.where(), str(has_unknown(term)))
        return None
    toks = tokens(term)
    kinds = [t[0] for t in toks]
    inst = f"BLOCK_WRITERS[{codec}] -> {f.qualname}"
    if codec == "snappy":
        ok = kinds == ["V", "R", "P"] and toks[0][1] == f"(len({toks[1][1]}) + 4)" and toks[2][1] == ">I" and "crc32(B)" in toks[2][2]
        ctx.check(rule, inst + " framing", ok, f.where(), f"{f.qualname}: {consumption(term, True)}", "snappy block must be V(len(data)+4) R(data) followed by the 4-byte big-endian CRC32 of the uncompressed bytes")
    else:
        ok = kinds == ["V", "R"] and toks[0][1] == f"len({toks[1][1]})"
        ctx.check(rule, inst + " framing", ok, f.where(), f"{f.qualname}: {consumption(term, True)}", "block payload must be written as V(len(data)) R(data) with the length taken from the very bytes written")
    payload = toks[1][1] if len(toks) > 1 and toks[1][0] == "R" else None
    return payload


def compress_exprs(f, payload):
    """source expressions of the payload written by a block writer: per path, the argument of the raw stream
    write with the locals it was computed through propagated (roles B = block bytes, L = compression level)"""
    import re as _re
    from sa.pathsum import summaries
    from sa.cfg import cfg_of

    if payload is None:
        return []
    roles = dict(zip(f.pos_params[1:3], ("B", "L")))
    found = set()
    for s in summaries(cfg_of(f)):
        for c in s.calls:
            try:
                call = ast.parse(c, mode="eval").body
            except SyntaxError:
                continue
            if isinstance(call, ast.Call) and isinstance(call.func, ast.Attribute) and call.func.attr == "write" and norm(call.func.value).endswith("fo") and len(call.args) == 1:
                arg = call.args[0]
                for x in ast.walk(arg):
                    if isinstance(x, ast.Name) and x.id in roles:
                        x.id = roles[x.id]
                for alt in ifexp_alternatives(arg):
                    found.add(norm(alt))
    if found:
        return sorted(found)
    if payload.startswith("$"):
        return raw_var_sources(f, payload[1:])
    try:
        tree = ast.parse(payload, mode="eval").body
    except SyntaxError:
        return [payload]
    return [norm(alt) for alt in ifexp_alternatives(tree)]


def check_block_reader(ctx, a, rule, codec, f):
    term = block_reader_shape(a, f)
    if has_unknown(term):
        ctx.unrecognised(rule, f"BLOCK_READERS[{codec}]", f.where(), str(has_unknown(term)))
        return None
    got = consumption(term, keep_src=False)
    want = "V R[(n1 - 4)] R[4]" if codec == "snappy" else "V R[n1]"
    ctx.check(rule, f"BLOCK_READERS[{codec}] -> {f.qualname} framing", got == want, f.where(), f"{f.qualname}: {got}", f"block reader consumes `{got}`, the container grammar prescribes `{want}`")
    rets = [t for t in term if t[0] == "ret"]
    return rets[0][1] if rets else None


def run(ctx):
    a = analysis(ctx.program)
    p = a.p
    wmod, rmod = p.module("_write_py"), p.module("_read_py")

    # ---- R1 header constants ---------------------------------------------------
    ctx.rule("C05.R1", "one definition of MAGIC / SYNC_SIZE / HEADER_SCHEMA reached by writer and reader; values equal the specification", floor=8)
    for name, want in (("MAGIC", spec.MAGIC), ("SYNC_SIZE", spec.SYNC_SIZE), ("HEADER_SCHEMA", spec.HEADER_SCHEMA)):
        rw, rr = p.resolve(wmod, name), p.resolve(rmod, name)
        same = rw is not None and rr is not None and rw[0] == "value" and rr[0] == "value" and rw[2] is rr[2]
        ctx.check("C05.R1", f"{name}: writer and reader share one definition", same, wmod.relpath + ":" + name, f"{name} resolves differently in _write_py and _read_py", "writer and reader must use the same constant")
        val = p.try_fold(wmod, ast.Name(id=name, ctx=ast.Load()), "<unfoldable>")
        ctx.check("C05.R1", f"{name} equals the specification", val == want, (rw[1].relpath if rw and rw[0] == "value" else wmod.relpath) + ":" + name, f"{name} = {val!r}", f"{name} folds to {val!r}, the specification says {want!r}")
    wh = p.func("_write_py:write_header")
    term = Shaper(p, a.cg, "w").shape(wh, ["C", "META", "SYNC"])
    ds = [t for t in tokens(term) if t[0] == "D"]
    ok = len(ds) == 1 and ds[0][2] == "HEADER_SCHEMA" and "'magic': MAGIC=" in ds[0][3] and "'sync': SYNC" in ds[0][3] and "'meta':" in ds[0][3] and ds[0][4] == "C"
    ctx.check("C05.R1", "write_header encodes {magic: MAGIC, meta, sync} under HEADER_SCHEMA", ok, wh.where(), f"write_header: {ds[0][2:4] if ds else '?'}", "the header is not written as the record {magic, meta, sync} under HEADER_SCHEMA on the output encoder")
    meta_ok = any(isinstance(n, ast.DictComp) and isinstance(n.value, ast.Call) and isinstance(n.value.func, ast.Attribute) and n.value.func.attr == "encode" and not n.value.args for n in walk_local(wh.node))
    ctx.check("C05.R1", "write_header: metadata values are written as UTF-8 bytes", meta_ok, wh.where(), "write_header: meta values", "metadata values must be encoded to bytes (map<bytes>)")
    rh = p.func("_read_py:file_reader._read_header")
    term = Shaper(p, a.cg, "r").shape(rh, None, extra_env={"self.decoder": "C"})
    ds = [t for t in tokens(term) if t[0] == "D"]
    ok = len(ds) == 1 and ds[0][2] == "HEADER_SCHEMA" and ds[0][3] == "None" and ds[0][4] == "C"
    ctx.check("C05.R1", "_read_header decodes the header under HEADER_SCHEMA with no reader schema", ok, rh.where(), f"_read_header: {ds[0][2:] if ds else '?'}", "the header is not read under HEADER_SCHEMA from the input decoder")

    # ---- R2 block layout ---------------------------------------------------------
    ctx.rule("C05.R2", "dump / write_block / block codecs / block generators follow V(count) V(size) R(size) R(16)=sync; writer and reader framing agree", floor=20)
    W = p.cls("_write_py:Writer")
    for mname, count_src, payload_src in (("dump", "self.block_count", "self.io._fo.getvalue()"), ("write_block", None, None)):
        m = W.methods.get(mname)
        if m is None:
            raise AnalysisError(f"Writer.{mname} not found")
        term = Shaper(p, a.cg, "w").shape(m, ["BLOCK"] if mname == "write_block" else None, extra_env={"self.encoder": "C"})
        toks = tokens(term)
        kinds = [t[0] for t in toks]
        ok = kinds == ["V", "T", "R"] and toks[1][1] == "self.block_writer" and toks[1][2][0] == "C" and toks[2][1] == "self.sync_marker"
        if ok and mname == "dump":
            ok = toks[0][1] == count_src and toks[1][2][1] == payload_src
        if ok and mname == "write_block":
            ok = toks[0][1] == "BLOCK.num_records" and toks[1][2][1] == "BLOCK.bytes_.getvalue()"
        ctx.check("C05.R2", f"Writer.{mname}: count, codec-framed payload, sync marker", ok, m.where(), f"Writer.{mname}: {consumption(term, True)}", "a block must be written as V(record count), the payload through this writer's block_writer, then this writer's sync marker")
    BW, BR = a.block_writers, a.block_readers
    payloads = {}
    for codec in sorted(BW.keys()):
        for f in BW.funcs(codec):
            payloads[codec] = (f, check_block_writer(ctx, a, "C05.R2", codec, f))
    rets = {}
    for codec in sorted(BR.keys()):
        for f in BR.funcs(codec):
            rets[codec] = (f, check_block_reader(ctx, a, "C05.R2", codec, f))
    gens = generators(a)
    for role, (f, call, init) in sorted(gens.items()):
        term = gen_shape(a, f)
        body = block_loop(term)
        if body is None:
            ctx.unrecognised("C05.R2", f"{f.qualname}: block loop", f.where(), "expected exactly one `while` block loop")
            continue
        ok = True
        seq = [t[0] for t in body if t[0] in ("V", "T", "R", "for", "yield")]
        if role == "records":
            want = ["V", "T", "for", "R"]
        else:
            want = ["V", "T", "R", "yield"]
        ok = ok and seq == want
        rtok = [t for t in body if t[0] == "R"]
        ok = ok and len(rtok) == 1 and rtok[0][1].startswith("SYNC_SIZE=")
        ttok = [t for t in body if t[0] == "T"]
        ok = ok and len(ttok) == 1 and ttok[0][2] == ["C"]
        cmp_ok = any(t[0] == "if" and rtok and f"({rtok[0][2]} != H['sync'])" == t[1] and t[2] and t[2][-1][0] == "raise" for t in body)
        ctx.check("C05.R2", f"{f.qualname}: per block V(count), block reader, R(16) compared with the header's sync", ok and cmp_ok, f.where(), f"{f.qualname}: {consumption(term, True)}", "the block loop must read the count, the payload through BLOCK_READERS[codec] on the input decoder, then 16 bytes compared with header['sync'] raising on mismatch")
        # the generator is started on the reader's own decoder, header and codec
        b = bind_args(f, call)
        pos = f.pos_params
        okb = norm(b.get(pos[0])) == "self.decoder" and norm(b.get(pos[1])) == "self._header" and norm(b.get(pos[2])) == "self.codec"
        ctx.check("C05.R2", f"{init.qualname}: generator started with the reader's decoder, header and codec", okb, init.where(call), f"{init.qualname}: {norm(call)[:80]}", "the block loop is not driven by this reader's decoder / decoded header / header codec")

    ctx.borrow("C07", {"C07.R5": "C05.R9"}, "blocks appended to an existing file are framed with the codec and sync marker its header names: the layout is read back by other implementations from the header alone", only=lambda o: any(k in o.get("instance", "") for k in ("block_writer", "sync_marker", "write_header")))

    # ---- R3 codec default ----------------------------------------------------------
    ctx.rule("C05.R3", "every read of metadata key 'avro.codec' tolerates absence with 'null'", floor=2)
    n_sites = 0
    for m in p.modules.values():
        pm = a.parents(m)
        for n in ast.walk(m.tree):
            if isinstance(n, ast.Constant) and n.value == spec.CODEC_KEY:
                par = pm.get(id(n))
                where = f"{m.relpath}:{n.lineno}"
                fn = _enclosing(m, n)
                where = fn.where(n) if fn else where
                if isinstance(par, ast.Subscript) and isinstance(par.ctx, ast.Load):
                    n_sites += 1
                    # guarded by an `in` test?
                    ctx.violation("C05.R3", f"read of {spec.CODEC_KEY}", where, f"{norm(par)}", "bare subscript read of the codec key: a file without avro.codec (meaning 'null') raises KeyError")
                elif isinstance(par, ast.Call) and isinstance(par.func, ast.Attribute) and par.func.attr == "get" and par.args and par.args[0] is n:
                    n_sites += 1
                    dflt = par.args[1] if len(par.args) > 1 else None
                    ok = isinstance(dflt, ast.Constant) and dflt.value == spec.DEFAULT_CODEC
                    ctx.check("C05.R3", f"read of {spec.CODEC_KEY} defaults to 'null'", ok, where, norm(par), "the codec key must default to 'null' when absent")
    if n_sites < 2:
        raise AnalysisError(f"only {n_sites} reads of the codec key found (reader header and append path expected)")

    # ---- R4 is_avro ------------------------------------------------------------------
    ctx.rule("C05.R4", "is_avro returns MAGIC == read(len(MAGIC)); the file it opened is closed on all exits", floor=2)
    f = p.func("_read_py:is_avro")
    cfg = cfg_of(f)
    from sa.pathsum import summaries
    import re as _re

    rets = [s_ for s_ in summaries(cfg) if s_.kind == "return"]
    pat = _re.compile(r"(MAGIC == (?P<a>.+)\.read\((?P<n1>len\(MAGIC\)|4)\))|((?P<b>.+)\.read\((?P<n2>len\(MAGIC\)|4)\) == MAGIC)")
    ok = bool(rets) and all(pat.fullmatch(s_.text) is not None for s_ in rets) and len(spec.MAGIC) == 4
    ctx.check("C05.R4", "is_avro: result is MAGIC == stream.read(len(MAGIC))", ok, f.where(), f"is_avro: returns {sorted({s_.text for s_ in rets})}", "is_avro must answer by comparing exactly the first len(MAGIC) bytes with MAGIC")
    opens = [n for n in walk_local(f.node) if isinstance(n, ast.Call) and isinstance(n.func, ast.Name) and n.func.id == "open"]
    closes = [cfg.node_of(n) for n in walk_local(f.node) if isinstance(n, ast.Call) and isinstance(n.func, ast.Attribute) and n.func.attr == "close"]
    # all CFG copies of the close statement (finally bodies are duplicated per continuation)
    closes = [n for n in cfg.nodes if n.ast is not None and any(isinstance(c, ast.Call) and isinstance(c.func, ast.Attribute) and c.func.attr == "close" for c in ast.walk(n.ast))]
    pm_ = a.parents(f.mod)
    for o in opens:
        managed = pm_.get(id(o))
        o_expr = o
        # contextlib.closing(open(..)) is the file as a context manager that closes it
        if isinstance(managed, ast.Call) and ast.unparse(managed.func) in ("closing", "contextlib.closing") and len(managed.args) == 1 and managed.args[0] is o:
            o_expr = managed
            managed = pm_.get(id(managed))
        if isinstance(managed, ast.withitem) and managed.context_expr is o_expr:
            ctx.holds("C05.R4", "is_avro: file opened here is closed on every exit (normal and exceptional)", f.where(o), "context manager")
            continue
        onode = cfg.node_of(o)
        after = [m for (m, lab) in onode.succ if lab != "exc"]
        # `v = open(..)` .. `with v [as fp]:` hands the file to a context manager later on: entering the with statement is
        # as good as the close (the file object closes itself when the block is left, normally or not)
        held = managed.targets[0].id if isinstance(managed, ast.Assign) and len(managed.targets) == 1 and isinstance(managed.targets[0], ast.Name) and managed.value is o_expr else None
        if held is not None:
            entered = [n for n in cfg.nodes if n.kind == "with" and isinstance(n.ast, ast.Tuple) and any(isinstance(x, ast.Name) and x.id == held for x in n.ast.elts)]
            restored = any(isinstance(x.ast, ast.Assign) and x is not onode and any(isinstance(t, ast.Name) and t.id == held for t in x.ast.targets) for x in cfg.reachable_from(onode))
            if entered and not restored:
                closes = closes + entered
        # "we opened it" flags: `flag = True` set on the branch that opened the file and never
        # reassigned afterwards; on paths from open() a test of that flag takes its true edge
        skip = set()
        for m in after:
            st = m.ast
            if isinstance(st, ast.Assign) and len(st.targets) == 1 and isinstance(st.targets[0], ast.Name) and isinstance(st.value, ast.Constant) and st.value.value is True:
                flag = st.targets[0].id
                later = cfg.reachable_from(m)
                reassigned = any(isinstance(x.ast, ast.Assign) and any(isinstance(t, ast.Name) and t.id == flag for t in x.ast.targets) for x in later)
                if not reassigned:
                    for t in cfg.nodes:
                        if t.kind == "test" and isinstance(t.ast, ast.Name) and t.ast.id == flag:
                            for (m2, lab) in t.succ:
                                if lab == "false":
                                    skip.add((t, m2, lab))
        # ... or the very test that guards the open is repeated around the close (same condition, operands never assigned)
        skip |= set(cfg.correlated_skip_edges(cfg.node_of(o)))
        ok1 = all(cfg.exit not in cfg.reachable_from(m, avoid=closes, skip_edges=skip) and cfg.raise_exit not in cfg.reachable_from(m, avoid=closes, skip_edges=skip) for m in after if m not in closes)
        # the close must not be skipped by a guard other than the "we opened it" flag: weaker check - a finally exists
        ctx.check("C05.R4", "is_avro: file opened here is closed on every exit (normal and exceptional)", ok1 and bool(closes), f.where(o), "is_avro: open(...) without close on all exits", "a path from open() to a function exit does not pass through close()")
    if not opens:
        ctx.note("C05.R4", "is_avro opens no file")

    # ---- R5 block tiling order --------------------------------------------------------
    ctx.rule("C05.R5", "block generator: offset taken before the count is read, size after the sync check, from the same tell()", floor=3)
    f, call, init = gens["blocks"]
    cfg = cfg_of(f)
    assigns = {}
    for n in walk_local(f.node):
        if isinstance(n, ast.Assign) and len(n.targets) == 1 and isinstance(n.targets[0], ast.Name):
            assigns.setdefault(n.targets[0].id, []).append(n)
    blk = [n for n in walk_local(f.node) if isinstance(n, ast.Call) and p.resolve_expr(f.mod, n.func) == ("class", p.cls("_read_py:Block"))]
    if len(blk) != 1:
        raise AnalysisError("block generator does not construct exactly one Block")
    binit = p.cls("_read_py:Block").methods["__init__"]
    b = bind_args(binit, blk[0])
    off_e, size_e = b.get("offset"), b.get("size")
    if not isinstance(off_e, ast.Name) or size_e is None:
        ctx.unrecognised("C05.R5", f.qualname, f.where(blk[0]), "Block offset argument is not a local variable")
        return
    off_as = assigns.get(off_e.id, [])
    # the size expression: the argument itself or the single assignment of the local passed
    if isinstance(size_e, ast.Name):
        size_as = assigns.get(size_e.id, [])
        size_expr = size_as[0].value if len(size_as) == 1 else None
    else:
        size_expr = size_e
    count_reads = [n for n in walk_local(f.node) if isinstance(n, ast.Call) and isinstance(n.func, ast.Attribute) and n.func.attr == "read_long"]
    syncs = [n for n in walk_local(f.node) if isinstance(n, ast.Call) and (p.resolve_func(f.mod, n.func) if isinstance(n.func, (ast.Name, ast.Attribute)) else None) is p.func("_read_py:skip_sync")]
    if len(off_as) != 1 or size_expr is None or len(count_reads) != 1 or len(syncs) != 1:
        ctx.unrecognised("C05.R5", f.qualname, f.where(), "expected one offset assignment, one size expression, one count read and one sync check")
        return
    tell = norm(off_as[0].value)
    ok_off = tell.endswith(".tell()") and cfg.dominates(cfg.node_of(off_as[0]), cfg.node_of(count_reads[0])) and cfg.node_of(off_as[0]) in cfg.reachable_from(cfg.node_of(blk[0]))
    ctx.check("C05.R5", "offset = stream position taken before the block count is read, in every iteration", ok_off, f.where(off_as[0]), f"{f.qualname}: {norm(off_as[0])}", "the block offset must be recorded before the count varint of that block is read (inside the loop)")
    sn = cfg.node_of(size_expr)
    ok_size = norm(size_expr) == f"{tell} - {off_e.id}" and cfg.dominates(cfg.node_of(syncs[0]), sn) and cfg.node_of(syncs[0]) is not sn and (sn is cfg.node_of(blk[0]) or cfg.dominates(sn, cfg.node_of(blk[0])))
    ctx.check("C05.R5", "size = same tell() - offset, computed after the sync marker was checked", ok_size, f.where(size_expr), f"{f.qualname}: size = {norm(size_expr)}", "the block size must span count, payload and sync marker: computed from the same stream's tell() after skip_sync")
    nrec = b.get("num_records")
    ok_n = (isinstance(nrec, ast.Name) and any(norm(n.value) == norm(count_reads[0]) for n in assigns.get(nrec.id, []))) or (nrec is not None and nrec is count_reads[0])
    ctx.check("C05.R5", "Block.num_records is the count read from the block header", ok_n, f.where(blk[0]), f"{f.qualname}: num_records={norm(nrec) if nrec is not None else '?'}", "the record count reported for a block is not the count varint read for it")

    # ---- shared ----
    ctx.borrow("C02", {"C02.R1": "C05.R6"}, "files read by another implementation must contain specification-encoded records")
    ctx.borrow("C03", {"C03.R1": "C05.R7"}, "files written by another implementation may use every form the specification allows (e.g. sized array/map blocks in any block): the reader must accept the full grammar")
    ctx.borrow("C04", {"C04.R4": "C05.R10"}, "a block's payload is the whole serialised record run under the codec the header names: another implementation decompresses it with that codec's standard framing and must find every record")
    ctx.borrow("C04", {"C04.R2": "C05.R8"}, "the header another implementation reads must carry the schema and codec actually used")


def _enclosing(mod, node):
    best = None
    for f in mod.all_funcs:
        if f.node.lineno <= node.lineno <= (f.node.end_lineno or f.node.lineno):
            if best is None or f.node.lineno >= best.node.lineno:
                best = f
    return best
