"""C18 Thread independence — decided by confinement (same effect analysis as C17)."""
import ast

from sa.loader import norm, walk_local
from sa.effects import _mutable_display
from .common import analysis
from . import c17

PROP = "C18"
TECHNIQUE = "confinement by whole-program effect analysis: no API-reachable code writes an object that two operations on distinct streams can both reach (module-level objects, class attributes, mutable defaults, the shared parsed schema and its embedded name table)"
LEVEL_TEXT = (
    "Static non-interference argument over schedules: operations on distinct streams share only (a) module-level objects, class-level "
    "attributes and mutable default arguments, and (b) the parsed schema object they were both given, including its embedded name table. "
    "The effect analysis (summary-based points-to with allocation sites, per entry-point group) shows that no mutation primitive reachable "
    "from the public API can touch an object of either kind; every other object an operation writes is allocated by that operation or owned "
    "by its encoder / decoder / Writer / Parser instance. Then every interleaving equals the sequential result, which no test can enumerate."
)
LEVEL_NOTE = (
    "Decides the property modulo the trusted base: may-alias over-approximation, user-supplied callables external, stdlib internals (e.g. "
    "C-level caches) not modelled, GIL granularity irrelevant once nothing shared is written. Enumeration of schedules is not attempted."
)
ASSUMPTIONS = c17.ASSUMPTIONS + ["two operations on distinct streams share no Writer / encoder / decoder / Parser instance"]


PROCESS_WIDE = {
    ("sys", "setrecursionlimit"), ("sys", "setswitchinterval"), ("sys", "settrace"), ("sys", "setprofile"), ("sys", "set_int_max_str_digits"), ("sys", "setdlopenflags"), ("sys", "set_asyncgen_hooks"), ("sys", "set_coroutine_origin_tracking_depth"),
    ("threading", "settrace"), ("threading", "setprofile"), ("threading", "stack_size"),
    ("decimal", "setcontext"), ("locale", "setlocale"), ("random", "seed"), ("random", "setstate"),
    ("warnings", "simplefilter"), ("warnings", "filterwarnings"), ("warnings", "resetwarnings"),
    ("socket", "setdefaulttimeout"), ("signal", "signal"), ("signal", "alarm"), ("signal", "setitimer"),
    ("gc", "disable"), ("gc", "enable"), ("gc", "set_threshold"), ("gc", "freeze"), ("time", "tzset"), ("resource", "setrlimit"),
    ("faulthandler", "enable"), ("tracemalloc", "start"), ("atexit", "register"), ("os.environ", "update"), ("os.environ", "pop"), ("os.environ", "setdefault"), ("os.environ", "clear"),
    ("numpy", "seterr"), ("numpy", "set_printoptions"), ("np", "seterr"),
}


def _enclosing_name(m, node):
    best = ""
    for n in ast.walk(m.tree):
        if isinstance(n, (ast.FunctionDef, ast.AsyncFunctionDef)) and n.lineno <= getattr(node, "lineno", 0) <= (n.end_lineno or n.lineno):
            best = n.name
    return best or "<module>"


def run(ctx):
    a = analysis(ctx.program)
    p = a.p
    eff = c17.effects(a)
    walker_ok = c17.walker_follows_only_schema_keys(p)
    ctx.rule("C18.R1", "no write to shared module-level state (module-level objects, class-level attributes, mutable defaults) from API-reachable code", floor=20)
    ctx.rule("C18.R2", "no mutation of the (shared) schema object or of the name table embedded in it", floor=60)
    reported = set()
    for ev in eff.events:
        f = ev["func"]
        inst = f"{f.qualname}: {ev['how']} on `{ev['target']}`"
        hits = c17.classify(ev, ev["roots"], walker_ok)
        shared = [h for h in hits if h[0] in ("R2", "R3", "R5")]
        schema = [h for h in hits if h[0] == "R1" and (":SCHEMA:" not in h[2]) is False or (h[0] == "R1" and c17.role_of(h[1]) and c17.role_of(h[1])[0] in ("SCHEMA", "NAMED"))]
        if shared and ("R1", f.id, norm(ev["node"])) not in reported:
            reported.add(("R1", f.id, norm(ev["node"])))
            ctx.violation("C18.R1", inst, f.where(ev["node"]), f"{f.qualname}: {norm(ev['node'])[:90]}", f"{shared[0][2]}: two threads running this code race on the same object ({len(shared)} shared root(s))")
        else:
            ctx.holds("C18.R1", inst + " touches no module-level / class-level / default object", f.where(ev["node"]))
        if schema and ("R2", f.id, norm(ev["node"])) not in reported:
            reported.add(("R2", f.id, norm(ev["node"])))
            ctx.violation("C18.R2", inst, f.where(ev["node"]), f"{f.qualname}: {norm(ev['node'])[:90]}", f"{schema[0][2]}: threads sharing one parsed schema race on it")
        else:
            ctx.holds("C18.R2", inst + " does not touch a schema argument", f.where(ev["node"]))
    # every shared root is accounted for
    globs = set()
    for v in eff._glob.values():
        globs |= v
    touched = set()
    for ev in eff.events:
        touched |= ev["roots"]
    for g in sorted(globs):
        if g not in touched and "GI:" + g[2:] not in touched:
            ctx.holds("C18.R1", f"module-level object {g[2:]} is read-only after import", "")
    ctx.rule("C18.R3", "per-operation state lives in locals, instances and generator frames: no global / nonlocal, no caching decorator, no mutable class-level attribute", floor=2)
    bad = []
    for m in p.modules.values():
        for n in ast.walk(m.tree):
            if isinstance(n, (ast.Global, ast.Nonlocal)):
                bad.append(f"{m.relpath}:{n.lineno}: {type(n).__name__.lower()} {', '.join(n.names)}")
            if isinstance(n, (ast.FunctionDef, ast.ClassDef)):
                for d in n.decorator_list:
                    if any(x in norm(d) for x in ("cache", "memo", "singledispatch")):
                        bad.append(f"{m.relpath}:{n.lineno}: @{norm(d)}")
    ctx.check("C18.R3", "no global / nonlocal statement and no caching decorator in the package", not bad, bad[0].rsplit(":", 1)[0] if bad else "", bad[0] if bad else "", "process-wide state shared by all threads")
    # a class-level display is shared state only if something writes into it: a table that is only read is a constant
    written_attrs = set()
    for m in p.modules.values():
        for n in ast.walk(m.tree):
            tgt = None
            if isinstance(n, ast.Subscript) and isinstance(n.ctx, (ast.Store, ast.Del)) and isinstance(n.value, ast.Attribute):
                tgt = n.value.attr
            elif isinstance(n, ast.Call) and isinstance(n.func, ast.Attribute) and n.func.attr in ("append", "extend", "insert", "add", "update", "setdefault", "pop", "popitem", "clear", "remove", "discard", "sort", "reverse", "appendleft") and isinstance(n.func.value, ast.Attribute):
                tgt = n.func.value.attr
            elif isinstance(n, ast.AugAssign) and isinstance(n.target, ast.Attribute):
                tgt = n.target.attr
            elif isinstance(n, (ast.Assign, ast.AnnAssign)) and not isinstance(m.tree, type(None)):
                for t_ in (n.targets if isinstance(n, ast.Assign) else [n.target]):
                    if isinstance(t_, ast.Attribute) and not (isinstance(t_.value, ast.Name) and t_.value.id == "self"):
                        written_attrs.add(t_.attr)
            if tgt is not None:
                written_attrs.add(tgt)
    cls_mut = [(ci, attr) for ci in p.all_classes() for attr, v in ci.class_attrs.items() if _mutable_display(v) and attr in written_attrs]
    ctx.check("C18.R3", "no mutable class-level attribute", not cls_mut, cls_mut[0][0].mod.relpath + ":" + cls_mut[0][0].name if cls_mut else "", f"{cls_mut[0][0].name}.{cls_mut[0][1]}" if cls_mut else "", "a mutable class attribute is shared by all instances in all threads")
    # ---- R4 interpreter- and process-wide settings ----------------------------------------------------------------------
    ctx.rule("C18.R4", "no call that changes an interpreter-wide or process-wide setting (recursion limit, trace hooks, ambient decimal context, locale, environment, working directory, global RNG seed, warning filters, default socket timeout, gc)", floor=1)
    n_calls = 0
    bad = []
    for m in p.modules.values():
        if m.short in ("__main__",):
            continue
        imports = getattr(m, "imports", {})
        nested = {}
        for n in ast.walk(m.tree):
            if isinstance(n, (ast.Import, ast.ImportFrom)):
                # imports inside functions
                for al in n.names:
                    local = al.asname or al.name.split(".")[0]
                    if isinstance(n, ast.Import):
                        nested.setdefault(local, ("module", al.name if al.asname else al.name.split(".")[0], None))
                    elif n.level == 0 and n.module:
                        nested.setdefault(al.asname or al.name, ("attr", n.module, al.name))

        def target(fn):
            if isinstance(fn, ast.Attribute) and isinstance(fn.value, ast.Name):
                r = imports.get(fn.value.id)
                if r is not None and r.kind == "module":
                    return (r.module, fn.attr)
                if r is not None and r.kind == "attr" and r.external:
                    return (f"{r.module}.{r.attr}", fn.attr)
                if r is None and fn.value.id in nested and nested[fn.value.id][0] == "module":
                    return (nested[fn.value.id][1], fn.attr)
            if isinstance(fn, ast.Attribute) and isinstance(fn.value, ast.Attribute) and isinstance(fn.value.value, ast.Name):
                r = imports.get(fn.value.value.id)
                if r is not None and r.kind == "module":
                    return (f"{r.module}.{fn.value.attr}", fn.attr)
            if isinstance(fn, ast.Name):
                r = imports.get(fn.id)
                if r is not None and r.kind == "attr" and r.external:
                    return (r.module, r.attr)
                if r is None and fn.id in nested and nested[fn.id][0] == "attr":
                    return (nested[fn.id][1], nested[fn.id][2])
            return None

        for n in ast.walk(m.tree):
            if isinstance(n, ast.Call):
                t = target(n.func)
                if t is None:
                    continue
                n_calls += 1
                if t in PROCESS_WIDE or (t[0] in ("os", "posix") and t[1] in ("chdir", "fchdir", "umask", "putenv", "unsetenv", "setuid", "setgid", "nice")):
                    bad.append((m, n, f"{t[0]}.{t[1]}"))
            # stores into os.environ / sys.<attr> / the ambient decimal context
            tgts = []
            if isinstance(n, ast.Assign):
                tgts = n.targets
            elif isinstance(n, (ast.AugAssign, ast.AnnAssign)):
                tgts = [n.target]
            elif isinstance(n, ast.Delete):
                tgts = n.targets
            for tg in tgts:
                base = tg.value if isinstance(tg, (ast.Subscript, ast.Attribute)) else None
                if base is None:
                    continue
                bt = norm(base)
                if isinstance(base, ast.Attribute) and isinstance(base.value, ast.Name) and getattr(imports.get(base.value.id), "kind", None) == "module" and (imports[base.value.id].module, base.attr) == ("os", "environ"):
                    bad.append((m, n, "os.environ[...] = ..."))
                elif isinstance(tg, ast.Attribute) and isinstance(base, ast.Name) and getattr(imports.get(base.id), "kind", None) == "module" and imports[base.id].module == "sys":
                    bad.append((m, n, f"sys.{tg.attr} = ..."))
                elif isinstance(tg, ast.Attribute) and isinstance(base, ast.Call) and target(base.func) == ("decimal", "getcontext"):
                    bad.append((m, n, f"decimal.getcontext().{tg.attr} = ..."))
    for (m, n, what) in bad:
        ctx.violation("C18.R4", f"{m.relpath}: {what}", f"{m.relpath}:{_enclosing_name(m, n)}:{n.lineno}", f"{m.relpath}: {norm(n)[:90]}", "the setting belongs to the whole interpreter (or process): another thread inside the library at the same time sees it change under its feet, and a restore by the first caller to finish takes it away from the others; results then depend on the schedule")
    if not bad:
        ctx.holds("C18.R4", f"{n_calls} calls of imported functions examined: none changes a process-wide setting", "")
    ctx.extra["mutation_sites"] = len(eff.events)
    ctx.extra["entry_groups"] = {g: len(e.funcs) for g, e in eff.runs.items()}
