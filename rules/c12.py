"""C12 Idempotent parsing; raw / parsed / piecewise-parsed schemas behave alike."""
import ast
import re

from sa.loader import AnalysisError, norm, walk_local
from sa.cfg import cfg_of
from sa.callgraph import bind_args
from .common import true_facts, analysis, names_in, resolve_local, value_sources, assigned_values

PROP = "C12"
TECHNIQUE = "def-use provenance per public entry point (schema reaching a worker comes from parse_schema with the very, shared, name table handed to the worker); CFG dominance of the early-return copy of the embedded name table; data-dependence of the header schema on the name table filled by the parse; who-may-drop discipline for the reader schema"
LEVEL_TEXT = (
    "Static analysis: for each public function with a schema parameter the value reaching write_data / read_data / _validate / gen_data / "
    "the canonical writer / the anonymizer must be the result of parse_schema on that parameter, parsed against the very dictionary the "
    "worker receives, so raw, parsed and piecewise-parsed schemas enter the workers in the same form; parse_schema's return of the "
    "unmodified argument must be dominated by the copy of its embedded name table (schemas carrying only the old marker are re-parsed); "
    "the container header must be computed from the schema AND the name table filled by the parse, with definitions inlined recursively."
)
LEVEL_NOTE = "Not decided: equality of results of every operation under the three schema forms (runtime values)."
ASSUMPTIONS = []

WORKERS = {"write_data", "read_data", "_validate", "gen_data", "_to_parsing_canonical_form", "_anonymize_schema"}

# entry point -> (schema parameter, worker) pairs expected (frozen from the role table, confirmed by reading)
ENTRIES = {
    "_write_py:schemaless_writer": [("schema", "write_data")],
    "_read_py:schemaless_reader": [("writer_schema", "read_data"), ("reader_schema", "read_data")],
    "_validation_py:validate": [("schema", "_validate")],
    "_validation_py:validate_many": [("schema", "_validate")],
    "utils:generate_many": [("schema", "gen_data")],
    "utils:anonymize_schema": [("schema", "_anonymize_schema")],
    "_schema_py:to_parsing_canonical_form": [("schema", "_to_parsing_canonical_form")],
}


def parse_calls(f):
    return [n for n in ast.walk(f.node) if isinstance(n, ast.Call) and isinstance(n.func, ast.Name) and n.func.id == "parse_schema"]


def run(ctx):
    a = analysis(ctx.program)
    p = a.p
    ps = p.func("_schema_py:parse_schema")

    # ---- R1 every entry point parses -----------------------------------------------------------
    ctx.rule("C12.R1", "per entry point: the schema reaching the worker is parse_schema(<schema param>, N) and the worker receives the same N", floor=12)
    for fid, pairs in sorted(ENTRIES.items()):
        f = p.func(fid)
        pcs = parse_calls(f)
        for (param, worker) in pairs:
            wcalls = [n for n in ast.walk(f.node) if isinstance(n, ast.Call) and isinstance(n.func, ast.Name) and n.func.id == worker]
            if not wcalls:
                # the work is handed to something else (an object, a renamed worker): not judged, never a verdict
                ctx.unrecognised("C12.R1", f"{f.qualname}: calls {worker}", f.where(), f"{f.qualname}: no call of {worker}: the entry point no longer goes through the worker this rule follows")
                continue
            # the parse of this parameter
            mine = [c for c in pcs if c.args and norm(c.args[0]) == param or (isinstance(c.args[0], ast.Name) and _assigned_from(f, c.args[0].id, param))]
            if not mine:
                ctx.violation("C12.R1", f"{f.qualname}: {param} is parsed", f.where(), f"{f.qualname}: {param} reaches {worker} unparsed", "a raw schema (no full names, no name table) would reach the worker")
                continue
            pc = mine[0]
            b = bind_args(ps, pc)
            table = norm(b["named_schemas"]) if "named_schemas" in b else None
            # variable holding the parsed schema
            par = a.parent(f.mod, pc)
            var = norm(par.targets[0]) if isinstance(par, ast.Assign) and len(par.targets) == 1 else None
            wc = wcalls[0]
            args = [norm(x) for x in wc.args] + [norm(k.value) for k in wc.keywords]
            uses_parsed = (var is not None and var in args) or any(norm(pc) == x for x in args)
            ctx.check("C12.R1", f"{f.qualname}: {worker} receives parse_schema({param}, ...)", uses_parsed, f.where(wc), f"{f.qualname}: {norm(wc)[:90]}", f"the worker does not receive the parsed form of `{param}`")
            if worker == "_to_parsing_canonical_form":
                ctx.holds("C12.R1", f"{f.qualname}: canonical writer needs no name table", f.where(wc))
                continue
            if table is None:
                ctx.violation("C12.R1", f"{f.qualname}: {param} parsed against a name table", f.where(pc), f"{f.qualname}: {norm(pc)[:80]}", "parse_schema is called without a named_schemas dictionary although the worker needs one: by-name references in a piecewise-parsed schema cannot be resolved")
                continue
            # the worker's named_schemas argument is the same dictionary (or the dict containing it under 'writer'/'reader')
            root = table.split("[")[0]
            tnode = b["named_schemas"]
            shared = isinstance(tnode, (ast.Name, ast.Attribute, ast.Subscript))  # a display / call creates a dictionary nobody else can see
            ok = shared and any(x == table or x == root for x in args)
            ctx.check("C12.R1", f"{f.qualname}: {worker} receives the name table filled by the parse ({table})", ok, f.where(wc), f"{f.qualname}: parse into {table} but {worker}({', '.join(args)[:80]})", "the worker resolves references in a different dictionary than the one the parse filled (e.g. the schema's private __named_schemas copy): references defined in separately parsed pieces are lost")
    # what is parsed is the schema as it was given: an entry point that rewrites its schema argument first (decodes text,
    # normalises, copies selectively) gives the raw and the parsed form of one schema different meanings
    SCHEMA_PARAMS = dict((fid, [pr for pr, _ in pairs]) for fid, pairs in ENTRIES.items())
    SCHEMA_PARAMS.update({"json_read:json_reader": ["schema", "reader_schema"], "json_write:json_writer": ["schema"], "_write_py:writer": ["schema"], "_read_py:reader.__init__": ["reader_schema"], "_read_py:block_reader.__init__": ["reader_schema"]})
    for fid, prs in sorted(SCHEMA_PARAMS.items()):
        f = p.maybe_func(fid)
        if f is None:
            continue
        for pr in prs:
            if pr not in f.params:
                continue
            bad = []
            for n in walk_local(f.node):
                if isinstance(n, ast.Assign) and any(isinstance(t, ast.Name) and t.id == pr for t in n.targets):
                    v = n.value
                    fine = (isinstance(v, ast.Constant) and v.value is None) or (isinstance(v, ast.Call) and isinstance(v.func, ast.Name) and v.func.id in ("parse_schema", "match_schemas", "load_schema", "expand_schema") and any(isinstance(x, ast.Name) and x.id == pr for x in ast.walk(v))) or (isinstance(v, ast.Name) and v.id == pr)
                    if not fine:
                        bad.append(n)
            ctx.check("C12.R1", f"{f.qualname}: `{pr}` is parsed as it was given", not bad, f.where(bad[0]) if bad else f.where(), f"{f.qualname}: {norm(bad[0])[:90]}" if bad else "", f"the schema argument `{pr}` is replaced before it is parsed: the raw form then denotes another schema than the one the caller wrote (a type name that happens to be JSON text, a stripped attribute)")
    # the table a parsed schema carries along is the very table the parse filled (complete: a definition in it may refer
    # to further separately parsed types that only the complete table knows)
    psf = p.func("_schema_py:_parse_schema")
    tparam = psf.pos_params[5] if len(psf.pos_params) > 5 else "named_schemas"
    hint_stores = [n for n in walk_local(psf.node) if isinstance(n, ast.Assign) and any(isinstance(t, ast.Subscript) and isinstance(t.slice, ast.Constant) and t.slice.value == "__named_schemas" for t in n.targets)]
    if not hint_stores:
        ctx.unrecognised("C12.R1", "_parse_schema: the parsed schema carries its name table", psf.where(), "no store to ['__named_schemas'] found")
    for n in hint_stores:
        v = n.value
        ok = isinstance(v, ast.Name) and v.id == tparam
        ctx.check("C12.R1", "_parse_schema: the table stored in the parsed schema is the complete table of the parse", ok, psf.where(n), f"_parse_schema: {norm(n)[:90]}", "a parsed schema that carries a restricted or rebuilt table (only the names it mentions itself) cannot resolve what those definitions refer to in turn: a piecewise-parsed chain Parent -> Child -> Grand works as raw schema and fails as parsed one")
    # class-based entry points: GenericWriter / file_reader keep the parse result and the table on the instance
    gw = p.func("_write_py:GenericWriter.__init__")
    ok = any(isinstance(n, ast.Assign) and norm(n) == "self.schema = parse_schema(schema, self._named_schemas)" for n in walk_local(gw.node))
    ctx.check("C12.R1", "GenericWriter: self.schema = parse_schema(schema, self._named_schemas)", ok, gw.where(), "GenericWriter.__init__: schema parse", "writers must encode with the parsed schema and the table filled by that parse")
    for cid in ("_write_py:Writer", "_write_py:JSONWriter"):
        w = p.cls(cid).methods["write"]
        calls = [n for n in walk_local(w.node) if isinstance(n, ast.Call) and isinstance(n.func, ast.Name) and n.func.id == "write_data"]
        ok = len(calls) == 1 and [norm(x) for x in calls[0].args[2:4]] == ["self.schema", "self._named_schemas"]
        ctx.check("C12.R1", f"{w.qualname}: write_data(..., self.schema, self._named_schemas, ...)", ok, w.where(), f"{w.qualname}: {[norm(c)[:70] for c in calls]}", "records are encoded with something other than the parsed schema and its table")
    fr = p.func("_read_py:file_reader.__init__")
    ok = any(isinstance(n, ast.Assign) and norm(n.targets[0]) == "self.reader_schema" and norm(n.value).startswith("parse_schema(reader_schema, self._named_schemas['reader']") for n in walk_local(fr.node))
    ctx.check("C12.R1", "file_reader: reader schema parsed into self._named_schemas['reader']", ok, fr.where(), "file_reader.__init__: reader schema parse", "the reader schema must be parsed into the reader-side table")
    jr = p.func("json_read:json_reader")
    ok = any(isinstance(n, ast.Call) and norm(n).startswith("parse_schema(reader_schema, reader_instance._named_schemas['reader']") for n in walk_local(jr.node))
    ctx.check("C12.R1", "json_reader: reader schema parsed into the instance's reader-side table", ok, jr.where(), "json_reader: reader schema parse", "the JSON reader's reader schema must be parsed like the binary reader's")

    # ---- R2 early return copies the table --------------------------------------------------------
    ctx.rule("C12.R2", "parse_schema decision table over {dict, parsed marker, embedded table, _force/expand}: a marked schema is returned as is only after its embedded table was copied into the caller's dictionary; a marker without table is re-parsed", floor=3)
    cfg = cfg_of(ps)
    sparam = ps.pos_params[0]
    from sa import guards as _g

    def outcome(is_dict, marker, table, forced):
        atoms = {
            f"isinstance({sparam}, dict)": is_dict,
            f"isinstance({sparam}, list)": False,
            f"'__fastavro_parsed' in {sparam}": marker,
            f"'__named_schemas' in {sparam}": table,
            "_force": forced,
            "expand": False,
            "named_schemas is None": False,
        }
        eff = []
        r = _g.run_chain(ps.node.body, {}, atoms, effects=eff)
        return r, eff

    def copies_table(eff):
        for st in eff:
            txt = norm(st)
            # the whole table: a loop over the table itself that stores every entry, or update(<table>)
            if isinstance(st, ast.For) and "__named_schemas" in norm(st.iter) and any(isinstance(x, ast.Assign) and norm(x.targets[0]).startswith("named_schemas[") for x in st.body):
                return True
            if isinstance(st, ast.Expr) and isinstance(st.value, ast.Call) and norm(st.value.func) == "named_schemas.update" and st.value.args and "__named_schemas" in norm(st.value.args[0]) and not isinstance(st.value.args[0], (ast.DictComp, ast.GeneratorExp)):
                return True
        return False

    cases = {
        "parsed schema with its table": (True, True, True, False),
        "parsed marker without table": (True, True, False, False),
        "parsed schema with its table, _force": (True, True, True, True),
        "raw dict schema": (True, False, False, False),
    }
    for label, args in cases.items():
        r, eff = outcome(*args)
        if r[0] != "return" or r[1] is None:
            ctx.unrecognised("C12.R2", f"parse_schema: {label}", ps.where(), f"decision not evaluable ({r[0]}: {norm(r[1])[:60] if len(r) > 1 and r[1] is not None else ''})")
            continue
        txt = norm(r[1])
        reparsed = txt.startswith("_parse_schema(") and txt.split("(", 1)[1].startswith(sparam)
        if label == "parsed schema with its table":
            ok = txt == sparam and copies_table(eff)
            ctx.check("C12.R2", "a parsed schema is returned as is, after its embedded name table was copied into the caller's dictionary", ok, ps.where(), f"parse_schema: returns `{txt[:50]}`, table copied: {copies_table(eff)}", "an already parsed schema is returned while the caller's named_schemas stays empty: by-name references fail later (KeyError) although the raw and the freshly parsed schema work")
        elif label == "parsed marker without table":
            ctx.check("C12.R2", "a schema carrying only the parsed marker (no embedded table) is re-parsed, not returned as is", reparsed, ps.where(), f"parse_schema: marker-only schema -> `{txt[:50]}`", "schemas marked by older releases (marker, no table) must be re-parsed; returning them as is leaves the name table empty")
        elif label == "parsed schema with its table, _force":
            ctx.check("C12.R2", "_force re-parses a parsed schema (with its table copied first)", reparsed and copies_table(eff), ps.where(), f"parse_schema: forced -> `{txt[:50]}`, table copied: {copies_table(eff)}", "a forced re-parse of a schema that refers to separately parsed types needs their definitions in the caller's dictionary")
        else:
            ctx.check("C12.R2", "a raw schema is parsed", reparsed, ps.where(), f"parse_schema: raw dict -> `{txt[:50]}`", "a raw schema is not parsed")
    # the members of a top-level union are schemas of their own: each goes through the hint-aware entry
    from sa.pathsum import summaries as _summ

    list_paths = [s_ for s_ in _summ(cfg, max_paths=2000) if s_.kind == "return" and s_.expr is not None and f"isinstance({sparam}, list)" in s_.facts and not any(x in s_.facts for x in ("_force", "expand", "_force or expand"))]
    if not list_paths:
        ctx.unrecognised("C12.R2", "parse_schema: top-level union", ps.where(), "no return path for a list schema found")
    for s_ in list_paths:
        calls = [c for c in ast.walk(s_.expr) if isinstance(c, ast.Call) and isinstance(c.func, ast.Name)]
        direct = [c for c in calls if c.func.id == "_parse_schema"]
        own = [c for c in calls if c.func.id == ps.name]
        ctx.check("C12.R2", "a top-level union: every member is parsed through parse_schema itself (already parsed members hand over their name tables)", bool(own) and not direct, ps.where(s_.node), f"parse_schema: list arm returns `{s_.text[:90]}`", "members that were parsed separately carry the definitions they refer to in their embedded table: parsed by the inner worker they are taken as raw schemas and the references are unknown")

    # ---- R3 header closure ---------------------------------------------------------------------------
    ctx.rule("C12.R3", "header schema strips both markers and is computed from the schema and the name table filled by the parse; definitions are inlined recursively", floor=3)
    dumps = [n for n in walk_local(gw.node) if isinstance(n, ast.Call) and norm(n.func) == "json.dumps"]
    if len(dumps) != 1 or not isinstance(dumps[0].args[0], ast.Name):
        ctx.unrecognised("C12.R3", "GenericWriter.__init__", gw.where(), "expected json.dumps(<variable>) once")
    else:
        var = dumps[0].args[0].id
        cfg = cfg_of(gw)
        dn = cfg.node_of(dumps[0])
        defs = [n for n in walk_local(gw.node) if isinstance(n, ast.Assign) and any(isinstance(t, ast.Name) and t.id == var for t in n.targets)]
        sparam = gw.pos_params[1] if len(gw.pos_params) > 1 else "schema"

        def from_schema(e):
            """the expression is (a copy of) the caller's schema, possibly with the parse markers stripped"""
            if not isinstance(e, ast.Name):
                return False
            srcs = value_sources(a, gw, e)
            return any(k == "param" and v.arg == sparam for k, v in srcs)

        closing = [n for n in defs if isinstance(n.value, ast.Call) and "self._named_schemas" in [norm(x) for x in n.value.args] and any(from_schema(x) for x in n.value.args)]
        cn = [cfg.node_of(n) for n in closing]
        # paths that avoid the closing assignment must be those on which no schema was given
        none_edges = set()
        for t in cfg.nodes:
            if t.kind == "test" and isinstance(t.ast, ast.Compare) and len(t.ast.ops) == 1 and isinstance(t.ast.ops[0], (ast.Is, ast.IsNot)) and norm(t.ast.comparators[0]) == "None" and from_schema(t.ast.left):
                none_lab = "true" if isinstance(t.ast.ops[0], ast.Is) else "false"
                for (m, lab) in t.succ:
                    if lab == none_lab:
                        none_edges.add((t, m, lab))
        if p.maybe_func("_write_py:_self_contained_schema") is None:
            # the closure helper folded into the constructor: its shortcut (nothing is referred to that the schema
            # does not define itself) is a test on the name table; paths through it are the helper's own
            for t in cfg.nodes:
                if t.kind == "test" and "self._named_schemas" in norm(t.ast):
                    for (m, lab) in t.succ:
                        none_edges.add((t, m, lab))
        ok = bool(closing) and cfg.must_pass(cfg.entry, dn, cn, skip_edges=none_edges)
        guards_ok = True
        ctx.check("C12.R3", "the header text depends on the name table filled by the parse (separately parsed definitions reach the file)", ok and guards_ok, gw.where(dumps[0]), f"GenericWriter.__init__: json.dumps({var}) with {[norm(d)[:60] for d in defs]}", "the header is the caller's schema minus markers only: types parsed separately against a shared dictionary are named but not defined, and the file cannot be read on its own")
        strip = [n for n in walk_local(gw.node) if isinstance(n, ast.DictComp) and "'__fastavro_parsed'" in norm(n) and "'__named_schemas'" in norm(n)]
        ctx.check("C12.R3", "both parse markers are stripped from the header schema (dict and list forms)", len(strip) >= 2, gw.where(), f"GenericWriter.__init__: {len(strip)} marker-stripping comprehensions", "parse markers leak into the file header")
    # the walk that builds the closure, by role: the functions through which the name table flows, starting from the
    # call in _self_contained_schema that receives it (one recursive function, or a group of mutually recursive ones)
    sc = p.maybe_func("_write_py:_self_contained_schema")
    table_param = {}
    entry_calls = []
    if sc is not None and len(sc.pos_params) >= 2:
        stbl = sc.pos_params[1]
        for c in walk_local(sc.node):
            if isinstance(c, ast.Call) and isinstance(c.func, ast.Name):
                g = p.resolve_func(sc.mod, c.func)
                if g is None or g.cls is not None:
                    continue
                b = bind_args(g, c)
                returned = any(isinstance(x, ast.Return) and x.value is c for x in walk_local(sc.node))
                for pn, arg in b.items():
                    is_tbl = isinstance(arg, ast.Name) and arg.id == stbl
                    # a local computed from the table stands in the table's role (a restriction of it: reported below)
                    derived = isinstance(arg, ast.Name) and arg.id != stbl and any(stbl in names_in(v) for v in assigned_values(sc.node, arg.id))
                    if (is_tbl or derived) and returned and g.id not in table_param:
                        table_param[g.id] = (g, pn)
                        entry_calls.append((sc, c, arg))
    if sc is None and len(dumps) == 1 and isinstance(dumps[0].args[0], ast.Name):
        # folded into the constructor: the calls that receive the writer's name table and produce the header schema
        for n in walk_local(gw.node):
            if isinstance(n, ast.Assign) and any(isinstance(t, ast.Name) and t.id == dumps[0].args[0].id for t in n.targets) and isinstance(n.value, ast.Call) and isinstance(n.value.func, ast.Name):
                g = p.resolve_func(gw.mod, n.value.func)
                if g is None or g.cls is not None:
                    continue
                for pn, arg in bind_args(g, n.value).items():
                    if norm(arg) == "self._named_schemas" and g.id not in table_param:
                        table_param[g.id] = (g, pn)
                        entry_calls.append((gw, n.value, arg))
    work = [g for g, _ in table_param.values()]
    while work:
        f = work.pop()
        tp = table_param[f.id][1]
        for c in ast.walk(f.node):
            if isinstance(c, ast.Call) and isinstance(c.func, ast.Name):
                g = p.resolve_func(f.mod, c.func)
                if g is None or g.cls is not None:
                    continue
                for pn, arg in bind_args(g, c).items():
                    if isinstance(arg, ast.Name) and arg.id == tp and g.id not in table_param:
                        table_param[g.id] = (g, pn)
                        work.append(g)
    group = [g for g, _ in table_param.values()]
    if not group:
        ctx.unrecognised("C12.R3", "header closure helper", gw.where(), "the walk that receives the name table from _self_contained_schema was not found (closure implemented differently)")
    else:
        names = ", ".join(sorted(g.name for g in group))
        from_table = False
        for f in group:
            tp = table_param[f.id][1]
            for c in ast.walk(f.node):
                if isinstance(c, ast.Call) and isinstance(c.func, ast.Name) and getattr(p.resolve_func(f.mod, c.func), "id", None) in table_param:
                    if any(f"{tp}[" in norm(resolve_local(f.node, x)) or f"{tp}.get(" in norm(resolve_local(f.node, x)) for x in c.args):
                        from_table = True
        ctx.check("C12.R3", "a definition taken from the name table is itself processed (references inside it are inlined too)", from_table, group[0].where(), f"{names}: definition from the name table returned without recursion", "a chain Parent -> Child -> Grandchild of separately parsed pieces leaves 'Grandchild' undefined in the header")
        # the walk is given the complete name table at every step (a definition taken from it may refer to further ones)
        for f in [sc if sc is not None else gw] + group:
            tp = (sc.pos_params[1] if sc is not None else "self._named_schemas") if f in (sc, gw) else table_param[f.id][1]
            for c in ast.walk(f.node):
                if not (isinstance(c, ast.Call) and isinstance(c.func, ast.Name)):
                    continue
                g = p.resolve_func(f.mod, c.func)
                if g is None or g.id not in table_param:
                    continue
                targ = bind_args(g, c).get(table_param[g.id][1])
                if f is gw:
                    good = targ is not None and norm(targ) == tp
                else:
                    good = isinstance(targ, ast.Name) and targ.id == tp and not any(isinstance(x, ast.Name) and x.id == tp and isinstance(x.ctx, ast.Store) for x in walk_local(f.node))
                ctx.check("C12.R3", f"{f.qualname}: the definitions walk receives the complete name table", good, f.where(c), f"{f.qualname}: {norm(c)[:100]}", "a definition inlined from the table can itself refer to separately parsed types: with a restricted table those stay undefined in the header")
        adds = {norm(n.value.func.value) for f in group for n in ast.walk(f.node) if isinstance(n, ast.Expr) and isinstance(n.value, ast.Call) and isinstance(n.value.func, ast.Attribute) and n.value.func.attr == "add" and isinstance(n.value.func.value, ast.Name)}
        tests = {norm(t.comparators[0]) for f in group for n in ast.walk(f.node) if isinstance(n, (ast.If, ast.IfExp)) for t in ast.walk(n.test) if isinstance(t, ast.Compare) and len(t.ops) == 1 and isinstance(t.ops[0], (ast.In, ast.NotIn))}
        ok = bool(adds & tests)
        ctx.check("C12.R3", "each name is defined once in the header (set of names defined so far)", ok, group[0].where(), f"{names}: defined-so-far bookkeeping", "a type reachable twice would be defined twice (redefined named type on read)")
        # ... and on every path: a definition (dict schema of a named kind) is never handed back before its name is
        # recorded, except as the reference that replaces a second definition
        for f in group:
            fcfg = cfg_of(f)
            sp = f.pos_params[0]
            add_nodes = [fcfg.node_of(n) for n in ast.walk(f.node) if isinstance(n, ast.Expr) and isinstance(n.value, ast.Call) and isinstance(n.value.func, ast.Attribute) and n.value.func.attr == "add" and isinstance(n.value.func.value, ast.Name) and norm(n.value.func.value) in adds]
            named_tests = [t for t in fcfg.nodes if t.kind == "test" and "NAMED_TYPES" in norm(t.ast)]
            if not add_nodes:
                continue
            if not named_tests:
                ctx.unrecognised("C12.R3", f"{f.qualname}: a definition's name is recorded before it is returned", f.where(), "no test of the schema kind against NAMED_TYPES found")
                continue
            skip = set()
            for t in named_tests:
                neg = isinstance(t.ast, ast.Compare) and isinstance(t.ast.ops[0], ast.NotIn)
                for (m, lab) in t.succ:
                    if lab == ("true" if neg else "false"):
                        skip.add((t, m, lab))
            for r in [n for n in walk_local(f.node) if isinstance(n, ast.Return) and n.value is not None]:
                facts = true_facts(fcfg, fcfg.node_of(r))
                if f"isinstance({sp}, dict)" not in facts:
                    continue
                already = any(re.fullmatch(r".+ in (%s)" % "|".join(map(re.escape, adds)), x) for x in facts)
                ok = already or fcfg.must_pass(fcfg.entry, fcfg.node_of(r), add_nodes, skip_edges=skip)
                ctx.check("C12.R3", f"{f.qualname}: a definition's name is recorded before it is returned", ok, f.where(r), f"{f.qualname}: `{norm(r)[:60]}` reachable for a named type without recording its name", "a named type handed back without being recorded as defined is inlined again at its next reference: the header defines it twice and the file cannot be read")
    _r4(ctx, a)
    _shared(ctx)


def _r4(ctx, a):
    from .c08 import reader_drop_discipline

    ctx.rule("C12.R4", "schemaless_reader drops the reader schema only under equality of the complete schemas given (name tables of parsed schemas included)", floor=4)
    reader_drop_discipline(ctx, a, "C12.R4")


def _assigned_from(f, name, param):
    return False


def _shared(ctx):
    ctx.borrow("C15", {"C15.R5": "C12.R5"}, "a piecewise-parsed schema refers to its named types by name everywhere the raw schema defines them inline: the JSON grammar must compile a reference exactly like the definition, with the referring field's own default", only=lambda o: "by-name" in o.get("instance", ""))
