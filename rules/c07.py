"""C07 Any history of write / flush / write_block / append — typestate of Writer."""
import ast

from sa.loader import AnalysisError, norm, walk_local
from sa.shapes import Shaper, consumption
from sa.cfg import cfg_of
from .common import analysis, tokens
from .c04 import flush_rule, guard_texts, pending_guard

PROP = "C07"
TECHNIQUE = "typestate of Writer over the CFG with exception edges: rollback of the pending buffer on every exceptional exit of the encoding call, count-after-success, write_block/flush scenarios, provenance of the append arm's state from the existing header"
LEVEL_TEXT = (
    "Static analysis of the Writer state machine (pending buffer, block_count, header fields): every exceptional exit of the call "
    "that encodes into the pending buffer must pass through a restoration of that buffer (truncate AND seek back to a position "
    "saved before the call); the count is incremented only after success; write_block must dump pending records first and re-emit "
    "the donor block with this writer's codec and sync marker; flush must emit the pending block iff it holds bytes or records; in "
    "append mode write_header is unreachable and schema / sync marker / block writer are taken from the existing header, never "
    "from the constructor's arguments. Quantifies over every history because each obligation is per operation and per path."
)
LEVEL_NOTE = (
    "Not decided: 'after each flush the stream reads back as exactly the records submitted' as a statement about values over all "
    "histories. Trusted: BytesIO.truncate does not move the position (so seek is required as well), exception edges of the hand-built CFG."
)
ASSUMPTIONS = ["BytesIO.truncate(n) leaves the stream position unchanged (stdlib fact), so a rollback needs both truncate and seek"]


def run(ctx):
    a = analysis(ctx.program)
    p = a.p
    W = p.cls("_write_py:Writer")
    wr = W.methods["write"]
    cfg = cfg_of(wr)

    enc = [n for n in walk_local(wr.node) if isinstance(n, ast.Call) and isinstance(n.func, ast.Name) and n.func.id == "write_data"]
    if not enc:
        raise AnalysisError("Writer.write: no write_data call")
    enc_all = list(enc)
    all_exc_succ = []

    # ---- R1 failed write leaves no residue ---------------------------------------------------
    ctx.rule("C07.R1", "every exceptional exit after the call that encodes into the pending buffer passes through a restoration of that buffer (truncate and seek to a position saved before the call)", floor=1)
    for one in enc_all:
        enc = [one]
        en = cfg.node_of(enc[0])
        buf = norm(enc[0].args[0])  # self.io
        # positions saved before the call: v = <buf>._fo.tell() dominating the call
        saved = {}
        for n in walk_local(wr.node):
            if isinstance(n, ast.Assign) and len(n.targets) == 1 and isinstance(n.targets[0], ast.Name) and norm(n.value) == f"{buf}._fo.tell()":
                if cfg.dominates(cfg.node_of(n), en):
                    saved[n.targets[0].id] = n
        trunc, seek = [], []
        for n in walk_local(wr.node):
            if isinstance(n, ast.Call) and isinstance(n.func, ast.Attribute) and norm(n.func.value) == f"{buf}._fo" and n.args and isinstance(n.args[0], ast.Name) and n.args[0].id in saved:
                if n.func.attr == "truncate":
                    trunc.append(cfg.node_of(n))
                elif n.func.attr == "seek" and (len(n.args) == 1 or norm(n.args[1]) in ("SEEK_SET", "0", "os.SEEK_SET", "io.SEEK_SET")):
                    seek.append(cfg.node_of(n))
        exc_succ = [m for (m, lab) in en.succ if lab == "exc"]
        # scratch-encoder idiom: the encoding call does not target the pending buffer at all
        if buf != "self.io":
            ctx.unrecognised("C07.R1", "Writer.write", wr.where(enc[0]), f"record is encoded into {buf}, not self.io: scratch-buffer idiom not modelled")
        else:
            ok = True
            why = ""
            # a failure of the restoration calls themselves is not part of the obligation
            own_exc = {(r, m2, lab) for r in trunc + seek for (m2, lab) in r.succ if lab == "exc"}
            for m in exc_succ:
                start = {m} | cfg.reachable_from(m)
                if m is cfg.raise_exit or cfg.raise_exit in start or cfg.exit in start:
                    for goal in (cfg.raise_exit, cfg.exit):
                        for via, what in ((trunc, "truncate"), (seek, "seek")):
                            reach = {m} | cfg.reachable_from(m, avoid=via, skip_edges=own_exc)
                            if m in via:
                                continue
                            if goal in reach:
                                ok = False
                                why = f"an exceptional path from the encoding call reaches the function's {'exceptional' if goal is cfg.raise_exit else 'normal'} exit without {what}() of the pending buffer back to the saved position"
            ctx.check("C07.R1", "Writer.write: rollback of the pending buffer on failure", ok and bool(exc_succ), wr.where(enc[0]), "Writer.write: write_data(self.io, ...) exceptional exit", why or "no exception edge found")
            # the handler must re-raise (the failure is reported, not swallowed)
            for m in exc_succ:
                if m.kind == "handler":
                    reach = {m} | cfg.reachable_from(m)
                    ctx.check("C07.R1", "Writer.write: the failure is re-raised after the rollback", cfg.exit not in reach, wr.where(m.stmt), "Writer.write: handler completes normally", "a failed write is swallowed: the caller believes the record was written")

        all_exc_succ.extend(exc_succ)
    exc_succ = all_exc_succ
    enc_nodes = [cfg.node_of(e_) for e_ in enc_all]

    # ---- R2 count after success -----------------------------------------------------------------
    ctx.rule("C07.R2", "block_count is incremented after the encoding call succeeded and is not reachable from its exception edge", floor=1)
    inc = [n for n in walk_local(wr.node) if isinstance(n, ast.AugAssign) and norm(n.target) == "self.block_count"]
    if len(inc) != 1:
        ctx.unrecognised("C07.R2", "Writer.write", wr.where(), "expected one increment of block_count")
    else:
        ic = cfg.node_of(inc[0])
        from_exc = set()
        for m in exc_succ:
            from_exc |= {m} | cfg.reachable_from(m)
        ok = ic not in ({cfg.entry} | cfg.reachable_from(cfg.entry, avoid=enc_nodes)) and ic not in from_exc
        ctx.check("C07.R2", "Writer.write: increment only after success", ok, wr.where(inc[0]), f"Writer.write: {norm(inc[0])}", "block_count can be incremented although the record was not (completely) encoded, or before it is encoded")

    # ---- R3 write_block -----------------------------------------------------------------------------
    ctx.rule("C07.R3", "write_block: pending records are dumped first; donor block re-emitted with this writer's block_writer and sync marker and the donor's bytes and count", floor=2)
    wb = W.methods["write_block"]
    term = Shaper(p, a.cg, "w").shape(wb, ["BLOCK"], extra_env={"self.encoder": "C"})
    first = term[0] if term else None
    ok = first is not None and first[0] == "if" and pending_guard(first[1].strip("()").replace("(", "").replace(")", "").replace("self.io._fo.tell", "self.io._fo.tell()")) and first[2] == [("call", "self.dump()")] and not first[3]
    ctx.check("C07.R3", "write_block: dump() first when bytes or records are pending", ok, wb.where(), f"Writer.write_block: first step {first}", "a copied block can be emitted before (or instead of) the records already submitted, or zero-byte pending records are dropped")
    toks = tokens(term)
    ok = [t[0] for t in toks] == ["V", "T", "R"] and toks[0][1] == "BLOCK.num_records" and toks[1][1] == "self.block_writer" and toks[1][2][:2] == ["C", "BLOCK.bytes_.getvalue()"] and toks[2][1] == "self.sync_marker"
    ctx.check("C07.R3", "write_block: V(donor count) block_writer(donor bytes) this file's sync", ok, wb.where(), f"Writer.write_block: {consumption(term, True)}", "the donor block must be re-compressed with this file's codec and followed by this file's sync marker")

    # ---- R4 flush --------------------------------------------------------------------------------------
    ctx.rule("C07.R4", "flush emits the pending block iff it holds bytes or records, and always flushes the stream", floor=2)
    flush_rule(ctx, a, p.find_method(W, "flush"), "C07.R4")

    # ---- R5 append never rewrites the header ---------------------------------------------------------
    ctx.rule("C07.R5", "append arm: write_header unreachable; schema, name table, sync marker and block writer come from the existing file's header; seek to the end precedes any write", floor=6)
    wi = W.methods["__init__"]
    cfg = cfg_of(wi)
    tests = [t for t in cfg.nodes if t.kind == "test" and "_is_appendable(" in norm(t.ast)]
    if len(tests) != 1:
        raise AnalysisError("Writer.__init__: expected exactly one _is_appendable test")
    t = tests[0]
    arm = cfg.reachable_via(t, "true") - cfg.reachable_via(t, "false")
    wh = [cfg.node_of(n) for n in walk_local(wi.node) if isinstance(n, ast.Call) and isinstance(n.func, ast.Name) and n.func.id == "write_header"]
    ctx.check("C07.R5", "write_header is not reachable in the append arm", bool(wh) and not any(n in cfg.reachable_via(t, "true") for n in wh), wi.where(), "Writer.__init__: write_header reachable when appending", "appending must never write a second header")
    ctx.check("C07.R5", "write_header is guarded by the append test being false", bool(wh) and all(cfg.edge_dominates(t, "false", n) for n in wh), wi.where(), "Writer.__init__: write_header not under `not appendable`", "the header of a new file is not tied to the non-append arm")
    arm_assigns = {}
    for n in arm:
        st = n.ast
        if isinstance(st, ast.Assign) and len(st.targets) == 1:
            arm_assigns.setdefault(norm(st.targets[0]), []).append(st)
    params = set(wi.params) - {"self", "fo"}

    # the reader opened on the existing file, by role: the local assigned from reader(<the output stream>)
    readers_ = [st.targets[0].id for sts in arm_assigns.values() for st in sts if isinstance(st.targets[0], ast.Name) and isinstance(st.value, ast.Call) and isinstance(st.value.func, ast.Name) and st.value.func.id == "reader"]
    RD = readers_[0] if len(readers_) == 1 else "avro_reader"

    def header_derived(expr, depth=0):
        """names in expr are the existing file's reader/header or locals (re)assigned in the arm from them"""
        for nm in {x.id for x in ast.walk(expr) if isinstance(x, ast.Name)}:
            if nm in (RD, "BLOCK_WRITERS", "parse_schema", "reader", "self"):
                continue
            if nm in arm_assigns and depth < 4 and all(header_derived(s.value, depth + 1) for s in arm_assigns[nm]):
                continue
            return False
        return True

    # locals holding the existing file
    for attr, must in (("self.schema", f"{RD}.writer_schema"), ("self.sync_marker", "['sync']"), ("self.block_writer", "BLOCK_WRITERS["), ("self._named_schemas", "")):
        sts = arm_assigns.get(attr, [])
        if not sts:
            ctx.violation("C07.R5", f"append arm assigns {attr} from the existing header", wi.where(t.ast), f"Writer.__init__: append arm does not assign {attr}", f"when appending, {attr} keeps the value computed from the constructor's arguments instead of the existing file's header")
            continue
        # ... on every path through the arm, not only when the arguments differ from the file
        starts = [m for (m, lab) in t.succ if lab == "true"]
        anodes = [cfg.node_of(st) for st in sts]
        every = all(m in anodes or cfg.must_pass(m, cfg.exit, anodes, skip_labels=("exc",)) for m in starts)
        ctx.check("C07.R5", f"append arm: {attr} is taken from the existing file on every path", every, wi.where(sts[0]), f"Writer.__init__: a path through the append arm keeps the constructor's {attr}", f"records appended with the caller's {attr} instead of the file's are encoded or framed differently from what the file's own header says (a schema with an equal canonical form can still differ in logical types, defaults or aliases)")
        for st in sts:
            # a local of the arm that is bound once stands for its value (`marker = header['sync']; self.sync_marker = marker`)
            import copy as _copy

            class _Expand(ast.NodeTransformer):
                def visit_Name(self, n):
                    if isinstance(n.ctx, ast.Load) and n.id != RD and n.id in arm_assigns and len(arm_assigns[n.id]) == 1 and not any(isinstance(x, ast.Name) and x.id == n.id for x in ast.walk(arm_assigns[n.id][0].value)):
                        return _copy.deepcopy(arm_assigns[n.id][0].value)
                    return n

            ev_ = _copy.deepcopy(st.value)
            for _ in range(3):
                ev_ = _Expand().visit(ev_)
            txt = norm(ev_)
            ok = must in txt and header_derived(st.value) and not any(p_ in {x.id for x in ast.walk(st.value) if isinstance(x, ast.Name) and x.id not in arm_assigns} for p_ in params)
            ctx.check("C07.R5", f"append arm: {attr} derived from the existing file", ok, wi.where(st), f"Writer.__init__: {norm(st)}", f"{attr} must come from the existing file's header (reader / header), not from the constructor's arguments")
    # self.sync_marker/self.block_writer must not be (re)assigned after the arm from arguments: only the two arms assign them
    seeks = [n for n in arm if n.ast is not None and any(isinstance(c, ast.Call) and isinstance(c.func, ast.Attribute) and c.func.attr == "seek" and [norm(x) for x in c.args] in (["0", "2"], ["0", "SEEK_END"], ["0", "os.SEEK_END"], ["0", "io.SEEK_END"]) for c in ast.walk(n.ast))]
    rd = [n for n in arm if n.ast is not None and any(isinstance(c, ast.Call) and isinstance(c.func, ast.Name) and c.func.id == "reader" for c in ast.walk(n.ast))]
    ok = len(seeks) >= 1 and len(rd) == 1 and all(cfg.dominates(rd[0], s) for s in seeks)
    ctx.check("C07.R5", "append arm: seek(0, 2) to the end after the header was read", ok, wi.where(t.ast), "Writer.__init__: append arm seek to end", "after reading the existing header the output must be positioned at its end before anything is written")
    rewind = [n for n in arm if n.ast is not None and any(isinstance(c, ast.Call) and isinstance(c.func, ast.Attribute) and c.func.attr == "seek" and [norm(x) for x in c.args] == ["0"] for c in ast.walk(n.ast))]
    ok = len(rewind) == 1 and len(rd) == 1 and cfg.dominates(rewind[0], rd[0])
    ctx.check("C07.R5", "append arm: rewind to 0 before the existing header is read", ok, wi.where(t.ast), "Writer.__init__: append arm rewind", "the existing header must be read from offset 0")

    # ---- shared ----
    ctx.borrow("C05", {"C05.R2": "C07.R8"}, "write_block re-emits what block_reader hands out: a history that copies blocks between files keeps every record only if the block iterator yields every block of the donor file (count, payload) and checks its sync marker", only=lambda o: "_iter_avro_blocks" in o.get("where", ""))
    ctx.borrow("C04", {"C04.R2": "C07.R6", "C04.R3": "C07.R7"}, "every history starts with the header of the new-file path and proceeds through the writer typestate: a wrong header or dump sequence makes the written history unreadable")


