"""C19 load_schema — structural obligations."""
import ast
import re

from sa.loader import AnalysisError, norm, walk_local
from sa.cfg import cfg_of, handler_names
from sa.pathsum import summaries
from .common import resolve_local, namespace_from_schema_name, assigned_values, analysis, names_in, ends_in_raise, str_consts_compared, eq_texts, true_facts, value_sources

PROP = "C19"
TECHNIQUE = "error-mapping discipline of the repository and the retry loop; CFG order of the single-injection bookkeeping; sibling agreement of the two schema walkers (reference qualification, namespace provenance by reaching definitions, kinds); threading of the injected flag through sibling positions; per-path summary of the ordered loader's result; effect analysis restricted to the loader (the caller's name table is never rolled back)"
LEVEL_TEXT = (
    "Static analysis of the repository loader: the flat repository builds <dir>/<name>.avsc and maps I/O and JSON errors to "
    "SchemaRepositoryError; in the parse/load/inject retry loop a failed load re-raises the outer UnknownType (naming the missing type); "
    "a subject is injected at most once (membership test before, insertion after, on the injected full name); _inject_schema qualifies "
    "references and tracks the namespace of records by the same rule as _parse_schema (the dotted-name rule included) and knows the same "
    "kinds; load_schema_ordered shares one name table across the listed files and injects into the last-loaded schema."
)
LEVEL_NOTE = "Not decided: equivalence with inlining for every dependency graph (runtime values). State leaks across loads (e.g. a cache on the repository) are decided by C17."
ASSUMPTIONS = []


def retry_function(p):
    """the loader's retry function, by role: the function of the schema module that calls parse_schema inside a try
    with an `except UnknownType` handler"""
    mod = p.func("_schema_py:load_schema").mod
    found = []
    for f in p.all_functions():
        if f.mod is not mod:
            continue
        for n in walk_local(f.node):
            if isinstance(n, ast.Try) and any("UnknownType" in nm for h in n.handlers for nm in handler_names(h)) and any(isinstance(c, ast.Call) and isinstance(c.func, ast.Name) and c.func.id == "parse_schema" for st in n.body for c in ast.walk(st)):
                found.append(f)
                break
    if len(found) != 1:
        raise AnalysisError(f"expected one function retrying parse_schema on UnknownType, found {[f.qualname for f in found]}")
    return found[0]


def run(ctx):
    a = analysis(ctx.program)
    p = a.p

    ctx.rule("C19.R1", "flat repository: <dir>/<name>.avsc; IOError / JSONDecodeError -> SchemaRepositoryError; a failed load re-raises the outer UnknownType", floor=5)
    ld = p.func("repository.flat_dict:FlatDictRepository.load")
    joins = [n for n in walk_local(ld.node) if isinstance(n, ast.Call) and norm(n.func) == "path.join"]
    ok = len(joins) == 1 and [norm(x) for x in joins[0].args] == ["self.path", "f'{name}.{self.file_ext}'"]
    ctx.check("C19.R1", "file looked up as join(self.path, f'{name}.{self.file_ext}')", ok, ld.where(), f"load: {[norm(j) for j in joins]}", "each type must be stored in a file named after its full name")
    init = p.func("repository.flat_dict:FlatDictRepository.__init__")
    ok = any(isinstance(n, ast.Assign) and norm(n) == "self.file_ext = 'avsc'" for n in walk_local(init.node))
    ctx.check("C19.R1", "extension is avsc", ok, init.where(), "FlatDictRepository.__init__", "schema files are <name>.avsc")
    hs = [h for n in walk_local(ld.node) if isinstance(n, ast.Try) for h in n.handlers]
    caught = {nm.split(".")[-1] for h in hs for nm in handler_names(h)}
    ok = {"IOError", "JSONDecodeError"} <= caught or {"OSError", "JSONDecodeError"} <= caught
    ok = ok and all(ends_in_raise(h.body) and "SchemaRepositoryError" in norm(h.body[-1]) for h in hs)
    ctx.check("C19.R1", "I/O and JSON errors are mapped to SchemaRepositoryError", ok, ld.where(), f"load handlers: {sorted(caught)}", "a missing or malformed file must surface as SchemaRepositoryError (which the loader turns into the UnknownType naming the missing type)")
    ok = any(isinstance(n, ast.Return) and norm(n.value) == "json.load(schema_file)" for n in walk_local(ld.node)) and not any(isinstance(n, (ast.FunctionDef,)) and n.decorator_list for n in [ld.node])
    ctx.check("C19.R1", "each load reads and parses the file afresh (no decorator on load)", ok, ld.where(), "FlatDictRepository.load", "a cached raw schema is later edited in place by the injection step: the second load of the same type sees already-inlined dependencies")
    # the repository of load_schema is the directory part of the path as it was given: following symbolic links first
    # looks for the other types next to the link's target
    lsf = p.func("_schema_py:load_schema")
    calls_ = [n for n in walk_local(lsf.node) if isinstance(n, ast.Call)]
    if not any("FlatDictRepository" in norm(c.func) for c in calls_):
        ctx.unrecognised("C19.R1", "load_schema: default repository", lsf.where(), "no FlatDictRepository(..) construction found")
    for c in calls_:
        nm = c.func.attr if isinstance(c.func, ast.Attribute) else (c.func.id if isinstance(c.func, ast.Name) else "")
        if nm in ("resolve", "realpath", "readlink"):
            ctx.violation("C19.R1", "load_schema: the directory searched is the directory part of the given path", lsf.where(c), f"load_schema: {norm(c)[:80]}", "symbolic links are followed before the directory is taken: with a schema file that is a link into another directory, the types it refers to are looked up in the wrong place", positive=True)
    ctx.check("C19.R1", "load_schema: the directory searched is the directory part of the given path", True, lsf.where())
    pw = retry_function(p)
    outer = [n for n in walk_local(pw.node) if isinstance(n, ast.Try) and any("UnknownType" in nm for h in n.handlers for nm in handler_names(h))]
    ok = False
    if len(outer) == 1:
        h = [h for h in outer[0].handlers if any("UnknownType" in nm for nm in handler_names(h))][0]
        inner = [n for st in h.body for n in ast.walk(st) if isinstance(n, ast.Try)]
        if len(inner) == 1 and h.name:
            ih = [x for x in inner[0].handlers if any("SchemaRepositoryError" in nm for nm in handler_names(x))]
            ok = len(ih) == 1 and len(ih[0].body) == 1 and isinstance(ih[0].body[0], ast.Raise) and ih[0].body[0].exc is not None and norm(ih[0].body[0].exc) == h.name
            # the handler that turns a failed load into "this type is missing" catches the repository's own error only:
            # an UnknownType (a ValueError) raised for a dependency further down names the type that is really missing
            wide = [nm for x in inner[0].handlers for nm in (handler_names(x) or ["<bare except>"]) if nm.split(".")[-1] not in ("SchemaRepositoryError",)]
            ctx.check("C19.R1", "retry loop: only the repository's own error is translated into the outer UnknownType", not wide, pw.where(inner[0]), f"{pw.name}: the load is also guarded by except {wide}", "an UnknownType raised while loading a dependency (for a file missing further down) is caught and replaced by the outer one: the error names a type whose file is present")
            # what is loaded is the type the UnknownType names: <error>.name reaches the load (directly or through a local)
            want = f"{h.name}.name"
            loads = [c for st in inner[0].body for c in ast.walk(st) if isinstance(c, ast.Call) and c.args]
            ok = ok and any(norm(resolve_local(pw.node, x)) == want or (isinstance(x, ast.Call) and x.args and any(norm(resolve_local(pw.node, y)) == want for y in x.args)) for c in loads for x in c.args)
    ctx.check("C19.R1", "retry loop: the missing subject is error.name and a failed load re-raises that UnknownType", ok, pw.where(), f"{pw.name} handlers", "a missing file must surface as an error naming the missing type, not as a repository error about a file")
    ut = p.cls("_schema_common:UnknownType").methods["__init__"]
    ok = any(isinstance(n, ast.Assign) and norm(n) == "self.name = name" for n in walk_local(ut.node))
    ctx.check("C19.R1", "UnknownType carries the name", ok, ut.where(), "UnknownType.__init__", "the loader needs the missing name")

    ctx.rule("C19.R2", "single injection: membership test before, insertion after, on the injected full name", floor=2)
    cfg = cfg_of(pw)
    inj = [n for n in walk_local(pw.node) if isinstance(n, ast.Call) and isinstance(n.func, ast.Name) and n.func.id == "_inject_schema"]
    # roles: SUB = what is injected (second argument of the injection), NAME = SUB['name'] (or a local holding it),
    # SEEN = the collection tested with `NAME not in SEEN` and updated with `SEEN.add(NAME)`
    ok = False
    if len(inj) == 1 and len(inj[0].args) >= 2:
        sub = norm(inj[0].args[1])
        name_texts = {f"{sub}['name']"} | {t.id for n in walk_local(pw.node) if isinstance(n, ast.Assign) and norm(n.value) == f"{sub}['name']" for t in n.targets if isinstance(t, ast.Name)}
        tests = []
        for t in cfg.nodes:
            if t.kind == "test" and isinstance(t.ast, ast.Compare) and len(t.ast.ops) == 1 and isinstance(t.ast.ops[0], (ast.NotIn, ast.In)) and norm(t.ast.left) in name_texts:
                tests.append((t, "true" if isinstance(t.ast.ops[0], ast.NotIn) else "false", norm(t.ast.comparators[0])))
        if len(tests) == 1:
            t, lab, seen = tests[0]
            adds = [n for n in walk_local(pw.node) if isinstance(n, ast.Call) and isinstance(n.func, ast.Attribute) and n.func.attr == "add" and norm(n.func.value) == seen and len(n.args) == 1 and norm(n.args[0]) in name_texts]
            ok = len(adds) == 1 and cfg.edge_dominates(t, lab, cfg.node_of(inj[0])) and cfg.edge_dominates(t, lab, cfg.node_of(adds[0])) and cfg.dominates(cfg.node_of(inj[0]), cfg.node_of(adds[0]))
    ctx.check("C19.R2", "inject only if not yet injected, then record the name", ok, pw.where(), f"{pw.name}: injection bookkeeping", "a type used from several places would be inlined twice (redefined named type) or never")
    # the schema being parsed = the parameter handed to parse_schema
    pcalls = [n for n in walk_local(pw.node) if isinstance(n, ast.Call) and isinstance(n.func, ast.Name) and n.func.id == "parse_schema" and n.args]
    sparam = norm(pcalls[0].args[0]) if pcalls else None
    ok = len(inj) == 1 and len(inj[0].args) == 2 and sparam is not None and norm(inj[0].args[0]) == sparam and isinstance(inj[0].args[1], ast.Name)
    ctx.check("C19.R2", "the loaded subject is injected into the schema being parsed", ok, pw.where(), f"{pw.name}: {[norm(i) for i in inj]}", "wrong arguments to the injection step")
    # the retry: a recursive call whose name-table argument is the copy taken before the failed attempt
    tparam = None
    for c in pcalls:
        for k in c.keywords:
            if k.arg == "named_schemas" and isinstance(k.value, ast.Name):
                tparam = k.value.id
        if tparam is None and len(c.args) > 1 and isinstance(c.args[1], ast.Name):
            tparam = c.args[1].id
    copies = {t.id for n in walk_local(pw.node) if isinstance(n, ast.Assign) and isinstance(n.value, ast.Call) and norm(n.value.func) in ("deepcopy", "copy.deepcopy") and tparam is not None and [norm(x) for x in n.value.args] == [tparam] for t in n.targets if isinstance(t, ast.Name)}
    retry = [n for n in walk_local(pw.node) if isinstance(n, ast.Return) and isinstance(n.value, ast.Call) and norm(n.value.func) in (pw.name, f"self.{pw.name}")]
    ok = False
    if len(retry) == 1 and tparam in pw.pos_params:
        call = retry[0].value
        params = pw.pos_params[1:] if pw.cls is not None else pw.pos_params
        idx = params.index(tparam) if tparam in params else None
        got = None
        if idx is not None and idx < len(call.args):
            got = call.args[idx]
        for k in call.keywords:
            if k.arg == tparam:
                got = k.value
        ok = got is not None and isinstance(got, ast.Name) and got.id in copies
    ctx.check("C19.R2", "the retry parses against the name table as it was before the failed attempt", ok, pw.where(), f"{pw.name} retry: {[norm(r)[:80] for r in retry]}", "names registered by the failed attempt would make the retry see redefinitions")

    ctx.rule("C19.R3", "walker agreement: _inject_schema qualifies references and tracks record namespaces like _parse_schema; same kinds", floor=4)
    inj_f = p.func("_schema_py:_inject_schema")
    ps = p.func("_schema_py:_parse_schema")

    def qual_rule(f, param):
        """conditions under which a reference (the schema parameter or a copy of it) is prefixed with the namespace;
        also the variable that holds the qualified name"""
        out, var = [], None
        for n in walk_local(f.node):
            if not isinstance(n, ast.If):
                continue
            for s in n.body:
                if isinstance(s, ast.Assign) and len(s.targets) == 1 and isinstance(s.targets[0], ast.Name):
                    v = s.targets[0].id
                    if norm(s.value) != f"namespace + '.' + {v}":
                        continue
                    operand = s.value.right
                    srcs = value_sources(a, f, operand)
                    if not any(k == "param" and x.arg == param for k, x in srcs):
                        continue
                    t = n.test
                    out.append(sorted(re.sub(rf"\b{re.escape(v)}\b", "REF", norm(c)) for c in (t.values if isinstance(t, ast.BoolOp) and isinstance(t.op, ast.And) else [t])))
                    var = v
        return out, var

    (qi, qvar), (qp, _) = qual_rule(inj_f, inj_f.pos_params[0]), qual_rule(ps, ps.pos_params[0])
    if not qp or not qi:
        ctx.unrecognised("C19.R3", "reference qualification", (ps if not qp else inj_f).where(), f"the statement that prefixes a reference with the namespace was not found in {'_parse_schema' if not qp else '_inject_schema'}")
    else:
        ctx.check("C19.R3", "a reference is qualified by the same rule in both walkers", qi == qp and len(qi) == 1, inj_f.where(), f"_inject_schema qualifies when {qi}; _parse_schema when {qp}", "the injector looks for a different full name than the parser resolves: the loaded type is never inlined (or inlined at the wrong place)")
    # record fields are walked under element 0 of schema_name(<schema>, <enclosing namespace>) in both walkers
    def field_ns_ok(f, callee, pos, schema_param):
        calls = [c for c in ast.walk(f.node) if isinstance(c, ast.Call) and isinstance(c.func, ast.Name) and c.func.id == callee and len(c.args) > pos and "'type'" in norm(c.args[0]) + "'type'" * (callee == "parse_field")]
        calls = [c for c in calls if callee == "parse_field" or "field" in norm(c.args[0]) or "['type']" in norm(c.args[0])]
        if not calls:
            return None
        return all(namespace_from_schema_name(a, f, c.args[pos], schema_param, None) for c in calls)

    ok_i = field_ns_ok(inj_f, inj_f.name, 2, inj_f.pos_params[0])
    ok_p = field_ns_ok(ps, "parse_field", 1, ps.pos_params[0])
    if ok_i is None or ok_p is None:
        ctx.unrecognised("C19.R3", "record namespace tracking", inj_f.where(), "the calls that walk a record's fields were not found")
    else:
        ctx.check("C19.R3", "both walkers take a record's namespace from schema_name (dotted names included)", ok_i and ok_p, inj_f.where() if not ok_i else ps.where(), f"namespace for record fields from schema_name: injector {ok_i}, parser {ok_p}", "a record whose namespace is carried by a dotted name would be walked with the wrong namespace: its relative references never match the loaded type")
    ki, kp = str_consts_compared(inj_f.node, "schema_type"), str_consts_compared(ps.node, "schema_type")
    if not ki or not kp:
        ctx.unrecognised("C19.R3", "schema kinds", (ps if not kp else inj_f).where(), "no comparison of the schema kind with string literals found")
    else:
        ctx.check("C19.R3", "both walkers know the same schema kinds", ki == kp, inj_f.where(), f"_inject_schema kinds {sorted(ki)} vs _parse_schema {sorted(kp)}", "a kind the parser accepts is not walked by the injector")
    icfg = cfg_of(inj_f)
    ok = any(isinstance(n, ast.Return) and n.value is not None and norm(n.value) == "(inner_schema, True)" and bool(eq_texts(qvar or "outer_schema", "inner_schema['name']") & true_facts(icfg, icfg.node_of(n))) for n in walk_local(inj_f.node))
    ctx.check("C19.R3", "the reference whose qualified name equals the loaded type's full name is replaced by its definition", ok, inj_f.where(), "_inject_schema: replacement", "the definition is not inlined at the first reference")

    ctx.rule("C19.R4", "ordered loading: one shared name table; injection into the last-loaded schema", floor=2)
    lo = p.func("_schema_py:load_schema_ordered")
    calls = [n for n in walk_local(lo.node) if isinstance(n, ast.Call) and isinstance(n.func, ast.Name) and n.func.id == "load_schema"]
    ok = False
    if len(calls) == 1:
        ns = [k.value for k in calls[0].keywords if k.arg == "named_schemas"] + list(calls[0].args[2:3])
        if len(ns) == 1 and isinstance(ns[0], ast.Name):
            tbl = ns[0].id
            locfg = cfg_of(lo)
            stores = [n for n in walk_local(lo.node) if isinstance(n, (ast.Assign, ast.AnnAssign)) and any(isinstance(x, ast.Name) and x.id == tbl for t in (n.targets if isinstance(n, ast.Assign) else [n.target]) for x in ast.walk(t))]
            in_loop = {id(x) for l in walk_local(lo.node) if isinstance(l, (ast.For, ast.While, ast.ListComp, ast.GeneratorExp)) for x in ast.walk(l)}
            ok = len(stores) == 1 and norm(stores[0].value) == "{}" and id(stores[0]) not in in_loop and locfg.dominates(locfg.node_of(stores[0]), locfg.node_of(calls[0])) and id(calls[0]) in in_loop
    ctx.check("C19.R4", "all listed files are loaded against one name table created before the loop", ok, lo.where(), "load_schema_ordered: shared table", "dependencies listed earlier would be unknown to the later files")
    # role: L = the list collecting the loaded schemas; the result must be its last element
    what = "the last-listed schema is the result, earlier ones are injected into it"
    why = "the result must be the last schema of the list with its dependencies inlined"
    L = None
    for n in walk_local(lo.node):
        if isinstance(n, ast.Call) and isinstance(n.func, ast.Attribute) and n.func.attr == "append" and isinstance(n.func.value, ast.Name) and len(n.args) == 1:
            srcs = [n.args[0]] + (assigned_values(lo.node, n.args[0].id) if isinstance(n.args[0], ast.Name) else [])
            if any(isinstance(v, ast.Call) and isinstance(v.func, ast.Name) and v.func.id == "load_schema" for v in srcs):
                L = n.func.value.id
        if isinstance(n, ast.Assign) and len(n.targets) == 1 and isinstance(n.targets[0], ast.Name) and isinstance(n.value, ast.ListComp) and isinstance(n.value.elt, ast.Call) and isinstance(n.value.elt.func, ast.Name) and n.value.elt.func.id == "load_schema":
            L = n.targets[0].id
    # the collected list may be reversed on the spot: `T = [load_schema(..) for ..][::-1]`
    Lrev = None
    for n in walk_local(lo.node):
        if isinstance(n, ast.Assign) and len(n.targets) == 1 and isinstance(n.targets[0], ast.Name) and isinstance(n.value, ast.Subscript) and norm(n.value.slice) == "::-1":
            v = n.value.value
            if isinstance(v, ast.ListComp) and isinstance(v.elt, ast.Call) and isinstance(v.elt.func, ast.Name) and v.elt.func.id == "load_schema":
                Lrev = n.targets[0].id
                L = L or Lrev
            elif isinstance(v, ast.Name) and v.id == L:
                Lrev = n.targets[0].id
    rets = [s_ for s_ in summaries(cfg_of(lo)) if s_.kind == "return"]
    if L is None or not rets:
        ctx.unrecognised("C19.R4", "load_schema_ordered", lo.where(), "the list of loaded schemas / the return were not found")
    else:
        last = {f"{L}[::-1].pop(0)", f"list(reversed({L})).pop(0)", f"{L}[-1]", f"{L}.pop()", f"{L}.pop(-1)", f"{L}[::-1][0]", f"{L}[len({L}) - 1]"}
        first = {f"{L}[0]", f"{L}.pop(0)", f"{L}[::-1].pop()", f"{L}[::-1][-1]", f"list(reversed({L})).pop()"}
        if Lrev is not None:
            last |= {f"{Lrev}.pop(0)", f"{Lrev}[0]"}
            first |= {f"{Lrev}.pop()", f"{Lrev}.pop(-1)", f"{Lrev}[-1]"}
            if Lrev == L:
                # L itself is the reversed list: "last loaded" is its first element
                last -= {f"{L}[-1]", f"{L}.pop()", f"{L}.pop(-1)"}
                first -= {f"{L}[0]", f"{L}.pop(0)"}
        texts = {r.text for r in rets}
        inj = [n for n in walk_local(lo.node) if isinstance(n, ast.Call) and isinstance(n.func, ast.Name) and n.func.id == "_inject_schema"]
        retnames = {norm(n.value) for n in walk_local(lo.node) if isinstance(n, ast.Return) and n.value is not None}
        inj_ok = bool(inj) and all(c.args and norm(c.args[0]) in retnames for c in inj)
        if texts <= last and inj_ok:
            ctx.holds("C19.R4", what, lo.where())
        elif texts & first or not inj_ok:
            ctx.violation("C19.R4", what, lo.where(), f"load_schema_ordered: returns {sorted(texts)}; injection into {[norm(c.args[0]) for c in inj if c.args]}", why)
        else:
            ctx.unrecognised("C19.R4", "load_schema_ordered", lo.where(), f"result selection `{sorted(texts)}` is not a known spelling of 'last element of {L}'")

    # ---- R5 the "already injected" state is threaded through sibling positions ---------------------------------
    ctx.rule("C19.R5", "inside every loop over sibling positions (union branches, record fields) the injected flag passed to the recursive call is updated from that call's result before the next sibling", floor=2)
    icfg = cfg_of(inj_f)
    pm = a.parents(inj_f.mod)
    flagpos = 3
    n_loops = 0
    for c in ast.walk(inj_f.node):
        if not (isinstance(c, ast.Call) and isinstance(c.func, ast.Name) and c.func.id == inj_f.name):
            continue
        # innermost enclosing loop construct
        q = pm.get(id(c))
        loop = None
        while q is not None and q is not inj_f.node:
            if isinstance(q, (ast.For, ast.While, ast.ListComp, ast.SetComp, ast.DictComp, ast.GeneratorExp)):
                loop = q
                break
            q = pm.get(id(q))
        if loop is None:
            continue
        n_loops += 1
        flag = c.args[flagpos] if len(c.args) > flagpos else next((k.value for k in c.keywords if k.arg == inj_f.pos_params[flagpos]), None)
        inst = f"_inject_schema: recursive call in a loop at line {getattr(c, 'lineno', 0)} threads the injected flag"
        why = "the loaded type is inlined at every sibling that refers to it instead of only at the first one: the resulting schema defines the type twice and no longer equals the inlined original"
        if not isinstance(loop, (ast.For, ast.While)):
            ctx.violation("C19.R5", inst, inj_f.where(c), f"_inject_schema: {norm(c)[:80]} inside a comprehension (the flag cannot change between elements)", why)
            continue
        if not isinstance(flag, ast.Name):
            ctx.unrecognised("C19.R5", "_inject_schema", inj_f.where(c), f"flag argument `{norm(flag) if flag is not None else None}` is not a local variable")
            continue
        # names bound to the second result of a recursive call inside this loop
        second = set()
        for n in ast.walk(loop):
            if isinstance(n, ast.Assign) and isinstance(n.value, ast.Call) and isinstance(n.value.func, ast.Name) and n.value.func.id == inj_f.name and isinstance(n.targets[0], ast.Tuple) and len(n.targets[0].elts) == 2 and isinstance(n.targets[0].elts[1], ast.Name):
                second.add(n.targets[0].elts[1].id)
        updates = [n for n in ast.walk(loop) if isinstance(n, ast.Assign) and any(isinstance(t, ast.Name) and t.id == flag.id for t in n.targets) and (names_in(n.value) & second or isinstance(n.value, ast.Constant) and n.value.value is True)]
        direct = flag.id in second
        cn = icfg.node_of(c)
        reach = icfg.reachable_from(cn, skip_labels=("exc",))
        ok = direct or any(icfg.node_of(u) in reach for u in updates)
        if ok:
            ctx.holds("C19.R5", inst, inj_f.where(c))
        elif not updates and not direct:
            ctx.violation("C19.R5", inst, inj_f.where(c), f"_inject_schema: `{flag.id}` is never updated from the recursive result inside the loop", why)
        else:
            ctx.unrecognised("C19.R5", "_inject_schema", inj_f.where(c), "flag update not reachable from the call")
    if n_loops < 2:
        ctx.unrecognised("C19.R5", "_inject_schema", inj_f.where(), f"{n_loops} recursive calls inside loops (expected the union and the record-fields loops)")

    c19_funcs = {pw.name, "_parse_schema_with_repo", "load_schema", "_load_schema", "load_schema_ordered"}
    for f in p.all_functions():
        if f.mod is pw.mod and any(isinstance(n, ast.Call) and norm(n.func) in ("repo.load", "self.repo.load") for n in walk_local(f.node)):
            c19_funcs.add(f.name)
    ctx.borrow("C17", {"C17.R1": "C19.R6"}, "types registered in the caller's name table by a failed attempt are what lets a type used from several places resolve on the retry: the loader may add to that table, never clear or roll it back", only=lambda o: o["where"].split(":")[1].split(".")[-1] in c19_funcs if ":" in o["where"] else False)



    ctx.borrow("C11", {"C11.R3": "C19.R7"}, "the loader learns which file to load from the UnknownType raised for the qualified name <namespace>.<name>: a reference that is resolved any other way (or never reported as unknown) is never loaded from the repository")
