"""C11 parse_schema — structural obligations."""
import ast
import re as _re

from sa.loader import AnalysisError, norm, walk_local
from sa.cfg import cfg_of
from sa import guards
from sa.spec import schema_spec as spec
from .common import analysis, names_in, ends_in_raise

PROP = "C11"
TECHNIQUE = "decision-table / pattern extraction of the full-name rule; sibling exhaustiveness of the three named-type arms; CFG dominance of unknown-reference and redefinition raises; regex AST comparison; default-kind table extraction against the spec; data-dependence of the decimal guards"
LEVEL_TEXT = (
    "Static analysis of the schema parser: the full-name function must implement dotted-name > explicit namespace (even the empty "
    "one) > enclosing namespace, and the record arm must pass the namespace it computed to its fields; each named-type arm (enum, "
    "fixed, record/error) must compute the full name, test and raise on redefinition, register the name, and store the full name; "
    "a reference is qualified by exactly `no dot and enclosing namespace` and raises UnknownType when undefined; enum symbols are "
    "checked (type + regex equal to the specification's, uniqueness, default membership) before registration; the default-kind table "
    "is extracted and compared with the specification for every kind and is applied in every arm that can receive a default; the four "
    "decimal guards depend on the stated attributes. These hold for all schemas because they are about the parser's code paths."
)
LEVEL_NOTE = (
    "Not decided: acceptance of every specification-valid schema; correctness of resolution for every nesting (runtime values). "
    "Trusted: spec tables sa/spec/schema_spec.py, re._parser for the regex AST."
)
ASSUMPTIONS = ["re._parser.parse yields the regex AST compared with the specification's name pattern"]


def arms(ps):
    """the if/elif chain on schema_type in _parse_schema (the one starting with the array arm): {type literals: If}"""
    out = {}
    start = None
    for n in walk_local(ps.node):
        if isinstance(n, ast.If) and _type_literals(n.test) == {"array"}:
            start = n
    cur = start
    while cur is not None:
        lits = _type_literals(cur.test)
        if lits:
            out[tuple(sorted(lits))] = cur
        nxt = cur.orelse[0] if len(cur.orelse) == 1 and isinstance(cur.orelse[0], ast.If) else None
        cur = nxt
    return out


def _type_literals(test):
    lits = set()
    parts = test.values if isinstance(test, ast.BoolOp) and isinstance(test.op, ast.Or) else [test]
    for t in parts:
        if isinstance(t, ast.Compare) and isinstance(t.left, ast.Name) and t.left.id == "schema_type" and len(t.ops) == 1 and isinstance(t.ops[0], ast.Eq) and isinstance(t.comparators[0], ast.Constant):
            lits.add(t.comparators[0].value)
        else:
            return set()
    return lits


def run(ctx):
    a = analysis(ctx.program)
    p = a.p
    ps = p.func("_schema_py:_parse_schema")
    sn = p.func("_schema_py:schema_name")

    # ---- R1 naming ----------------------------------------------------------------------------
    ctx.rule("C11.R1", "full name: dotted name wins, else explicit namespace (even empty), else the enclosing namespace; the record arm hands the namespace it computed to its fields", floor=6)
    sp, pp = sn.pos_params[0], sn.pos_params[1]
    ns_assign = [n for n in walk_local(sn.node) if isinstance(n, ast.Assign) and isinstance(n.targets[0], ast.Name) and n.targets[0].id == "namespace"]
    ok = len(ns_assign) == 1 and norm(ns_assign[0].value) == f"{sp}.get('namespace', {pp})"
    ctx.check("C11.R1", "namespace = schema.get('namespace', parent namespace) (an explicit empty namespace is not overridden)", ok, sn.where(ns_assign[0]) if ns_assign else sn.where(), f"schema_name: {[norm(x) for x in ns_assign]}", "an explicit namespace (including the empty string, which means the null namespace) must win over the enclosing one; `or` / truthiness makes '' inherit the parent's namespace")
    # decision table over {dotted, namespace truthy}
    for dotted in (True, False):
        for ns in (True, False):
            atoms = {"'.' in name": dotted, "namespace": ns}
            chain = [s for s in sn.node.body if isinstance(s, (ast.If, ast.Return))]
            out = guards.run_chain(chain, {}, atoms)
            want = "(name.rsplit('.', 1)[0], name)" if dotted else ("(namespace, f'{namespace}.{name}')" if ns else "('', name)")
            got = norm(out[1]) if out[0] == "return" else out[0]
            ctx.check("C11.R1", f"schema_name: dotted={dotted} namespace={ns} -> {want}", got == want, sn.where(), f"schema_name: dotted={dotted} namespace={ns} -> {got}", "the (namespace, full name) pair does not follow the specification's rule")
    A = arms(ps)
    rec = A.get(("error", "record"))
    if rec is None:
        raise AnalysisError("_parse_schema: record/error arm not found")
    ok = any(isinstance(s, ast.Assign) and norm(s) in ("(namespace, fullname) = schema_name(schema, namespace)", "namespace, fullname = schema_name(schema, namespace)") for s in rec.body)
    ctx.check("C11.R1", "record arm: namespace for the fields is the record's own", ok, ps.where(rec), "_parse_schema record arm: namespace rebinding", "fields of a record must resolve relative to the record's namespace, which the arm has to take from schema_name")
    pf = [c for st in rec.body for c in ast.walk(st) if isinstance(c, ast.Call) and isinstance(c.func, ast.Name) and c.func.id == "parse_field"]
    ok = len(pf) == 1 and len(pf[0].args) > 1 and norm(pf[0].args[1]) == "namespace"
    ctx.check("C11.R1", "record arm: fields parsed with that namespace", ok, ps.where(rec), f"_parse_schema: {[norm(c)[:60] for c in pf]}", "fields are parsed under a namespace other than the record's")
    for kinds, key in ((("array",), "items"), (("map",), "values")):
        arm = A.get(kinds)
        calls = [c for st in arm.body for c in ast.walk(st) if isinstance(c, ast.Call) and isinstance(c.func, ast.Name) and c.func.id == "_parse_schema"] if arm else []
        ok = len(calls) == 1 and norm(calls[0].args[0]) == f"schema['{key}']" and norm(calls[0].args[1]) == "namespace"
        ctx.check("C11.R1", f"{kinds[0]} arm: {key} parsed under the current namespace", ok, ps.where(arm) if arm else ps.where(), f"_parse_schema {kinds[0]} arm", "nested types must inherit the enclosing namespace")

    # ---- R2 sibling exhaustiveness of named types --------------------------------------------
    ctx.rule("C11.R2", "enum / fixed / record arms: full name, redefinition raise, names.add, registration in the table, parsed['name'] = fullname; fresh per-parse name set", floor=15)
    for kinds in (("enum",), ("fixed",), ("error", "record")):
        arm = A.get(kinds)
        if arm is None:
            ctx.violation("C11.R2", f"{kinds} arm exists", ps.where(), f"_parse_schema: no arm for {kinds}", "named type kind not handled")
            continue
        body = arm.body
        texts = [norm(s) for s in body]
        idx = {}
        for i, s in enumerate(body):
            t = norm(s)
            if "schema_name(schema, namespace)" in t and isinstance(s, ast.Assign):
                idx.setdefault("name", i)
            if isinstance(s, ast.If) and norm(s.test) == "fullname in names" and ends_in_raise(s.body) and "SchemaParseException" in norm(s.body[-1]):
                idx.setdefault("redef", i)
            if t == "names.add(fullname)":
                idx.setdefault("add", i)
            if t == "named_schemas[fullname] = parsed_schema":
                idx.setdefault("reg", i)
            if t == "parsed_schema['name'] = fullname":
                idx.setdefault("store", i)
        label = "/".join(kinds)
        for step, why in (("name", "full name computed with schema_name(schema, namespace)"), ("redef", "a name defined twice raises SchemaParseException"), ("add", "the name is recorded for the redefinition check"), ("reg", "the definition is registered in the name table"), ("store", "the parsed type carries its full name")):
            ctx.check("C11.R2", f"{label} arm: {why}", step in idx, ps.where(arm), f"_parse_schema {label} arm lacks: {why}", f"sibling arms of the named types must all do this step; the {label} arm does not")
        order_ok = all(k in idx for k in ("name", "redef", "add", "reg")) and idx["name"] < idx["redef"] < idx["add"] and idx["redef"] < idx["reg"]
        ctx.check("C11.R2", f"{label} arm: redefinition is tested before the name is added / registered", order_ok, ps.where(arm), f"_parse_schema {label} arm order {idx}", "testing after registering makes every definition a redefinition or never detects one")

    # ---- R3 undefined reference ---------------------------------------------------------------
    ctx.rule("C11.R3", "reference arm: qualified by exactly `no dot and namespace`; undefined -> UnknownType; unknown dict type -> UnknownType", floor=3)
    qual = [n for n in walk_local(ps.node) if isinstance(n, ast.If) and any(isinstance(s, ast.Assign) and norm(s) == "schema = namespace + '.' + schema" for s in n.body)]
    if len(qual) != 1:
        ctx.unrecognised("C11.R3", "_parse_schema", ps.where(), "qualification `schema = namespace + '.' + schema` not found exactly once")
    else:
        t = qual[0].test
        conj = sorted(norm(v) for v in (t.values if isinstance(t, ast.BoolOp) and isinstance(t.op, ast.And) else [t]))
        ctx.check("C11.R3", "an unqualified reference is qualified with the enclosing namespace, unconditionally on anything else", conj == ["'.' not in schema", "namespace"], ps.where(qual[0]), f"_parse_schema: qualify when {norm(t)}", "a name without dots inside a namespace denotes <namespace>.<name>; any further condition (e.g. 'not already known') lets it bind to a different type")
        cfg = cfg_of(ps)
        unk = [n for n in walk_local(ps.node) if isinstance(n, ast.If) and norm(n.test) == "schema not in named_schemas" and ends_in_raise(n.body) and "UnknownType" in norm(n.body[-1])]
        ok = len(unk) == 1 and cfg.node_of(qual[0].test).id < cfg.node_of(unk[0].test).id and cfg.node_of(unk[0].test) in cfg.reachable_from(cfg.node_of(qual[0].test))
        ctx.check("C11.R3", "after qualification an undefined name raises UnknownType", ok, ps.where(unk[0]) if unk else ps.where(), "_parse_schema: undefined reference check", "references to undefined names must be rejected, after the name was qualified")
    tail = [n for n in walk_local(ps.node) if isinstance(n, ast.Raise) and norm(n.exc) == "UnknownType(schema)"]
    ctx.check("C11.R3", "a dict schema of unknown type raises UnknownType", len(tail) >= 2, ps.where(), f"_parse_schema: {len(tail)} UnknownType raises", "an unknown 'type' must be rejected")

    # ---- R4 enum symbols ------------------------------------------------------------------------
    ctx.rule("C11.R4", "enum arm validates symbols before registration; three raising checks; regex equals the specification's and is applied with fullmatch", floor=5)
    enum = A.get(("enum",))
    calls = [i for i, s in enumerate(enum.body) if isinstance(s, ast.Expr) and isinstance(s.value, ast.Call) and norm(s.value) == "_validate_enum_symbols(schema)"]
    reg = [i for i, s in enumerate(enum.body) if norm(s) == "named_schemas[fullname] = parsed_schema"]
    ctx.check("C11.R4", "enum arm: _validate_enum_symbols(schema) before the definition is registered", bool(calls) and bool(reg) and calls[0] < reg[0], ps.where(enum), "_parse_schema enum arm: symbol validation placement", "an ill-formed enum must be rejected before it becomes visible in the name table")
    ve = p.func("_schema_py:_validate_enum_symbols")
    raises = [n for n in walk_local(ve.node) if isinstance(n, ast.Raise) and "SchemaParseException" in norm(n.exc)]
    cfg = cfg_of(ve)
    gtexts = []
    for r in raises:
        gtexts.append(" && ".join(norm(t.ast) for (t, lab) in cfg.guards_of(cfg.node_of(r)) if t.kind == "test"))
    ok_sym = any("isinstance(symbol, str)" in g and "fullmatch(symbol)" in g for g in gtexts)
    ok_uni = any("len(symbols) != len(set(symbols))" in g for g in gtexts)
    ok_def = any("'default' in schema" in g and "not in symbols" in g for g in gtexts)
    ctx.check("C11.R4", "every symbol must be a string fully matching the name pattern", ok_sym, ve.where(), f"_validate_enum_symbols guards: {gtexts}", "malformed symbols are not rejected (fullmatch on each symbol, strings only)")
    ctx.check("C11.R4", "duplicate symbols are rejected", ok_uni, ve.where(), f"_validate_enum_symbols guards: {gtexts}", "duplicate symbols are not rejected")
    ctx.check("C11.R4", "an enum default outside the symbol list is rejected", ok_def, ve.where(), f"_validate_enum_symbols guards: {gtexts}", "a default that is not a symbol is not rejected")
    rx = p.try_fold(ps.mod, ast.parse("SYMBOL_REGEX", mode="eval").body)
    pat = None
    r = p.resolve(ps.mod, "SYMBOL_REGEX")
    if r and r[0] == "value" and isinstance(r[2], ast.Call) and r[2].args and isinstance(r[2].args[0], ast.Constant):
        pat = r[2].args[0].value
    same = False
    if pat is not None:
        try:
            import re._parser as rp

            same = repr(rp.parse(pat)) == repr(rp.parse(spec.NAME_REGEX))
        except Exception:
            same = pat == spec.NAME_REGEX
    ctx.check("C11.R4", "symbol regex equals the specification's [A-Za-z_][A-Za-z0-9_]*", same, ps.mod.relpath + ":SYMBOL_REGEX", f"SYMBOL_REGEX = {pat!r}", "the pattern accepts or rejects other strings than the specification's name pattern")

    # ---- R5 default kinds -----------------------------------------------------------------------
    ctx.rule("C11.R5", "default-kind table equals the specification's for every kind; every arm that can receive a default checks it (unions and references through the one table)", floor=14)
    dm = p.func("_schema_py:_default_matches_schema")
    table = extract_default_table(dm)
    for kind, want in sorted(spec.DEFAULT_KINDS.items()):
        got = table.get(kind)
        ctx.check("C11.R5", f"default of {kind} must be {want}", got == want, dm.where(), f"_default_matches_schema: {kind} -> {got}", f"a default for type {kind} is accepted/rejected by `{got}` but the specification requires a JSON value of kind {want}")
    # union: any branch; by-name: through the table
    ok = any(isinstance(n, ast.Return) and "any(" in norm(n) and "for s in schema" in norm(n) for n in walk_local(dm.node))
    ctx.check("C11.R5", "a union default matches when any branch matches", ok, dm.where(), "_default_matches_schema: list arm", "union defaults must be checked against every branch")
    ok = any(isinstance(n, ast.Assign) and norm(n) == "schema = named_schemas[schema]['type']" for n in walk_local(dm.node))
    ctx.check("C11.R5", "a reference is checked as the kind of its definition", ok, dm.where(), "_default_matches_schema: by-name arm", "defaults of fields whose type is a reference must be checked against the referenced definition's kind")
    uses = [c for c in walk_local(ps.node) if isinstance(c, ast.Call) and isinstance(c.func, ast.Name) and c.func.id == "_default_matches_schema"]
    ctx.check("C11.R5", "the table is applied in the union arm, the reference arm and the primitive-dict arm", len(uses) >= 3, ps.where(), f"_parse_schema: {len(uses)} uses of _default_matches_schema", "an arm that can receive a default does not check it")
    for kinds, typ in ((("array",), "list"), (("map",), "dict"), (("enum",), "str"), (("fixed",), "str"), (("error", "record"), "dict")):
        arm = A.get(kinds)
        ok = arm is not None and any(isinstance(n, ast.If) and norm(n.test) == f"default is not NO_DEFAULT and (not isinstance(default, {typ}))" and any("_raise_default_value_error" in norm(s) for s in n.body) for st in arm.body for n in ast.walk(st))
        ctx.check("C11.R5", f"{'/'.join(kinds)} arm checks its default is a {typ}", ok, ps.where(arm) if arm else ps.where(), f"_parse_schema {'/'.join(kinds)} arm: default check", f"a default of the wrong JSON kind for {'/'.join(kinds)} is accepted")
    rd = p.func("_schema_py:_raise_default_value_error")
    ok = any(isinstance(n, ast.Raise) and "SchemaParseException" in norm(n.exc) for n in walk_local(rd.node))
    ctx.check("C11.R5", "_raise_default_value_error raises SchemaParseException unless told to ignore", ok, rd.where(), "_raise_default_value_error", "a bad default does not raise")

    # ---- R6 decimal guards -----------------------------------------------------------------------
    ctx.rule("C11.R6", "four decimal raise sites whose guards depend on {scale}, {precision}, {precision, size}, {scale, precision}", floor=4)
    cfg = cfg_of(ps)
    sites = []
    for n in walk_local(ps.node):
        if isinstance(n, ast.Raise) and "SchemaParseException" in norm(n.exc) and "decimal" in norm(n.exc):
            deps = set()
            for (t, lab) in cfg.guards_of(cfg.node_of(n)):
                if t.kind == "test" and lab == "true":
                    deps |= names_in(t.ast) & {"scale", "precision", "max_precision", "size", "logical_type", "schema_type"}
            sites.append((n, deps))
    want = [{"scale"}, {"precision"}, {"precision", "max_precision"}, {"scale", "precision"}]
    got = [d - {"logical_type", "schema_type"} for (_, d) in sites]
    for w in want:
        ctx.check("C11.R6", f"a decimal raise guarded by {sorted(w)}", w in got, ps.where(), f"_parse_schema decimal guards: {[sorted(g) for g in got]}", f"no rejection depends on exactly {sorted(w)}")
    mp = [n for n in walk_local(ps.node) if isinstance(n, ast.Assign) and norm(n.targets[0]) == "max_precision"]
    ok = len(mp) == 1 and norm(mp[0].value) == "int(math.floor(math.log10(2) * (8 * size - 1)))"
    ctx.check("C11.R6", "max precision of a fixed decimal is floor(log10(2) * (8*size - 1))", ok, ps.where(mp[0]) if mp else ps.where(), f"_parse_schema: {[norm(x) for x in mp]}", "the precision a fixed size can hold is computed differently from the specification")


def extract_default_table(dm):
    """kind -> 'type|type' from the disjunction `(schema == K and not isinstance(default, T)) or ...`"""
    table = {}
    for n in ast.walk(dm.node):
        if isinstance(n, ast.BoolOp) and isinstance(n.op, ast.And) and len(n.values) == 2:
            a, b = n.values
            if isinstance(a, ast.Compare) and norm(a.left) == "schema" and isinstance(a.ops[0], ast.Eq) and isinstance(a.comparators[0], ast.Constant):
                kind = a.comparators[0].value
                t = norm(b)
                if t == "default is not None":
                    table[kind] = "NoneType"
                elif t.startswith("not isinstance(default, "):
                    table[kind] = t[len("not isinstance(default, ") : -1]
                elif t.startswith("not isinstance(_maybe_float(default), float)"):
                    table[kind] = "float|int"
                else:
                    table[kind] = "?" + t
    return table
