"""C11 parse_schema — structural obligations (role-based: no dependence on local names)."""
import ast

from sa.loader import AnalysisError, norm, walk_local
from sa.cfg import cfg_of
from sa import guards
from sa.spec import schema_spec as spec
from .common import analysis, names_in, literals_tested, true_facts, value_sources, resolve_local

PROP = "C11"
TECHNIQUE = "decision-table extraction of the full-name rule; provenance of the record namespace by reaching definitions; sibling exhaustiveness of the named-type arms by role with CFG ordering; dominance of unknown-reference raises; regex AST comparison; finite-domain evaluation of the default-kind function on one representative per JSON kind against the spec table; data-dependence of the decimal guards"
LEVEL_TEXT = (
    "Static analysis of the schema parser: the full-name function must implement dotted-name > explicit namespace (even the empty "
    "one) > enclosing namespace, and the record arm must pass the namespace it computed to its fields; each named-type arm (enum, "
    "fixed, record/error) must compute the full name, test and raise on redefinition, register the name, and store the full name; "
    "a reference is qualified by exactly `no dot and enclosing namespace` and raises UnknownType when undefined; enum symbols are "
    "checked (type + regex equal to the specification's, uniqueness, default membership) before registration; the default-kind table "
    "is extracted and compared with the specification for every kind and is applied in every arm that can receive a default; the four "
    "decimal guards depend on the stated attributes. These hold for all schemas because they are about the parser's code paths."
)
LEVEL_NOTE = (
    "Not decided: acceptance of every specification-valid schema; correctness of resolution for every nesting (runtime values). "
    "Trusted: spec tables sa/spec/schema_spec.py, re._parser for the regex AST."
)
ASSUMPTIONS = ["re._parser.parse yields the regex AST compared with the specification's name pattern"]


_NO_DEFAULT_REP = object()  # stands for the NO_DEFAULT sentinel in evaluated environments


class Roles:
    """variables of _parse_schema found by role, not by name"""

    def __init__(self, ps):
        pp = ps.pos_params
        if len(pp) < 8:
            raise AnalysisError("_parse_schema no longer has its 8 positional parameters")
        self.schema, self.namespace, self.expand, self.hint, self.names, self.named, self.default, self.ignore = pp[:8]
        # the variable the kind dispatch tests: compared with the literal "array"
        self.tvar = None
        self.chain = None
        for n in walk_local(ps.node):
            if isinstance(n, ast.If) and isinstance(n.test, ast.Compare) and isinstance(n.test.left, ast.Name):
                if literals_tested(n.test, n.test.left.id) == {"array"}:
                    self.tvar, self.chain = n.test.left.id, n
        if self.tvar is None:
            raise AnalysisError("_parse_schema: kind dispatch (an `if <kind> == 'array'` chain) not found")
        self.arms = {}
        cur = self.chain
        while cur is not None:
            lits = literals_tested(cur.test, self.tvar)
            if lits:
                for l in lits:
                    self.arms.setdefault(l, cur)
            cur = cur.orelse[0] if len(cur.orelse) == 1 and isinstance(cur.orelse[0], ast.If) else None
        # the dict being built: assigned from a comprehension / copy of <schema>.items()
        self.parsed = None
        for n in walk_local(ps.node):
            if isinstance(n, ast.Assign) and isinstance(n.targets[0], ast.Name) and isinstance(n.value, (ast.DictComp, ast.Call)) and f"{self.schema}.items()" in norm(n.value):
                self.parsed = n.targets[0].id
        if self.parsed is None:
            raise AnalysisError("_parse_schema: the dictionary being built (copy of schema.items()) not found")


def names_in_text(t):
    return {n.id for n in ast.walk(ast.parse(t, mode="eval")) if isinstance(n, ast.Name)}


def arm_nodes(arm):
    return [n for st in arm.body for n in ast.walk(st)]


def run(ctx):
    a = analysis(ctx.program)
    p = a.p
    ps = p.func("_schema_py:_parse_schema")
    sn = p.func("_schema_py:schema_name")
    R = Roles(ps)
    cfg = cfg_of(ps)

    # ---- R1 naming ----------------------------------------------------------------------------
    ctx.rule("C11.R1", "full name: dotted name wins, else explicit namespace (even empty), else the enclosing namespace; the record arm hands the namespace it computed to its fields", floor=6)
    sp, pp = sn.pos_params[0], sn.pos_params[1]
    ns_assign = [n for n in walk_local(sn.node) if isinstance(n, ast.Assign) and isinstance(n.targets[0], ast.Name) and "'namespace'" in norm(n.value)]
    name_assign = [n for n in walk_local(sn.node) if isinstance(n, ast.Assign) and isinstance(n.targets[0], ast.Name) and norm(n.value) == f"{sp}['name']"]
    if len(ns_assign) != 1 or len(name_assign) != 1:
        ctx.unrecognised("C11.R1", "schema_name", sn.where(), "expected one namespace assignment and one name assignment")
    else:
        nsv, nmv = ns_assign[0].targets[0].id, name_assign[0].targets[0].id
        val = norm(ns_assign[0].value)
        what = "namespace = schema.get('namespace', parent namespace) (an explicit empty namespace is not overridden)"
        if val == f"{sp}.get('namespace', {pp})":
            ctx.holds("C11.R1", what, sn.where(ns_assign[0]))
        elif " or " in val or val == f"{sp}.get('namespace')":
            ctx.violation("C11.R1", what, sn.where(ns_assign[0]), f"schema_name: {norm(ns_assign[0])}", "an explicit namespace (including the empty string, which means the null namespace) must win over the enclosing one; `or` / truthiness makes '' inherit the parent's namespace")
        else:
            ctx.unrecognised("C11.R1", "schema_name", sn.where(ns_assign[0]), f"namespace computed as `{val}`")
        for dotted in (True, False):
            for ns in (True, False):
                atoms = {f"'.' in {nmv}": dotted, nsv: ns}
                chain = [s for s in sn.node.body if isinstance(s, (ast.If, ast.Return))]
                out = guards.run_chain(chain, {}, atoms, effects=[])
                want = f"({nmv}.rsplit('.', 1)[0], {nmv})" if dotted else (f"({nsv}, f'{{{nsv}}}.{{{nmv}}}')" if ns else f"('', {nmv})")
                got = norm(out[1]) if out[0] == "return" else out[0]
                if out[0] == "return" and isinstance(out[1], ast.Tuple) and len(out[1].elts) == 2 and isinstance(out[1].elts[0], ast.Name):
                    # `ns, _ = name.rsplit('.', 1)` + `return (ns, name)`: element 0 of the split, by reaching definitions
                    srcs = value_sources(a, sn, out[1].elts[0])
                    if srcs and all(k == "unpack" and v[1] == 0 for k, v in srcs):
                        got = f"({norm(srcs[0][1][0])}[0], {norm(out[1].elts[1])})"
                if out[0] != "return":
                    ctx.unrecognised("C11.R1", f"schema_name: dotted={dotted} namespace={ns}", sn.where(), f"decision chain not evaluable ({got})")
                else:
                    ctx.check("C11.R1", f"schema_name: dotted={dotted} namespace={ns} -> {want}", got == want, sn.where(), f"schema_name: dotted={dotted} namespace={ns} -> {got}", "the (namespace, full name) pair does not follow the specification's rule")
    rec = R.arms.get("record")
    if rec is None:
        raise AnalysisError("_parse_schema: record arm not found")
    rn = arm_nodes(rec)
    pf = [c for c in rn if isinstance(c, ast.Call) and isinstance(c.func, ast.Name) and c.func.id == "parse_field"]
    if len(pf) != 1 or len(pf[0].args) < 2:
        ctx.unrecognised("C11.R1", "record arm", ps.where(rec), f"{len(pf)} parse_field calls")
    else:
        # the namespace handed to the fields must be the first result of schema_name(schema, <enclosing namespace>)
        nsarg = pf[0].args[1]
        srcs = value_sources(a, ps, nsarg) if isinstance(nsarg, ast.Name) else [("expr", nsarg)]
        good = bool(srcs)
        for kind, what in srcs:
            if kind == "unpack" and isinstance(what[0], ast.Call) and norm(what[0].func) == sn.name and what[1] == 0 and len(what[0].args) >= 2 and norm(what[0].args[0]) == R.schema and isinstance(what[0].args[1], ast.Name) and all(k == "param" and n_.arg == R.namespace for k, n_ in value_sources(a, ps, what[0].args[1])):
                continue
            good = False
        ctx.check("C11.R1", "record arm: the namespace for the fields is the record's own (from schema_name)", good, ps.where(pf[0]), f"_parse_schema record arm: fields parsed under `{norm(nsarg)}` <- {[(k, norm(w[0]) if k == 'unpack' else (norm(w) if k == 'expr' else getattr(w, 'arg', getattr(w, 'id', '?')))) for k, w in srcs]}", "fields of a record must resolve relative to the record's namespace, which the arm has to take from schema_name(schema, enclosing namespace)")
        ctx.holds("C11.R1", "record arm: fields parsed with that namespace", ps.where(pf[0]))
    pfn = p.maybe_func("_schema_py:parse_field")
    if pfn is None:
        ctx.unrecognised("C11.R1", "parse_field", ps.where(), "parse_field not found")
    else:
        fparam, nsparam = pfn.pos_params[0], pfn.pos_params[1]
        tstores = [n for n in walk_local(pfn.node) if isinstance(n, ast.Assign) and any(isinstance(t, ast.Subscript) and isinstance(t.slice, ast.Constant) and t.slice.value == "type" for t in n.targets)]
        tdisplay = [n for n in ast.walk(pfn.node) if isinstance(n, ast.Dict) and any(isinstance(k, ast.Constant) and k.value == "type" for k in n.keys if k is not None)]
        if not tstores and not tdisplay:
            ctx.unrecognised("C11.R1", "parse_field", pfn.where(), "no store of the parsed field's type found")
        for n in tstores:
            v = resolve_local(pfn.node, n.value)
            ok = isinstance(v, ast.Call) and isinstance(v.func, ast.Name) and v.func.id == ps.name and len(v.args) >= 2 and norm(resolve_local(pfn.node, v.args[0])) == f"{fparam}['type']" and norm(v.args[1]) == nsparam
            ctx.check("C11.R1", "parse_field: the field's type is always what _parse_schema returns for it under the record's namespace", ok, pfn.where(n), f"parse_field: {norm(n)[:90]}", "a field type that does not go through the parser (e.g. an embedded, separately parsed schema reused as is) keeps names that were never qualified with the enclosing namespace")
    for kind, key in (("array", "items"), ("map", "values")):
        arm = R.arms.get(kind)
        calls = [c for c in arm_nodes(arm) if isinstance(c, ast.Call) and isinstance(c.func, ast.Name) and c.func.id == ps.name and c.args and norm(c.args[0]) == f"{R.schema}['{key}']"] if arm else []
        if len(calls) != 1:
            ctx.unrecognised("C11.R1", f"{kind} arm", ps.where(arm) if arm else ps.where(), f"{len(calls)} recursive calls on schema['{key}']")
            continue
        ctx.check("C11.R1", f"{kind} arm: {key} parsed under the current namespace", len(calls[0].args) > 1 and norm(calls[0].args[1]) == R.namespace, ps.where(calls[0]), f"_parse_schema {kind} arm: {norm(calls[0])[:70]}", "nested types must inherit the enclosing namespace")

    # ---- R2 sibling exhaustiveness of named types --------------------------------------------
    ctx.rule("C11.R2", "enum / fixed / record arms: full name, redefinition raise, names.add, registration in the table, parsed['name'] = fullname; fresh per-parse name set", floor=12)
    for kind in ("enum", "fixed", "record"):
        arm = R.arms.get(kind)
        if arm is None:
            ctx.violation("C11.R2", f"{kind} arm exists", ps.where(), f"_parse_schema: no arm for {kind}", "named type kind not handled")
            continue
        nodes = arm_nodes(arm)
        named_here = [n for n in nodes if isinstance(n, ast.Assign) and isinstance(n.targets[0], ast.Tuple) and len(n.targets[0].elts) == 2 and isinstance(n.value, ast.Call) and norm(n.value.func) == sn.name]
        if not named_here:
            ctx.violation("C11.R2", f"{kind} arm: full name computed with schema_name(schema, namespace)", ps.where(arm), f"_parse_schema {kind} arm: no schema_name call", "the named type's full name is not computed by the naming rule")
            continue
        if len(named_here) > 1:
            ctx.unrecognised("C11.R2", f"{kind} arm", ps.where(arm), "several schema_name calls")
            continue
        F = norm(named_here[0].targets[0].elts[1])
        ctx.check("C11.R2", f"{kind} arm: full name computed with schema_name(schema, namespace)", [norm(x) for x in named_here[0].value.args] == [R.schema, R.namespace], ps.where(named_here[0]), f"_parse_schema {kind} arm: {norm(named_here[0])}", "the full name must be computed from this schema and the enclosing namespace")
        raises = [n for n in nodes if isinstance(n, ast.Raise) and n.exc is not None and "SchemaParseException" in norm(n.exc)]
        redef = [r for r in raises if f"{F} in {R.names}" in true_facts(cfg, cfg.node_of(r))]
        adds = [n for n in nodes if isinstance(n, ast.Call) and norm(n) == f"{R.names}.add({F})"]
        regs = [n for n in nodes if isinstance(n, ast.Assign) and norm(n.targets[0]) == f"{R.named}[{F}]"]
        stores = [n for n in nodes if isinstance(n, ast.Assign) and norm(n) == f"{R.parsed}['name'] = {F}"]
        # ... and under its full name only: an entry under another key (an alias, the simple name) answers references the
        # naming rules do not let resolve to this type, and can replace the entry of another type
        others = [n for n in nodes if isinstance(n, ast.Assign) and any(isinstance(t, ast.Subscript) and norm(t.value) == R.named and norm(t) != f"{R.named}[{F}]" for t in n.targets)]
        others += [n for n in nodes if isinstance(n, ast.Call) and isinstance(n.func, ast.Attribute) and norm(n.func.value) == R.named and n.func.attr in ("update", "setdefault", "__setitem__")]
        ctx.check("C11.R2", f"{kind} arm: the definition is registered under its full name only", not others, ps.where(others[0]) if others else ps.where(arm), f"_parse_schema {kind} arm: {norm(others[0])[:80]}" if others else "", "the name table gets an entry under a key that is not the type's full name")
        for lst, why in ((redef, "a name defined twice raises SchemaParseException"), (adds, "the name is recorded for the redefinition check"), (regs, "the definition is registered in the name table"), (stores, "the parsed type carries its full name")):
            ctx.check("C11.R2", f"{kind} arm: {why}", bool(lst), ps.where(arm), f"_parse_schema {kind} arm lacks: {why}", f"sibling arms of the named types must all do this step; the {kind} arm does not")
        if redef and adds and regs:
            tests = [t for (t, lab) in cfg.guards_of(cfg.node_of(redef[0])) if t.kind == "test" and f"{F} in {R.names}" in norm(t.ast)]
            ok = bool(tests) and all(cfg.dominates(tests[0], cfg.node_of(x)) for x in adds + regs)
            ctx.check("C11.R2", f"{kind} arm: redefinition is tested before the name is added / registered", ok, ps.where(arm), f"_parse_schema {kind} arm: order of test / add / registration", "testing after registering makes every definition a redefinition or never detects one")

    # ---- R3 undefined reference ---------------------------------------------------------------
    ctx.rule("C11.R3", "reference arm: qualified by exactly `no dot and namespace`; undefined -> UnknownType; unknown dict type -> UnknownType", floor=3)
    def _is_qualification(n):
        """<v> = <namespace> + '.' + <x> (or the f-string) with x the reference (the schema parameter or a copy of it)"""
        if not (isinstance(n, ast.Assign) and len(n.targets) == 1 and isinstance(n.targets[0], ast.Name)):
            return False
        v = n.value
        x = None
        if isinstance(v, ast.BinOp) and isinstance(v.op, ast.Add) and norm(v.left) == f"{R.namespace} + '.'" and isinstance(v.right, ast.Name):
            x = v.right
        elif isinstance(v, ast.JoinedStr) and len(v.values) == 3 and isinstance(v.values[0], ast.FormattedValue) and norm(v.values[0].value) == R.namespace and isinstance(v.values[1], ast.Constant) and v.values[1].value == "." and isinstance(v.values[2], ast.FormattedValue) and isinstance(v.values[2].value, ast.Name):
            x = v.values[2].value
        if x is None:
            return False
        return x.id == R.schema or any(k == "param" and a_.arg == R.schema for k, a_ in value_sources(a, ps, x))

    qual = [n for n in walk_local(ps.node) if _is_qualification(n)]
    if len(qual) == 1:
        # nothing the reference is (re)bound to afterwards depends on the name table either
        chain = {qual[0].targets[0].id}
        for _ in range(3):
            for n in walk_local(ps.node):
                if isinstance(n, ast.Assign) and len(n.targets) == 1 and isinstance(n.targets[0], ast.Name) and isinstance(n.value, ast.Name) and n.value.id in chain:
                    chain.add(n.targets[0].id)
        late = []
        for n in walk_local(ps.node):
            if isinstance(n, ast.Assign) and len(n.targets) == 1 and isinstance(n.targets[0], ast.Name) and n.targets[0].id in chain and n is not qual[0] and isinstance(n.value, ast.Name):
                dep = sorted(x for x in true_facts(cfg, cfg.node_of(n)) if names_in_text(x) & {R.named, R.names})
                if dep:
                    late.append((n, dep))
        ctx.check("C11.R3", "the name a reference denotes is never chosen by looking at what is already defined", not late, ps.where(late[0][0]) if late else ps.where(qual[0]), f"_parse_schema: `{norm(late[0][0])}` under {late[0][1]}" if late else "", "falling back to another spelling of the name when the qualified one is unknown binds the reference to a different type, and hides the UnknownType that tells the schema loader which file to load")
    if len(qual) != 1:
        ctx.unrecognised("C11.R3", "_parse_schema", ps.where(), "qualification `schema = namespace + '.' + schema` not found exactly once")
    else:
        qn = cfg.node_of(qual[0])
        imm = [(t, lab) for (t, lab) in cfg.guards_of(qn) if t.kind == "test" and any(m is qn for (m, l) in t.succ)]
        if len(imm) != 1:
            ctx.unrecognised("C11.R3", "_parse_schema", ps.where(qual[0]), "guard of the qualification not found")
        else:
            t = imm[0][0].ast
            conj = sorted(norm(v) for v in (t.values if isinstance(t, ast.BoolOp) and isinstance(t.op, ast.And) else [t]))
            qv = norm(qual[0].value.right) if isinstance(qual[0].value, ast.BinOp) else R.schema
            ctx.check("C11.R3", "an unqualified reference is qualified with the enclosing namespace, unconditionally on anything else", conj == sorted([f"'.' not in {qv}", R.namespace]) and imm[0][1] == "true", ps.where(qual[0]), f"_parse_schema: qualify when {norm(t)}", "a name without dots inside a namespace denotes <namespace>.<name>; any further condition (e.g. 'not already known') lets it bind to a different type")
        dom = true_facts(cfg, qn)
        tbl_dep = sorted(x for x in dom if names_in_text(x) & {R.named, R.names})
        ctx.check("C11.R3", "whether a reference is qualified does not depend on what is already defined", not tbl_dep, ps.where(qual[0]), f"_parse_schema: qualification under {tbl_dep}", "a simple name inside a namespace always denotes <namespace>.<name>: looking the bare name up first binds it to a type of the null namespace (or accepts a reference to an undefined <namespace>.<name>)")
        unk = [n for n in walk_local(ps.node) if isinstance(n, ast.Raise) and n.exc is not None and any(norm(n.exc) == f"UnknownType({v_})" and f"{v_} not in {R.named}" in true_facts(cfg, cfg.node_of(n)) for v_ in chain | {R.schema})]
        ok = len(unk) == 1 and cfg.node_of(unk[0]) in cfg.reachable_from(qn)
        ctx.check("C11.R3", "after qualification an undefined name raises UnknownType", ok, ps.where(unk[0]) if unk else ps.where(), "_parse_schema: undefined reference check", "references to undefined names must be rejected, after the name was qualified")
    tail = [n for n in walk_local(ps.node) if isinstance(n, ast.Raise) and n.exc is not None and norm(n.exc) == f"UnknownType({R.schema})"]
    ctx.check("C11.R3", "a dict schema of unknown type raises UnknownType", len(tail) >= 2, ps.where(), f"_parse_schema: {len(tail)} UnknownType raises", "an unknown 'type' must be rejected")

    # ---- R4 enum symbols ------------------------------------------------------------------------
    ctx.rule("C11.R4", "enum arm validates symbols before registration; three raising checks; regex equals the specification's and is applied with fullmatch", floor=5)
    enum = R.arms.get("enum")
    en = arm_nodes(enum) if enum else []
    ve = vcall = None
    for c in en:
        if isinstance(c, ast.Call) and isinstance(c.func, ast.Name) and [norm(x) for x in c.args] == [R.schema]:
            g = p.resolve_func(ps.mod, c.func)
            if g is not None and "symbols" in ast.unparse(g.node) and any(isinstance(n, ast.Raise) for n in walk_local(g.node)):
                ve, vcall = g, c
    inline_raises = []
    if ve is None:
        # the checks may stand in the arm itself (the helper folded into the parser)
        for n in en:
            if isinstance(n, ast.Raise) and n.exc is not None and "SchemaParseException" in norm(n.exc):
                fs = true_facts(cfg, cfg.node_of(n))
                if any("symbols" in g or "fullmatch(" in g or "'default' in" in g for g in fs):
                    inline_raises.append((n, fs))
    if ve is None and inline_raises:
        regs = [n for n in en if isinstance(n, ast.Assign) and norm(n.targets[0]).startswith(f"{R.named}[")]
        ok = bool(regs) and not any(cfg.node_of(r_) in cfg.reachable_from(cfg.node_of(reg)) for (r_, _) in inline_raises for reg in regs)
        ctx.check("C11.R4", "enum arm: symbols are validated before the definition is registered", ok, ps.where(inline_raises[0][0]), "_parse_schema enum arm: symbol validation placement", "an ill-formed enum must be rejected before it becomes visible in the name table")
        facts = [" && ".join(sorted(fs)) for (_, fs) in inline_raises]
        ok_sym = any("not isinstance(" in g and "str)" in g and "fullmatch(" in g for g in facts)
        ok_uni = any("len(" in g and "set(" in g and "!=" in g for g in facts)
        ok_def = any("'default' in" in g and "not in" in g for g in facts)
        ctx.check("C11.R4", "every symbol must be a string fully matching the name pattern", ok_sym, ps.where(enum), f"enum arm guards: {facts}", "malformed symbols are not rejected (fullmatch on each symbol, strings only)")
        ctx.check("C11.R4", "duplicate symbols are rejected", ok_uni, ps.where(enum), f"enum arm guards: {facts}", "duplicate symbols are not rejected")
        ctx.check("C11.R4", "an enum default outside the symbol list is rejected (whenever a default is present)", ok_def, ps.where(enum), f"enum arm guards: {facts}", "a default that is not a symbol is not rejected (the test must be on the presence of the key, not on the default's truthiness)")
    elif ve is None:
        ctx.violation("C11.R4", "enum arm calls the symbol checker", ps.where(enum) if enum else ps.where(), "_parse_schema enum arm: no symbol validation call", "enum symbols are not validated")
    else:
        regs = [n for n in en if isinstance(n, ast.Assign) and norm(n.targets[0]).startswith(f"{R.named}[")]
        ok = bool(regs) and all(cfg.dominates(cfg.node_of(vcall), cfg.node_of(r)) for r in regs)
        ctx.check("C11.R4", "enum arm: symbols are validated before the definition is registered", ok, ps.where(vcall), "_parse_schema enum arm: symbol validation placement", "an ill-formed enum must be rejected before it becomes visible in the name table")
        vcfg = cfg_of(ve)
        raises = [n for n in walk_local(ve.node) if isinstance(n, ast.Raise) and n.exc is not None and "SchemaParseException" in norm(n.exc)]
        facts = [" && ".join(sorted(true_facts(vcfg, vcfg.node_of(r)))) for r in raises]
        ok_sym = any("not isinstance(" in g and "str)" in g and "fullmatch(" in g for g in facts)
        ok_uni = any("len(" in g and "set(" in g and "!=" in g for g in facts)
        ok_def = any("'default' in" in g and "not in" in g for g in facts)
        ctx.check("C11.R4", "every symbol must be a string fully matching the name pattern", ok_sym, ve.where(), f"{ve.name} guards: {facts}", "malformed symbols are not rejected (fullmatch on each symbol, strings only)")
        ctx.check("C11.R4", "duplicate symbols are rejected", ok_uni, ve.where(), f"{ve.name} guards: {facts}", "duplicate symbols are not rejected")
        ctx.check("C11.R4", "an enum default outside the symbol list is rejected (whenever a default is present)", ok_def, ve.where(), f"{ve.name} guards: {facts}", "a default that is not a symbol is not rejected (the test must be on the presence of the key, not on the default's truthiness)")
    pat = None
    r = p.resolve(ps.mod, "SYMBOL_REGEX")
    if r and r[0] == "value" and isinstance(r[2], ast.Call) and r[2].args and isinstance(r[2].args[0], ast.Constant):
        pat = r[2].args[0].value
    same = False
    if pat is not None:
        try:
            import re._parser as rp

            same = repr(rp.parse(pat)) == repr(rp.parse(spec.NAME_REGEX))
        except Exception:
            same = pat == spec.NAME_REGEX
    ctx.check("C11.R4", "symbol regex equals the specification's [A-Za-z_][A-Za-z0-9_]*", same, ps.mod.relpath + ":SYMBOL_REGEX", f"SYMBOL_REGEX = {pat!r}", "the pattern accepts or rejects other strings than the specification's name pattern")

    # ---- R5 default kinds -----------------------------------------------------------------------
    ctx.rule("C11.R5", "default-kind table equals the specification's for every kind; every arm that can receive a default checks it (unions and references through the one table)", floor=14)
    dm = p.func("_schema_py:_default_matches_schema")
    mods = [ps.mod] + [m for m in p.modules.values() if m is not ps.mod]
    guards.HOOK["call"] = guards.program_call_evaluator(p, mods)
    guards.HOOK["value"] = guards.program_call_evaluator(p, mods, want_value=True)
    try:
        table = default_table(dm)
    finally:
        guards.HOOK["call"] = guards.HOOK["value"] = None
    for kind, want in sorted(spec.DEFAULT_KINDS.items()):
        wanted = {name for name, rep in REPS if isinstance(rep, tuple({"NoneType": type(None), "bool": bool, "int": int, "float": float, "str": str, "list": list, "dict": dict}[t] for t in want.split("|")))}
        got = table.get(kind)
        if got is None or None in got.values():
            ctx.unrecognised("C11.R5", f"default of {kind}", dm.where(), f"acceptance not evaluable: {got}")
        else:
            acc = {name for name, ok in got.items() if ok}
            ctx.check("C11.R5", f"default of {kind} must be {want}", acc == wanted, dm.where(), f"_default_matches_schema: {kind} accepts {sorted(acc)}", f"a default for type {kind} is accepted for JSON values of kind {sorted(acc)} but the specification requires {want} ({sorted(wanted)})")
    dsp = dm.pos_params[1]
    dnp = dm.pos_params[2] if len(dm.pos_params) > 2 else None
    rec_calls = [n for n in ast.walk(dm.node) if isinstance(n, ast.Call) and isinstance(n.func, ast.Name) and n.func.id == dm.name]
    ok = any(isinstance(n, ast.Call) and isinstance(n.func, ast.Name) and n.func.id == "any" for n in ast.walk(dm.node)) and any(dnp in [norm(x) for x in c.args] for c in rec_calls)
    ctx.check("C11.R5", "a union default matches when any branch matches (branches checked with the name table)", ok, dm.where(), "_default_matches_schema: list arm", "union defaults must be checked against every branch, references included")
    ok = dnp is not None and any(isinstance(n, ast.Assign) and norm(n.value) == f"{dnp}[{dsp}]['type']" for n in walk_local(dm.node))
    ctx.check("C11.R5", "a reference is checked as the kind of its definition", ok, dm.where(), "_default_matches_schema: by-name arm", "defaults of fields whose type is a reference must be checked against the referenced definition's kind")
    # the table itself, or the part of it that the table function delegates to (a kind-only predicate)
    parts = {dm.id}
    for c in ast.walk(dm.node):
        if isinstance(c, ast.Call) and isinstance(c.func, ast.Name):
            g = p.resolve_func(dm.mod, c.func)
            if g is not None and g.cls is None:
                parts.add(g.id)
    uses = [c for c in ast.walk(ps.node) if isinstance(c, ast.Call) and isinstance(c.func, ast.Name) and getattr(p.resolve_func(ps.mod, c.func), "id", None) in parts]
    with_table = [c for c in uses if c.func.id == dm.name and len(c.args) >= 3 and norm(c.args[2]) == R.named]
    rd = p.maybe_func("_schema_py:_raise_default_value_error")
    guards.HOOK["call"] = guards.program_call_evaluator(p, mods)
    guards.HOOK["value"] = guards.program_call_evaluator(p, mods, want_value=True)
    try:
        # sites (outside the kind arms for named and container kinds) whose guard, evaluated on one representative
        # per JSON kind for each primitive type, raises the default error exactly where the specification rejects
        prim_sites = 0
        prim_undecided = 0
        named_arm_nodes = {id(n) for k in ("array", "map", "enum", "fixed", "record", "error") if R.arms.get(k) is not None for n in arm_nodes(R.arms[k])}
        for n in walk_local(ps.node):
            if isinstance(n, ast.Call) and isinstance(n.func, ast.Name) and rd is not None and p.resolve_func(ps.mod, n.func) is rd and id(n) not in named_arm_nodes:
                facts = true_facts(cfg, cfg.node_of(n))
                about = [ast.parse(t, mode="eval").body for t in sorted(facts) if t != f"{R.default} is not NO_DEFAULT" and R.default in names_in_text(t)]
                if f"{R.default} is not NO_DEFAULT" not in facts or not about:
                    continue
                good = True
                for kind in spec.PRIMITIVES if hasattr(spec, "PRIMITIVES") else ("null", "boolean", "int", "long", "float", "double", "bytes", "string"):
                    want = spec.DEFAULT_KINDS[kind]
                    types = tuple({"NoneType": type(None), "bool": bool, "int": int, "float": float, "str": str, "list": list, "dict": dict}[t] for t in want.split("|"))
                    for name, rep in REPS:
                        env = {R.default: rep, R.tvar: kind, R.schema: kind}
                        vals = [guards.eval_bool(t, env) for t in about]
                        if any(v is None for v in vals):
                            good = None
                        elif good and all(vals) != (not isinstance(rep, types)):
                            good = False
                if good:
                    prim_sites += 1
                elif good is None:
                    prim_undecided += 1
        if prim_sites < 2 and prim_undecided:
            ctx.unrecognised("C11.R5", "default checks of the primitive arms", ps.where(), f"{prim_undecided} guard(s) of the default error could not be evaluated on the representatives")
        else:
            ctx.check("C11.R5", "the table is applied in the union arm and the reference arm with the name table, and in the primitive arms", len(with_table) >= 2 and prim_sites >= 2, ps.where(), f"_parse_schema: {len(with_table)} uses of the default table with the name table, {prim_sites} primitive arms whose default check follows the table", "an arm that can receive a default does not check it, or checks a union / reference without the name table")
        for kind, typ in (("array", list), ("map", dict), ("enum", str), ("fixed", str), ("record", dict)):
            arm = R.arms.get(kind)
            ok = False
            undecided = None
            for n in arm_nodes(arm) if arm is not None else []:
                if isinstance(n, ast.Call) and isinstance(n.func, ast.Name) and rd is not None and p.resolve_func(ps.mod, n.func) is rd:
                    facts = true_facts(cfg, cfg.node_of(n))
                    if f"{R.default} is not NO_DEFAULT" not in facts:
                        continue
                    # the facts about the default, evaluated on one representative per JSON kind: the error must be
                    # raised exactly for the representatives that are not of the kind's JSON type
                    about = [ast.parse(t, mode="eval").body for t in sorted(facts) if t != f"{R.default} is not NO_DEFAULT" and R.default in names_in_text(t)]
                    if not about:
                        continue
                    verdicts = {}
                    for name, rep in REPS:
                        env = {R.default: rep, R.tvar: kind}
                        vals = [guards.eval_bool(t, env) for t in about]
                        verdicts[name] = None if any(v is None for v in vals) else all(vals)
                    if None in verdicts.values():
                        undecided = verdicts
                        continue
                    if all(verdicts[name] == (not isinstance(rep, typ)) for name, rep in REPS):
                        ok = True
            if not ok and undecided is not None:
                ctx.unrecognised("C11.R5", f"{kind} arm checks its default is a {typ.__name__}", ps.where(arm), f"guard of the default error not evaluable: {undecided}")
            else:
                ctx.check("C11.R5", f"{kind} arm checks its default is a {typ.__name__}", ok, ps.where(arm) if arm else ps.where(), f"_parse_schema {kind} arm: default check", f"a default of the wrong JSON kind for {kind} is accepted")
        # the by-name arm: no reference is handed back without its default having been looked at
        checks = [t for t in cfg.nodes if t.kind == "test" and R.default in {x.id for x in ast.walk(t.ast) if isinstance(x, ast.Name)} and any(isinstance(c, ast.Call) and isinstance(c.func, ast.Name) and getattr(p.resolve_func(ps.mod, c.func), "id", None) in parts for c in ast.walk(t.ast))]
        byname_rets = [n for n in walk_local(ps.node) if isinstance(n, ast.Return) and n.value is not None and norm(n.value) in (R.schema, f"{R.named}[{R.schema}]") and f"{R.schema} not in PRIMITIVES" in true_facts(cfg, cfg.node_of(n))]
        if byname_rets and checks:
            skipped = [n for n in byname_rets if not cfg.must_pass(cfg.entry, cfg.node_of(n), checks)]
            ctx.check("C11.R5", "a reference to a named type is returned only after its default was checked", not skipped, ps.where(skipped[0]) if skipped else ps.where(byname_rets[0]), f"_parse_schema: `{norm(skipped[0])}` reachable without the default check" if skipped else "", "a field whose type is a reference (to a type defined earlier, or to the record being defined) can carry a default of the wrong JSON kind without the schema being rejected")
        # a default of the right JSON kind is not refused for any other reason: the arm of each named / container kind is
        # evaluated on a valid default (for fixed: a string of `size` code points above 127, one byte each in the
        # specification's mapping of code points 0-255 to bytes)
        valid = {
            "fixed": ("\u00ff\u00fe", {"type": "fixed", "name": "F", "size": 2}),
            "enum": ("A", {"type": "enum", "name": "E", "symbols": ["A", "B"]}),
            "array": ([], {"type": "array", "items": "int"}),
            "map": ({}, {"type": "map", "values": "int"}),
        }
        for kind, (dflt, sch) in valid.items():
            arm = R.arms.get(kind)
            if arm is None:
                continue
            if not any(isinstance(n, ast.Raise) for n in arm_nodes(arm)):
                continue  # nothing in the arm itself can refuse anything
            env = {R.default: dflt, R.schema: dict(sch), R.parsed: dict(sch), R.tvar: kind, R.ignore: False, R.namespace: "", R.expand: False, R.hint: False, R.names: [], R.named: {}, "NO_DEFAULT": _NO_DEFAULT_REP}
            r = guards.run_chain(list(arm.body), env, {}, effects=[])
            if r[0] == "raise" and R.default in {x.id for t in true_facts(cfg, cfg.node_of(r[1])) for x in ast.walk(ast.parse(t, mode="eval")) if isinstance(x, ast.Name)} | {x.id for x in ast.walk(r[1]) if isinstance(x, ast.Name)}:
                ctx.violation("C11.R5", f"{kind} arm accepts a default of the right kind", ps.where(r[1]), f"_parse_schema {kind} arm: `{norm(r[1])[:80]}` is reached for the default {dflt!r} of {sch}", "a specification-valid default is refused (for bytes / fixed a default is a string whose code points 0-255 stand for one byte each: its length in bytes is its length in characters, not the length of its UTF-8 encoding)")
            elif r[0] in ("fall", "return"):
                ctx.holds("C11.R5", f"{kind} arm accepts a default of the right kind", ps.where(arm))
    finally:
        guards.HOOK["call"] = guards.HOOK["value"] = None
    if rd is None:
        ctx.unrecognised("C11.R5", "default error helper", ps.where(), "_raise_default_value_error not found")
    else:
        ok = any(isinstance(n, ast.Raise) and n.exc is not None and "SchemaParseException" in norm(n.exc) for n in walk_local(rd.node))
        ctx.check("C11.R5", "the default error helper raises SchemaParseException unless told to ignore", ok, rd.where(), rd.name, "a bad default does not raise")

    # ---- R6 decimal guards -----------------------------------------------------------------------
    ctx.rule("C11.R6", "decimal annotations: decision table of the checks over representative (scale, precision, size, kind) values: negative or non-integer scale, non-positive or non-integer precision, precision beyond floor(log10(2) * (8*size - 1)) for a fixed, scale beyond precision are rejected; everything else passes", floor=12)
    import math as _math

    blocks = [n for n in walk_local(ps.node) if isinstance(n, ast.If) and "'decimal'" in norm(n.test) and "logicalType" in norm(n.test)]
    if len(blocks) != 1:
        ctx.unrecognised("C11.R6", "_parse_schema", ps.where(), f"{len(blocks)} blocks guarded by logicalType == 'decimal' (validation moved elsewhere)")
    else:
        blk = blocks[0]
        mods6 = [ps.mod] + [m for m in p.modules.values() if m is not ps.mod]
        guards.HOOK["call"] = guards.program_call_evaluator(p, mods6)
        guards.HOOK["value"] = guards.program_call_evaluator(p, mods6, want_value=True)

        def decide(scale, precision, size, kind):
            d = {"logicalType": "decimal", "type": kind}
            if scale is not None:
                d["scale"] = scale
            if precision is not None:
                d["precision"] = precision
            if size is not None:
                d["size"] = size
            env = {R.parsed: dict(d), R.schema: dict(d), R.tvar: kind}
            r = guards.run_chain(blk.body, env, {}, effects=[])
            return {"raise": True, "fall": False, "return": False}.get(r[0])

        def maxprec(size):
            return int(_math.floor(_math.log10(2) * (8 * size - 1)))

        table = [
            ("scale -1", (-1, 5, 8, "fixed"), True),
            ("scale 'x'", ("x", 5, None, "bytes"), True),
            ("precision -1", (2, -1, None, "bytes"), True),
            ("precision '5'", (2, "5", None, "bytes"), True),
            ("scale '' (not an integer, and falsy)", ("", 5, None, "bytes"), True),
            ("scale 0.0 (a float)", (0.0, 5, None, "bytes"), True),
            ("precision '' (not an integer, and falsy)", (0, "", None, "bytes"), True),
            ("precision 0.0 (a float)", (0, 0.0, None, "bytes"), True),
            ("scale 0, precision 5", (0, 5, None, "bytes"), False),
            ("scale 6 > precision 5", (6, 5, None, "bytes"), True),
            ("scale 2, precision 5, bytes", (2, 5, None, "bytes"), False),
            ("no scale, precision 5, bytes", (None, 5, None, "bytes"), False),
            ("scale 5 = precision 5", (5, 5, None, "bytes"), False),
        ]
        for size in (1, 2, 8, 16):
            table.append((f"fixed({size}) precision {maxprec(size)} (the most it holds)", (0, maxprec(size), size, "fixed"), False))
            table.append((f"fixed({size}) precision {maxprec(size) + 1} (one too many)", (0, maxprec(size) + 1, size, "fixed"), True))
        table.append(("bytes precision 100", (0, 100, None, "bytes"), False))
        try:
            for label, args, want in table:
                got = decide(*args)
                inst = f"decimal {label}: {'rejected' if want else 'accepted'}"
                if got is None:
                    ctx.unrecognised("C11.R6", inst, ps.where(blk), "the checks could not be evaluated on this representative")
                else:
                    ctx.check("C11.R6", inst, got == want, ps.where(blk), f"_parse_schema: decimal with {label} is {'rejected' if got else 'accepted'}", "the decimal annotation is checked differently from the specification (positive integer precision, non-negative integer scale not above the precision, precision that fits the fixed size)")
        finally:
            guards.HOOK["call"] = guards.HOOK["value"] = None


REPS = (("null", None), ("boolean", True), ("string", "s"), ("int", 1), ("float", 1.5), ("list", []), ("dict", {}))


def default_table(dm):
    """{kind: {JSON value kind: accepted?}} by evaluating the function's guards on one representative per JSON
    value kind (finite-domain evaluation of the syntax tree; nothing is executed)"""
    dp, sp = dm.pos_params[0], dm.pos_params[1]
    np_ = dm.pos_params[2] if len(dm.pos_params) > 2 else None
    # atoms: isinstance(<f>(default), float) -- the float coercion helper accepts ints and floats
    coerced = set()
    for n in ast.walk(dm.node):
        if isinstance(n, ast.Call) and isinstance(n.func, ast.Name) and n.func.id == "isinstance" and len(n.args) == 2 and isinstance(n.args[0], ast.Call) and [norm(x) for x in n.args[0].args] == [dp] and norm(n.args[1]) == "float":
            coerced.add(norm(n))
    out = {}
    for kind in spec.DEFAULT_KINDS:
        out[kind] = {}
        for name, rep in REPS:
            env = {dp: rep, sp: kind}
            if np_:
                env[np_] = None
            atoms = {t: isinstance(rep, (int, float)) for t in coerced}
            r = guards.run_chain(dm.node.body, env, atoms)
            if r[0] == "return":
                v = guards.eval_bool(r[1], guards.LAST.get("ret_env", env), atoms) if r[1] is not None else False
                out[kind][name] = v
            else:
                out[kind][name] = None
    return out
