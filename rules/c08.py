"""C08 Schema resolution — structural obligations."""
import ast

from sa.loader import AnalysisError, norm, walk_local
from sa.shapes import consumption, flat, Shaper
from sa.cfg import cfg_of
from sa import guards
from sa.spec import resolution as spec
from .common import analysis, R_NAMES, K_NAMES, tokens, names_in, assigned_values
from .c01 import check_shapes

PROP = "C08"
TECHNIQUE = "decision-table extraction of the promotion relation over the 8x8 primitive pairs (finite-domain evaluation incl. literal tables) against the spec table; reader/skip wire-shape agreement; CFG definite-assignment and no-implicit-None exits; provenance (writer/reader label) of name-table keys; exact-before-promotion ordering at reader-union sites; who-may-drop discipline for the reader schema with dominating facts"
LEVEL_TEXT = (
    "Static analysis: the relation match_types implements on primitive pairs is extracted by evaluating its guards on all 64 pairs "
    "and must equal the specification's promotion table, maybe_promote must convert exactly the pairs whose Python representation "
    "differs; skipping must consume exactly one value (shape agreement with the readers); read_record must walk the writer's fields, "
    "consume each on both arms and raise when a reader field has no default; every exit of match_schemas returns a value or raises; "
    "writer/reader name tables are never crossed; every selection of a reader-union branch tries same-type branches before promotions."
)
LEVEL_NOTE = (
    "Not decided: that the value returned is the one the specification prescribes for every (writer, reader, datum) triple; alias and "
    "name matching semantics at depth (runtime values). Trusted: spec table sa/spec/resolution.py."
)
ASSUMPTIONS = ["promotion table transcribed from Avro 1.11 'Schema Resolution'"]


def run(ctx):
    a = analysis(ctx.program)
    p = a.p
    rmod = p.module("_read_py")

    # ---- R1 promotion relation ----------------------------------------------------------------
    ctx.rule("C08.R1", "relation extracted from match_types over the 8x8 primitive pairs equals the spec promotion table; maybe_promote converts exactly the representation-changing pairs", floor=80)
    mt = p.func("_read_py:match_types")
    wp, rp = mt.pos_params[0], mt.pos_params[1]
    for w in spec.PRIMITIVES:
        for r in spec.PRIMITIVES:
            out = guards.run_chain(mt.node.body, {wp: w, rp: r})
            if out[0] == "return" and isinstance(out[1], ast.Constant):
                got = bool(out[1].value)
            elif out[0] in ("unknown", "fall", "return"):
                # ran past the literal chain into the by-name lookup: primitives are not names
                got = False if _past_chain(mt, out) else None
            else:
                got = None
            if got is None:
                ctx.unrecognised("C08.R1", f"match_types({w}, {r})", mt.where(), f"outcome {out[0]} at `{norm(out[1]) if out[1] is not None else ''}` not decidable")
                continue
            want = spec.matches(w, r)
            ctx.check("C08.R1", f"match_types({w}, {r}) = {want}", got == want, mt.where(), f"match_types: writer {w} reader {r} -> {got}", f"match_types answers {got} for writer {w!r} / reader {r!r}; the specification says {want}")
    mp = p.func("_read_py:maybe_promote")
    dp, wp2, rp2 = mp.pos_params[:3]

    def module_tables(f):
        """module-level literal tables the function reads (rows may carry functions, kept as syntax)"""
        env = {}
        for nm in names_in(f.node):
            r_ = p.resolve(f.mod, nm)
            if r_ is not None and r_[0] == "value" and isinstance(r_[2], (ast.Tuple, ast.List, ast.Dict)):
                v = guards.value_of(r_[2], {})
                if not isinstance(v, guards._NoVal):
                    env[nm] = v
        return env

    mp_env = module_tables(mp)
    mt_env = module_tables(mt)
    for w in spec.PRIMITIVES:
        for r in spec.PRIMITIVES:
            if not spec.matches(w, r):
                continue
            out = guards.run_chain(mp.node.body, dict(mp_env, **{wp2: w, rp2: r}))
            if out[0] != "return":
                ctx.unrecognised("C08.R1", f"maybe_promote({w}, {r})", mp.where(), f"outcome {out[0]}")
                continue
            txt = norm(out[1])
            conv = {f"float({dp})": "float", f"{dp}.encode()": "encode", f"{dp}.decode()": "decode", dp: None}.get(txt, "?")
            want = spec.CONVERSIONS.get((w, r))
            ctx.check("C08.R1", f"maybe_promote({w}->{r}) converts with {want}", conv == want, mp.where(), f"maybe_promote: writer {w} reader {r} -> {txt}", f"value decoded as {w} and read as {r} is returned as `{txt}`; the Python representation requires {want or 'no conversion'}")
    # the promotion is applied with the writer's type and the resolved reader's type
    rd = p.func("_read_py:read_data")
    calls = [n for n in walk_local(rd.node) if isinstance(n, ast.Call) and isinstance(n.func, ast.Name) and n.func.id == "maybe_promote"]
    ok = len(calls) == 1 and [norm(x) for x in calls[0].args] == ["data", "record_type", "extract_record_type(reader_schema)"]
    ctx.check("C08.R1", "read_data promotes with (writer type, resolved reader type)", ok, rd.where(), f"read_data: {[norm(c) for c in calls]}", "the decoded value is not promoted from the writer's type to the reader's resolved type")

    # ---- R2 reader ~ skip ------------------------------------------------------------------------
    ctx.rule("C08.R2", "skip functions consume exactly one value: same shape as the readers (shared with C03.R2)", floor=17)
    check_shapes(ctx, a, "C08.R2", ("s",))

    # ---- R3 wire order under a reader schema ----------------------------------------------------
    ctx.rule("C08.R3", "read_record with a reader schema: iterate the writer's fields; read with the reader field's type or skip; defaults only for reader-only fields; no default -> SchemaResolutionError", floor=4)
    rr = a.readers.funcs("record")[0]
    term = a.shape(rr, "r", R_NAMES)
    ifs = [t for t in term if t[0] == "if"]
    with_reader = None
    for t in ifs:
        if t[1] in ("(RS is None)",):
            with_reader = t[3]
        elif t[1] in ("(RS is not None)", "RS"):
            with_reader = t[2]
    if with_reader is None:
        ctx.unrecognised("C08.R3", rr.qualname, rr.where(), "no branch on the presence of a reader schema")
    else:
        loops = [t for t in with_reader if t[0] == "for" and t[1] == "S['fields']"]
        ok = len(loops) == 1
        ctx.check("C08.R3", "with a reader schema the writer's fields drive the decoding order", ok, rr.where(), f"{rr.qualname}: loops over {[t[1] for t in with_reader if t[0] == 'for']}", "fields must be decoded in the writer's order (the wire order)")
        if ok:
            ds = [t for t in flat(loops[0][2]) if t[0] == "D"]
            modes = sorted((t[1], t[2]) for t in ds)
            ok2 = modes == [("r", "each(S['fields'])['type']"), ("s", "each(S['fields'])['type']")]
            ctx.check("C08.R3", "each writer field is either read or skipped with the writer's field type", ok2, rr.where(), f"{rr.qualname}: {modes}", "a writer field must be consumed exactly once per record: read when the reader has it, skipped otherwise")
            rdr = [t for t in ds if t[1] == "r"]
            ok3 = bool(rdr) and all(t[3].endswith("['type']") and "readers_field" in t[3] or t[3].endswith("['type']") for t in rdr) and all(t[3] != "None" for t in rdr)
            ctx.check("C08.R3", "a matched field is resolved against the reader field's type", ok3, rr.where(), f"{rr.qualname}: reader schema passed = {[t[3] for t in rdr]}", "the matched field is decoded without the reader's field type")
    # defaults
    dflt_sites = [n for n in walk_local(rr.node) if isinstance(n, ast.If) and norm(n.test) in ("'default' in field", '"default" in field')]
    ok = len(dflt_sites) == 1 and any(isinstance(s, ast.Assign) and "['default']" in norm(s.value) for s in dflt_sites[0].body) and dflt_sites and any(isinstance(s, ast.Raise) and "SchemaResolutionError" in norm(s.exc) for s in ast.walk(ast.Module(body=dflt_sites[0].orelse, type_ignores=[])))
    ctx.check("C08.R3", "reader-only field: default if present else SchemaResolutionError", ok, rr.where(), f"{rr.qualname}: default filling", "a reader field missing from the writer must take its default, and raise SchemaResolutionError when it has none")
    if ok:
        from .common import ends_in_raise
        ctx.check("C08.R3", "reader-only field without default: SchemaResolutionError on every path", ends_in_raise(dflt_sites[0].orelse), rr.where(dflt_sites[0]), f"{rr.qualname}: a path through the no-default arm completes normally", "a reader field the writer lacks and that has no default is left unset or filled with something else (under an option, a further test) instead of raising SchemaResolutionError")
    if dflt_sites:
        cfg = cfg_of(rr)
        g = [norm(t.ast) for (t, lab) in cfg.guards_of(cfg.node_of(dflt_sites[0].test)) if lab == "true"]
        okg = any("not in writer_fields" in x or "not in record" in x for x in g)
        ctx.check("C08.R3", "defaults are applied only to fields absent from the writer / not decoded", okg, rr.where(dflt_sites[0]), f"{rr.qualname}: default under {g}", "a default can overwrite a value that was decoded from the data")

        # what the default-filling loop walks over: the reader's fields, each once and under its own name
        pm_ = {}
        for x in ast.walk(rr.node):
            for c_ in ast.iter_child_nodes(x):
                pm_[id(c_)] = x
        lp = pm_.get(id(dflt_sites[0]))
        while lp is not None and not isinstance(lp, ast.For):
            lp = pm_.get(id(lp))
        RSn = rr.pos_params[3] if len(rr.pos_params) > 3 else "reader_schema"
        if lp is None:
            ctx.unrecognised("C08.R3", "defaults: the loop over the reader's fields", rr.where(dflt_sites[0]), "the default is not filled in inside a loop")
        else:
            it = lp.iter
            src = it.func.value if isinstance(it, ast.Call) and isinstance(it.func, ast.Attribute) and it.func.attr in ("items", "values", "keys") and not it.args else it
            if norm(src) == f"{RSn}['fields']":
                ctx.holds("C08.R3", "defaults: the loop walks the reader's fields", rr.where(lp))
            elif isinstance(src, ast.Name):
                tbl = src.id
                keys = []
                for n in walk_local(rr.node):
                    if isinstance(n, ast.Assign):
                        for t in n.targets:
                            if isinstance(t, ast.Subscript) and isinstance(t.value, ast.Name) and t.value.id == tbl:
                                keys.append((n, t.slice))
                        if any(isinstance(t, ast.Name) and t.id == tbl for t in n.targets) and isinstance(n.value, ast.DictComp):
                            keys.append((n, n.value.key))
                        elif any(isinstance(t, ast.Name) and t.id == tbl for t in n.targets) and not (isinstance(n.value, ast.Dict) and not n.value.keys):
                            keys.append((n, None))
                    elif isinstance(n, ast.Call) and isinstance(n.func, ast.Attribute) and n.func.attr in ("update", "setdefault") and isinstance(n.func.value, ast.Name) and n.func.value.id == tbl:
                        keys.append((n, None))
                if not keys:
                    ctx.unrecognised("C08.R3", "defaults: the table of reader fields", rr.where(lp), f"no store into {tbl} found")
                else:
                    odd = [(n, k) for (n, k) in keys if k is None or not (isinstance(k, ast.Subscript) and isinstance(k.slice, ast.Constant) and k.slice.value == "name")]
                    ctx.check("C08.R3", "defaults: the table the loop walks is keyed by the reader's field names only", not odd, rr.where(odd[0][0]) if odd else rr.where(lp), f"{rr.qualname}: {tbl} also receives `{norm(odd[0][0])[:70]}`" if odd else "", "the table that drives default filling has entries that are not field names (aliases): a reader alias the writer does not use is taken for a missing reader field, its default overwrites the decoded value or SchemaResolutionError is raised")
            else:
                ctx.unrecognised("C08.R3", "defaults: the loop over the reader's fields", rr.where(lp), f"iterates {norm(it)[:60]}")

    # ---- R4 failure raises -----------------------------------------------------------------------
    ctx.rule("C08.R4", "match_schemas has no implicit-None exit; read_union's result is definitely assigned; read_enum unknown symbol -> reader default else raise", floor=3)
    ms = p.func("_read_py:match_schemas")
    cfg = cfg_of(ms)
    bad = [pn for (pn, lab) in cfg.exit.pred if not (isinstance(pn.ast, ast.Return) and pn.ast.value is not None)]
    bad = [b for b in bad if b in cfg.live_nodes()]
    ctx.check("C08.R4", "match_schemas: every normal exit is `return <schema>`", not bad, ms.where(bad[0].ast) if bad and bad[0].ast is not None else ms.where(), f"match_schemas: falls off after {[norm(b.ast) if b.ast is not None else b.kind for b in bad][:3]}", "an unmatched pair of schemas can return None (treated as 'no reader schema') instead of raising SchemaResolutionError")
    ru = a.readers.funcs("union")[0]
    cfg = cfg_of(ru)
    asg = [cfg.node_of(n) for n in walk_local(ru.node) if isinstance(n, ast.Assign) and any(isinstance(t, ast.Name) and t.id == "result" for t in n.targets)]
    uses = [n for n in walk_local(ru.node) if isinstance(n, ast.Name) and n.id == "result" and isinstance(n.ctx, ast.Load)]
    if not asg or not uses:
        ctx.unrecognised("C08.R4", ru.qualname, ru.where(), "no variable `result` in read_union")
    else:
        ok = all(cfg.must_pass(cfg.entry, cfg.node_of(u), asg) for u in uses)
        ctx.check("C08.R4", "read_union: the value returned is assigned on every path (no match raises)", ok, ru.where(), "read_union: result used unassigned on some path", "when no reader branch matches, read_union can reach its return without a decoded value instead of raising")
    raises = [n for n in walk_local(ru.node) if isinstance(n, ast.Raise) and "SchemaResolutionError" in norm(n.exc)]
    ctx.check("C08.R4", "read_union: both 'no branch matches' arms raise SchemaResolutionError", len(raises) >= 2, ru.where(), f"read_union: {len(raises)} SchemaResolutionError raise(s)", "a writer branch that matches no reader branch (union or non-union reader) must raise")
    re_ = a.readers.funcs("enum")[0]
    ifs = [n for n in walk_local(re_.node) if isinstance(n, ast.If) and "not in reader_schema['symbols']" in norm(n.test)]
    ok = len(ifs) == 1 and any(isinstance(s, ast.Raise) and "SchemaResolutionError" in norm(s.exc) for s in ast.walk(ifs[0])) and any(isinstance(s, ast.Return) and norm(s.value) == "default" for s in ast.walk(ifs[0]))
    ctx.check("C08.R4", "read_enum: symbol unknown to the reader -> reader default, else SchemaResolutionError", ok, re_.where(), "read_enum: unknown-symbol arm", "a symbol the reader does not know must be replaced by the reader's enum default or raise")

    # ---- R5 table provenance --------------------------------------------------------------------
    ctx.rule("C08.R5", "named_schemas['writer'] is keyed only by writer-side values, named_schemas['reader'] only by reader-side values", floor=4)
    WHINT = ("writer", "w_", "idx_schema", "record_type")
    RHINT = ("reader", "r_", "idx_reader")
    n_sites = 0
    for f in rmod.all_funcs:
        side_of = {}
        for pn in f.params:
            if pn.startswith(("writer", "w_")):
                side_of[pn] = "W"
            elif pn.startswith(("reader", "r_")):
                side_of[pn] = "R"
        changed = True
        while changed:
            changed = False
            for n in walk_local(f.node):
                if isinstance(n, ast.Assign) and len(n.targets) == 1 and isinstance(n.targets[0], ast.Name) and n.targets[0].id not in side_of:
                    sides = {side_of[x] for x in names_in(n.value) if x in side_of}
                    # a reader schema resolved against the writer (match_schemas(w, r)) is reader-side
                    if isinstance(n.value, ast.Call) and isinstance(n.value.func, ast.Name) and n.value.func.id in ("match_schemas", "_match_reader_union"):
                        sides = {"R"}
                    if len(sides) == 1:
                        side_of[n.targets[0].id] = sides.pop()
                        changed = True
                if isinstance(n, ast.For) and isinstance(n.target, ast.Name) and n.target.id not in side_of:
                    sides = {side_of[x] for x in names_in(n.iter) if x in side_of}
                    if len(sides) == 1:
                        side_of[n.target.id] = sides.pop()
                        changed = True
        for n in walk_local(f.node):
            tbl = None
            key = None
            if isinstance(n, ast.Subscript) and isinstance(n.value, ast.Subscript) and isinstance(n.value.slice, ast.Constant) and n.value.slice.value in ("writer", "reader") and norm(n.value.value).endswith("named_schemas"):
                tbl, key = n.value.slice.value, n.slice
            elif isinstance(n, ast.Call) and isinstance(n.func, ast.Attribute) and n.func.attr == "get" and isinstance(n.func.value, ast.Subscript) and isinstance(n.func.value.slice, ast.Constant) and n.func.value.slice.value in ("writer", "reader") and norm(n.func.value.value).endswith("named_schemas") and n.args:
                tbl, key = n.func.value.slice.value, n.args[0]
            if tbl is None or isinstance(getattr(n, "ctx", None), ast.Store):
                continue
            n_sites += 1
            sides = {side_of.get(x) for x in names_in(key)} - {None}
            want = "W" if tbl == "writer" else "R"
            if not sides:
                ctx.unrecognised("C08.R5", f"{f.qualname}: {norm(n)}", f.where(n), "key provenance unknown")
            else:
                ctx.check("C08.R5", f"{f.qualname}: {norm(n)} keyed by a {tbl}-side value", sides == {want}, f.where(n), f"{f.qualname}: {norm(n)}", f"the {tbl} name table is looked up with a key derived from the other side's schema")
    if n_sites < 4:
        raise AnalysisError(f"only {n_sites} name-table lookups found")

    # ---- R6 exact before promotion ---------------------------------------------------------------
    ctx.rule("C08.R6", "every selection of a reader-union branch by match_types tries same-type branches before promotable ones", floor=1)
    n_sel = 0
    for f in rmod.all_funcs:
        cfg = None
        sites = []
        for n in walk_local(f.node):
            if isinstance(n, ast.Call) and isinstance(n.func, ast.Name) and n.func.id == "match_types" and len(n.args) >= 2:
                cand = n.args[1]
                if _from_reader_union(f, cand):
                    sites.append(n)
        if not sites:
            continue
        cfg = cfg_of(f)
        # program order (pre-order of the syntax tree, not line numbers: normalisation may copy statements)
        order = {}

        def number(n):
            order[id(n)] = len(order)
            for c in ast.iter_child_nodes(n):
                number(c)

        number(f.node)
        sites.sort(key=lambda c: order.get(id(c), 0))
        first = sites[0]
        n_sel += 1
        test = _enclosing_test(a, f, first)
        exact = test is not None and _has_exactness(test, first.args[1])
        ctx.check("C08.R6", f"{f.qualname}: first acceptance of a reader-union branch requires the same type", exact, f.where(first), f"{f.qualname}: {norm(test) if test is not None else norm(first)}", "a reader-union branch reachable only by promotion can be chosen although a branch of the writer's own type exists (writer int, reader ['double','int'] gives 5.0)")
    if n_sel < 1:
        raise AnalysisError("no reader-union selection site found")

    ctx.rule("C08.R9", "two named types match when their unqualified names are equal or the reader's aliases contain the writer's full name or its unqualified name", floor=1)
    msf = p.func("_read_py:match_schemas")
    W_, R_ = msf.pos_params[0], msf.pos_params[1]
    from sa.pathsum import summaries as _summ

    want_alias = {
        f"{W_}['name'].rsplit('.', 1)[-1] == {R_}['name'].rsplit('.', 1)[-1]",
        f"{W_}['name'] in {R_}.get('aliases', [])",
        f"{W_}['name'].rsplit('.', 1)[-1] in {R_}.get('aliases', [])",
    }
    found = None
    for s_ in _summ(cfg_of(msf), max_paths=3000):
        if s_.kind != "return" or s_.text != R_:
            continue
        for fct in s_.facts:
            if "'aliases'" in fct or ".rsplit('.', 1)[-1] ==" in fct:
                tree_ = ast.parse(fct, mode="eval").body
                parts = {norm(v).replace("get('aliases', ())", "get('aliases', [])") for v in (tree_.values if isinstance(tree_, ast.BoolOp) and isinstance(tree_.op, ast.Or) else [tree_])}
                # symmetric spelling of the equality
                parts = {x if x in want_alias else (" == ".join(reversed(x.split(" == "))) if " == " in x and " == ".join(reversed(x.split(" == "))) in want_alias else x) for x in parts}
                found = parts if found is None else (found | parts)
    if found is not None and not (found & want_alias):
        found = None
    if found is None:
        ctx.unrecognised("C08.R9", "match_schemas: named types", msf.where(), "the acceptance condition of two named types (names / aliases) was not found on a path returning the reader schema")
    else:
        missing = sorted(want_alias - found)
        ctx.check("C08.R9", "match_schemas: named types match by unqualified name, writer full name in reader aliases, or writer unqualified name in reader aliases", not missing, msf.where(), f"match_schemas: accepts when {sorted(found)}; missing {missing}", "a reader that renamed a type and lists the old (unqualified or full) name as an alias must still resolve: schema evolution by aliases is part of the resolution rules")

    ctx.rule("C08.R8", "match_schemas decides every combination of {inline definition, reference by name} on the writer and the reader side by comparing like with like (names with names, definitions with definitions)", floor=4)
    ms = p.func("_read_py:match_schemas")
    wS, rS = ms.pos_params[0], ms.pos_params[1]
    KINDS = ("record", "enum", "fixed", "error")
    consts = {}
    for nm in names_in(ms.node):
        v = p.try_fold(ms.mod, ast.Name(id=nm, ctx=ast.Load()), None)
        if isinstance(v, (set, frozenset, tuple, list)) and all(isinstance(x, str) for x in v):
            consts[nm] = sorted(v)
    forms = {"inline": {"type": "record", "name": "ns.X", "fields": [], "aliases": []}, "reference": "ns.X"}
    for wf, wv in forms.items():
        for rf, rv in forms.items():
            env = dict(consts)
            env[wS], env[rS] = wv, rv
            out = guards.run_chain(ms.node.body, env)
            inst = f"match_schemas: writer {wf} / reader {rf}"
            if out[0] == "raise":
                ctx.violation("C08.R8", inst + " is resolved", ms.where(out[1]), f"match_schemas: writer {wf}, reader {rf} -> raises unconditionally", "a named type defined inline on one side and referred to by name on the other is rejected although the specification matches named types by name wherever they appear")
                continue
            node = out[1]
            calls = [c for c in ast.walk(node)] if node is not None else []
            mts = [c for c in calls if isinstance(c, ast.Call) and isinstance(c.func, ast.Name) and c.func.id == "match_types" and len(c.args) >= 2]
            if out[0] == "unknown" and mts:
                env_at = guards.LAST["env"]
                bad = []
                for c in mts:
                    for arg in c.args[:2]:
                        v = guards.value_of(arg, env_at)
                        if isinstance(v, str) and v in KINDS:
                            bad.append((c, arg))
                if bad:
                    c, arg = bad[0]
                    ctx.violation("C08.R8", inst + " is decided by comparing like with like", ms.where(c), f"match_schemas: writer {wf}, reader {rf} -> {norm(c)[:70]} where `{norm(arg)}` is the kind word of an inline definition", "an inline definition's kind ('record', 'enum', ...) is looked up as if it were a type name: a named type defined inline on one side and referred to by name on the other never matches (e.g. a record defined at its first use by the writer and, because the reader lists its fields in another order, referred to by name at that position by the reader)")
                else:
                    ctx.holds("C08.R8", inst + " is decided by comparing like with like", ms.where(mts[0]))
            elif out[0] in ("unknown", "return"):
                ctx.holds("C08.R8", inst + " is decided by comparing like with like", ms.where(node) if node is not None else ms.where())
            else:
                ctx.unrecognised("C08.R8", inst, ms.where(), f"outcome {out[0]}")

    ctx.rule("C08.R7", "the reader schema is dropped (set to None) only at the named top-level sites and under their conditions; below the top level it is only resolved (match_schemas) or passed on", floor=4)
    reader_drop_discipline(ctx, a, "C08.R7")

    res_funcs = {f.name for f in rmod.all_funcs if f.name in ("match_schemas", "match_types", "_match_reader_union", "read_record", "read_union", "read_enum", "read_data", "read_array", "read_map", "read_fixed") or f.name.startswith("skip_")}
    ctx.borrow("C03", {"C03.R1": "C08.R11"}, "resolution reads every value the writer wrote and nothing else: the resolving arm of a reader (reader schema given) consumes exactly the writer's encoding, whatever it then keeps, converts or replaces by a default", only=lambda o: ":read_" in o.get("where", ""))
    ctx.borrow("C17", {"C17.R1": "C08.R10"}, "what a reader schema resolves to is a function of the writer and reader schemas alone: resolution code that stores into the caller's name tables (caches, indexes) makes the result depend on what was read before", only=lambda o: o["where"].split(":")[1].split(".")[0] in res_funcs if o.get("where", "").count(":") >= 1 else False)


def _past_chain(mt, out):
    """the evaluation left the literal if/elif chain (reached the name-table lookup / final return)"""
    node = out[1]
    if out[0] == "return":
        return isinstance(node, ast.Constant) is False
    if out[0] == "fall":
        return True
    txt = norm(node) if node is not None else ""
    return "named_schemas" in txt or "is not None" in txt or "writer_schema" in txt


def _string_key(sl):
    """the subscript is a field name, not a position: a string constant or a lookup in a literal table of strings"""
    if isinstance(sl, ast.Constant) and isinstance(sl.value, str):
        return True
    return isinstance(sl, ast.Subscript) and isinstance(sl.value, ast.Dict) and bool(sl.value.values) and all(isinstance(v, ast.Constant) and isinstance(v.value, str) for v in sl.value.values)


def _from_reader_union(f, cand):
    """candidate expression is an element of a reader-side list: a loop variable over, or a non-literal subscript of, an r-side name"""
    rnames = {pn for pn in f.params if pn.startswith(("reader", "r_"))}
    if isinstance(cand, ast.Name):
        for n in walk_local(f.node):
            if isinstance(n, ast.For) and isinstance(n.target, ast.Name) and n.target.id == cand.id and names_in(n.iter) & rnames:
                return True
            if isinstance(n, ast.Assign) and any(isinstance(t, ast.Name) and t.id == cand.id for t in n.targets):
                v = n.value
                for s in ast.walk(v):
                    if isinstance(s, ast.Subscript) and names_in(s.value) & rnames and not _string_key(s.slice):
                        return True
    if isinstance(cand, ast.Subscript) and names_in(cand.value) & rnames and not _string_key(cand.slice):
        return True
    return False


def _enclosing_test(a, f, call):
    pm = a.parents(f.mod)
    q = pm.get(id(call))
    top = call
    while q is not None and not isinstance(q, ast.stmt):
        top = q
        q = pm.get(id(q))
    if isinstance(q, (ast.If, ast.While)) and any(x is call for x in ast.walk(q.test)):
        return q.test
    return None


def _has_exactness(test, cand):
    """test is a conjunction that also compares the candidate's type with the writer's type for equality"""
    conj = test.values if isinstance(test, ast.BoolOp) and isinstance(test.op, ast.And) else [test]
    ctxt = norm(cand)
    for c in conj:
        if isinstance(c, ast.Compare) and len(c.ops) == 1 and isinstance(c.ops[0], ast.Eq):
            sides = [norm(c.left), norm(c.comparators[0])]
            if any(ctxt in s for s in sides) and any("w_" in s or "writer" in s or "idx_schema" in s for s in sides):
                return True
    return False


# functions allowed to replace the caller's reader schema by None, and the condition under which they may
# (confirmed by reading; every other store of None to a reader-schema variable on the read path is reported)
READER_DROP_SITES = {
    "_read_py:schemaless_reader": "whole-schema equality of the two parameters: `writer_schema == reader_schema` on the bare parameters",
    "_read_py:file_reader.__init__": "no reader schema given (falsy parameter)",
    "_read_py:reader.__init__": "JSON decoding: the decoder is configured with the schema and resolves on its own",
}


def reader_drop_discipline(ctx, a, rule):
    """The reader schema is what makes resolution happen.  It may become None only at the named sites; everywhere
    else it is either passed on unchanged, replaced by match_schemas(writer, reader, ..) or by its parsed form."""
    from sa.cfg import cfg_of
    from .common import true_facts, eq_texts

    p = a.p
    rmod = p.module("_read_py")
    sites = 0
    for f in sorted(rmod.all_funcs, key=lambda x: x.id):
        params = f.params if hasattr(f, "params") else f.pos_params
        pnames = [x for x in (params if isinstance(params, (list, tuple)) else list(params))]
        if "reader_schema" not in pnames:
            continue
        cfg = None
        for n in walk_local(f.node):
            if not isinstance(n, ast.Assign):
                continue
            for t in n.targets:
                tt = norm(t)
                if tt not in ("reader_schema", "self.reader_schema"):
                    continue
                sites += 1
                v = n.value
                inst = f"{f.qualname}: `{norm(n)[:70]}`"
                if isinstance(v, ast.Call) and isinstance(v.func, ast.Name) and v.func.id in ("match_schemas", "parse_schema") and any(norm(x) == "reader_schema" for x in v.args):
                    ctx.holds(rule, inst + " keeps the reader schema (resolved / parsed form)", f.where(n))
                    continue
                if isinstance(v, ast.Name) and v.id == "reader_schema":
                    ctx.holds(rule, inst + " stores the parameter", f.where(n))
                    continue
                if isinstance(v, ast.Constant) and v.value is None:
                    cfg = cfg or cfg_of(f)
                    facts = true_facts(cfg, cfg.node_of(n))
                    if f.id == "_read_py:schemaless_reader":
                        rebinds = [m for m in walk_local(f.node) if isinstance(m, ast.Assign) and any(norm(x) in ("writer_schema", "reader_schema") for x in m.targets) and cfg.node_of(n) in cfg.reachable_from(cfg.node_of(m)) and m is not n]
                        ok = bool(eq_texts("writer_schema", "reader_schema") & facts) and not rebinds
                        ctx.check(rule, inst + " only when the two schemas given are equal as a whole", ok, f.where(n), f"{f.qualname}: reader schema dropped under {sorted(facts)}", "the reader schema is dropped under a weaker comparison than equality of the complete schemas given (e.g. ignoring the name tables of parsed schemas): schemas that differ in separately parsed parts are then read without resolution")
                    elif f.id == "_read_py:file_reader.__init__":
                        ctx.check(rule, inst + " only when no reader schema was given", "not reader_schema" in facts, f.where(n), f"{f.qualname}: reader schema dropped under {sorted(facts)}", "a reader schema that was given is ignored")
                    elif f.id == "_read_py:reader.__init__":
                        ok = any("AvroJSONDecoder" in x for x in facts)
                        ctx.check(rule, inst + " only for JSON decoding (the decoder was configured with it)", ok, f.where(n), f"{f.qualname}: reader schema dropped under {sorted(facts)}", "the binary path loses its reader schema")
                    else:
                        ctx.violation(rule, inst + " is not one of the sites allowed to drop the reader schema", f.where(n), f"{f.qualname}: {norm(n)} under {sorted(true_facts(cfg, cfg.node_of(n)))[:4]}", "dropping the reader schema below the top level skips resolution for that subtree: sub-schemas that compare equal as text can still mean different types (references resolved against different name tables, aliases, defaults)")
                    continue
                ctx.unrecognised(rule, inst, f.where(n), "reader schema replaced by an unknown value")
        # ... and a nested value is read without a reader schema (read_data(.., None, ..)) only because none was given:
        # the test that decides it looks at the reader schema and at nothing else
        if "<locals>" in f.qualname:
            continue
        pm = {}
        for n in ast.walk(f.node):
            for c in ast.iter_child_nodes(n):
                pm[id(c)] = n
        for c in ast.walk(f.node):
            if not (isinstance(c, ast.Call) and isinstance(c.func, ast.Name) and c.func.id == "read_data" and len(c.args) >= 4 and isinstance(c.args[3], ast.Constant) and c.args[3].value is None):
                continue
            deciding = []
            q = c
            while id(q) in pm:
                par = pm[id(q)]
                if isinstance(par, ast.If) and not any(q is x for x in ast.walk(par.test)) and "reader_schema" in names_in(par.test):
                    deciding.append(par.test)
                q = par
            if not deciding:
                continue
            sites += 1
            extra = sorted({nm for t in deciding for nm in names_in(t)} - {"reader_schema", "isinstance", "dict", "list", "str", "len", "bool"})
            ctx.check(rule, f"{f.qualname}: `{norm(c)[:60]}` drops the reader schema only because none was given", not extra, f.where(c), f"{f.qualname}: read without resolution under `{norm(deciding[0])[:90]}`", f"whether the nested value is resolved against the reader's schema also depends on {extra}: sub-schemas that look alike (the same name on both sides) can still be different types")
    return sites

