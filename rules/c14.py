"""C14 Fingerprints — structural obligations (thin, stated as such)."""
import ast
import hashlib

from sa.loader import AnalysisError, norm, walk_local
from sa.cfg import cfg_of
from sa.spec import schema_spec as spec
from .common import true_facts, analysis, names_in, eq_texts, ne_texts, assigned_values

PROP = "C14"
TECHNIQUE = "constant folding of the advertised algorithm set and the Java-name mapping; CFG dominance of the unknown-algorithm guard over all hashing; def-use of the hashed bytes (UTF-8); frame of the Rabin routine (seed constant, 8-byte little-endian hex rendering, no module-level state)"
LEVEL_TEXT = (
    "Static analysis, deliberately thin: the membership test in the advertised set (folded from the source: hashlib.algorithms_guaranteed "
    "plus SHA-256, MD5, CRC-64-AVRO) must dominate every hashing call and raise ValueError; Java spellings must be mapped before dispatch; "
    "both the Rabin routine and hashlib must receive the UTF-8 bytes of the text; the Rabin accumulator must start from the specification's "
    "constant and be rendered as 8 little-endian unsigned bytes in hex, and the routine must keep its table in locals (no shared state)."
)
LEVEL_NOTE = "Not decided: that the table construction and the update step equal CRC-64-AVRO for every text - pure arithmetic; the suite's vectors exercise it far better than any static rule could."
ASSUMPTIONS = ["hashlib.algorithms_guaranteed of the analysing interpreter equals that of the interpreter running fastavro"]


def run(ctx):
    a = analysis(ctx.program)
    p = a.p
    f = p.func("_schema_py:fingerprint")
    smod = p.module("_schema_common")
    cfg = cfg_of(f)
    text_p, alg_p = f.pos_params[0], f.pos_params[1]

    ctx.rule("C14.R1", "a raise ValueError under `algorithm not in FINGERPRINT_ALGORITHMS` dominates all hashing; the set folds to algorithms_guaranteed + SHA-256, MD5, CRC-64-AVRO", floor=3)
    algs = p.try_fold(f.mod, ast.Name(id="FINGERPRINT_ALGORITHMS", ctx=ast.Load()))
    want = set(hashlib.algorithms_guaranteed) | set(spec.JAVA_NAMES) | {spec.RABIN_NAME}
    ctx.check("C14.R1", "advertised set = hashlib.algorithms_guaranteed | {SHA-256, MD5} | {CRC-64-AVRO}", algs is not None and set(algs) == want, smod.relpath + ":FINGERPRINT_ALGORITHMS", f"FINGERPRINT_ALGORITHMS folds to {sorted(algs) if algs else algs}", "the advertised algorithm set differs from the documented one")
    hashing = [n for n in walk_local(f.node) if isinstance(n, ast.Call) and (norm(n.func) == "rabin_fingerprint" or (isinstance(n.func, ast.Attribute) and isinstance(n.func.value, ast.Name) and n.func.value.id == "hashlib"))]
    if not hashing:
        # the hashing is done somewhere else (strategy objects, helpers that were not inlined): nothing below can be
        # decided from this function
        for r_, txt in (("C14.R1", "unknown algorithm names raise ValueError before anything is hashed"), ("C14.R2", "Java spellings / Rabin dispatch"), ("C14.R3", "the bytes hashed are the UTF-8 encoding of the text")):
            if r_ != "C14.R1":
                ctx.rule(r_, txt, floor=1)
            ctx.unrecognised(r_, "fingerprint", f.where(), "no call of rabin_fingerprint / hashlib in fingerprint: the hashing is delegated to code this rule does not follow")
        return
    # "for every text": nothing about the text itself is a reason to refuse it (only an unknown algorithm is)
    other_raises = []
    for n in walk_local(f.node):
        if isinstance(n, ast.Raise):
            fs = true_facts(cfg, cfg.node_of(n))
            names_ = {x.id for t in fs for x in ast.walk(ast.parse(t, mode="eval")) if isinstance(x, ast.Name)}
            dep = set()
            for nm_ in names_:
                if nm_ == text_p:
                    dep.add(nm_)
                else:
                    for v_ in assigned_values(f.node, nm_):
                        if any(isinstance(x, ast.Name) and x.id == text_p for x in ast.walk(v_)):
                            dep.add(nm_)
            # facts about the text other than "it is (not) a str"
            about = [t for t in fs if any(isinstance(x, ast.Name) and x.id in dep for x in ast.walk(ast.parse(t, mode="eval"))) and not (t.startswith("isinstance(") or t.startswith("not isinstance("))]
            if about:
                other_raises.append((n, sorted(about)))
    ctx.check("C14.R1", "no text is refused: the only raise of fingerprint depends on the algorithm name", not other_raises, f.where(other_raises[0][0]) if other_raises else f.where(), f"fingerprint: `{norm(other_raises[0][0])[:70]}` under {other_raises[0][1][:3]}" if other_raises else "", "the fingerprint is defined for every text (it is the digest of its UTF-8 bytes): a check of what the text looks like makes fingerprint raise for texts fastavro itself produces (canonical forms with names outside printable ASCII) and for any other text a caller hashes")
    member = f"{alg_p} in FINGERPRINT_ALGORITHMS"
    nonmember = f"{alg_p} not in FINGERPRINT_ALGORITHMS"
    raises = [n for n in walk_local(f.node) if isinstance(n, ast.Raise) and n.exc is not None and "ValueError" in norm(n.exc) and nonmember in true_facts(cfg, cfg.node_of(n))]
    unguarded = [h for h in hashing if member not in true_facts(cfg, cfg.node_of(h))]
    guards_ok = bool(hashing) and bool(raises) and not unguarded
    ctx.check("C14.R1", "unknown algorithm names raise ValueError before anything is hashed", guards_ok, f.where(unguarded[0]) if unguarded else f.where(), f"fingerprint: {len(raises)} raise(s) under `{nonmember}`; hashing not under `{member}`: {[norm(h)[:40] for h in unguarded]}", "names outside the advertised set can reach hashlib (which accepts many more spellings) instead of raising ValueError")
    ctx.check("C14.R1", "fingerprint has exactly two hashing calls (Rabin, hashlib.new)", sorted(norm(h.func) for h in hashing) == ["hashlib.new", "rabin_fingerprint"], f.where(), f"fingerprint: hashing calls {[norm(h.func) for h in hashing]}", "an additional or missing hashing path")

    ctx.rule("C14.R2", "Java spellings: mapping folds to {SHA-256: sha256, MD5: md5}, both guaranteed, applied before dispatch", floor=2)
    jm = p.try_fold(f.mod, ast.Name(id="JAVA_FINGERPRINT_MAPPING", ctx=ast.Load()))
    ctx.check("C14.R2", "JAVA_FINGERPRINT_MAPPING = {SHA-256: sha256, MD5: md5}", jm == spec.JAVA_NAMES and all(v in hashlib.algorithms_guaranteed for v in (jm or {}).values()), smod.relpath + ":JAVA_FINGERPRINT_MAPPING", f"JAVA_FINGERPRINT_MAPPING = {jm}", "the Java spellings do not map to the hashlib names")
    maps = [n for n in walk_local(f.node) if isinstance(n, ast.Assign) and norm(n) == f"{alg_p} = JAVA_FINGERPRINT_MAPPING.get({alg_p}, {alg_p})"]
    ok = len(maps) == 1 and all(cfg.dominates(cfg.node_of(maps[0]), cfg.node_of(h)) for h in hashing if norm(h.func) == "hashlib.new")
    ctx.check("C14.R2", "the mapping is applied to the algorithm name before hashlib.new", ok, f.where(maps[0]) if maps else f.where(), f"fingerprint: {[norm(m) for m in maps]}", "'MD5' / 'SHA-256' would reach hashlib under a spelling it does not guarantee")
    rn = p.try_fold(f.mod, ast.Name(id="RABIN_64", ctx=ast.Load()))
    rcalls = [h for h in hashing if norm(h.func) == "rabin_fingerprint"]
    ok = bool(rcalls) and rn == spec.RABIN_NAME and all(eq_texts(alg_p, "RABIN_64") & true_facts(cfg, cfg.node_of(h)) for h in rcalls) and all(ne_texts(alg_p, "RABIN_64") & true_facts(cfg, cfg.node_of(h)) for h in hashing if h not in rcalls)
    ctx.check("C14.R2", "CRC-64-AVRO dispatches to the Rabin routine", ok, f.where(), f"fingerprint: RABIN_64={rn!r}", "the Rabin fingerprint is not selected by the name CRC-64-AVRO")

    ctx.rule("C14.R3", "the bytes hashed are the UTF-8 encoding of the text, for both routines", floor=2)
    for h in hashing:
        arg = h.args[-1] if h.args else None
        txt = norm(arg) if arg is not None else "?"
        if isinstance(arg, ast.Name):
            srcs = [norm(n.value) for n in walk_local(f.node) if isinstance(n, ast.Assign) and any(isinstance(t, ast.Name) and t.id == arg.id for t in n.targets)]
            txt = srcs[0] if len(srcs) == 1 else txt
        ok = txt in (f"{text_p}.encode()", f"{text_p}.encode('utf-8')", f"{text_p}.encode('utf8')", f"{text_p}.encode('UTF-8')", f"{text_p}.encode(encoding='utf-8')")
        ctx.check("C14.R3", f"{norm(h.func)} receives the UTF-8 bytes of the text", ok, f.where(h), f"fingerprint: {norm(h)[:80]}", "a codec other than UTF-8 (or the text itself) is hashed")

    # ... of the text as given: the parameter is not rebound before it is encoded
    stores = [n for n in walk_local(f.node) if isinstance(n, ast.Name) and n.id == text_p and isinstance(n.ctx, (ast.Store, ast.Del))]
    ctx.check("C14.R3", "the text hashed is the argument itself (the parameter is never rebound)", not stores, f.where(stores[0]) if stores else f.where(), f"fingerprint: `{text_p}` is reassigned" if stores else "", "the fingerprint is defined for every text: a text that is transformed first (re-canonicalised, stripped, normalised) no longer has the digest of its own UTF-8 bytes")

    # ... and the result is the whole digest in hex: every hexdigest() / digest() reaches the caller unsliced
    pm_ = {}
    for n in ast.walk(f.node):
        for c in ast.iter_child_nodes(n):
            pm_[id(c)] = n
    n_dig = 0
    for n in walk_local(f.node):
        if isinstance(n, ast.Call) and isinstance(n.func, ast.Attribute) and n.func.attr in ("hexdigest", "digest"):
            n_dig += 1
            par = pm_.get(id(n))
            cut = isinstance(par, ast.Subscript) and par.value is n
            holder = par if isinstance(par, ast.Assign) and len(par.targets) == 1 and isinstance(par.targets[0], ast.Name) else None
            if holder is not None:
                cut = any(isinstance(x, ast.Subscript) and isinstance(x.value, ast.Name) and x.value.id == holder.targets[0].id and isinstance(x.slice, ast.Slice) for x in walk_local(f.node))
            ctx.check("C14.R3", f"{norm(n)[:40]} is returned whole", not cut, f.where(n), f"fingerprint: {norm(par)[:80] if par is not None else ''}", "the digest is cut: the fingerprint is no longer the algorithm's digest of the text")
    if n_dig == 0 and hashing:
        ctx.unrecognised("C14.R3", "the digest is returned whole", f.where(), "no hexdigest() / digest() call found in fingerprint")

    ctx.rule("C14.R4", "Rabin frame: accumulator starts from 0xC15D213AA4D7A795; result rendered as 8 little-endian unsigned bytes in hex; table kept in locals", floor=4)
    r = p.func("_schema_common:rabin_fingerprint")
    consts = {}
    for n in walk_local(r.node):
        if isinstance(n, ast.Assign) and isinstance(n.targets[0], ast.Name):
            v = p.try_fold(r.mod, n.value, "<x>")
            if v != "<x>":
                consts.setdefault(n.targets[0].id, []).append(v)
    seed_vars = [k for k, v in consts.items() if v == [spec.RABIN_EMPTY]]
    ctx.check("C14.R4", "the specification's constant 0xC15D213AA4D7A795 is the seed", bool(seed_vars), r.where(), f"rabin_fingerprint: constants {{k: [hex(x) if isinstance(x, int) else x for x in v] for k, v in consts.items()}}".format() if False else f"rabin_fingerprint: constants {consts}", "the empty-text fingerprint would not be the specification's seed")
    loops = [n for n in walk_local(r.node) if isinstance(n, ast.For) and norm(n.iter) == r.pos_params[0]]
    acc = None
    if len(loops) == 1:
        upd = [s for s in loops[0].body if isinstance(s, ast.Assign) and isinstance(s.targets[0], ast.Name) and s.targets[0].id in names_in(s.value)]
        if len(upd) == 1:
            acc = upd[0].targets[0].id
    inits = [n for n in walk_local(r.node) if isinstance(n, ast.Assign) and acc and norm(n.targets[0]) == acc and ((isinstance(n.value, ast.Name) and n.value.id in seed_vars) or (not (loops and any(n is x for x in ast.walk(loops[0]))) and p.try_fold(r.mod, n.value, None) == spec.RABIN_EMPTY))]
    ctx.check("C14.R4", "the accumulator updated once per input byte is initialised from the seed", bool(acc) and len(inits) == 1, r.where(loops[0]) if loops else r.where(), f"rabin_fingerprint: accumulator {acc}, init {[norm(i) for i in inits]}", "the loop over the data does not start from the seed (empty text must map to the seed)")
    rets = [n for n in walk_local(r.node) if isinstance(n, ast.Return)]
    ok = False
    if len(rets) == 1 and acc:
        v = rets[0].value
        if isinstance(v, ast.Call) and isinstance(v.func, ast.Attribute) and v.func.attr == "hex" and isinstance(v.func.value, ast.Call) and norm(v.func.value.func) == f"{acc}.to_bytes":
            kw = {k.arg: p.try_fold(r.mod, k.value) for k in v.func.value.keywords}
            pos = [p.try_fold(r.mod, x) for x in v.func.value.args]
            length = kw.get("length", pos[0] if pos else None)
            order = kw.get("byteorder", pos[1] if len(pos) > 1 else None)
            signed = kw.get("signed", False)
            ok = length == 8 and order == "little" and signed is False
    ctx.check("C14.R4", "result = accumulator.to_bytes(8, 'little', signed=False).hex()", ok, r.where(rets[0]) if rets else r.where(), f"rabin_fingerprint: {[norm(x.value)[:80] for x in rets]}", "the fingerprint is not printed as sixteen hex digits in little-endian byte order")
    stores_global = [n for n in walk_local(r.node) if isinstance(n, ast.Call) and isinstance(n.func, ast.Attribute) and n.func.attr in ("append", "extend", "__setitem__") and isinstance(n.func.value, ast.Name) and p.resolve(r.mod, n.func.value.id) is not None and not any(isinstance(s, ast.Assign) and any(isinstance(t, ast.Name) and t.id == n.func.value.id for t in s.targets) for s in walk_local(r.node))]
    # helpers are fine as long as they keep everything in locals too (no store to a module-level name, no global)
    def _touches_module_state(g):
        for n in ast.walk(g.node):
            if isinstance(n, (ast.Global, ast.Nonlocal)):
                return True
            if isinstance(n, ast.Call) and isinstance(n.func, ast.Attribute) and n.func.attr in ("append", "extend", "__setitem__", "update", "add", "insert", "setdefault") and isinstance(n.func.value, ast.Name) and p.resolve(g.mod, n.func.value.id) is not None and n.func.value.id not in {x.id for x in ast.walk(g.node) if isinstance(x, ast.Name) and isinstance(x.ctx, ast.Store)} | set(g.params):
                return True
            if isinstance(n, ast.Subscript) and isinstance(n.ctx, (ast.Store, ast.Del)) and isinstance(n.value, ast.Name) and p.resolve(g.mod, n.value.id) is not None and n.value.id not in {x.id for x in ast.walk(g.node) if isinstance(x, ast.Name) and isinstance(x.ctx, ast.Store)} | set(g.params):
                return True
        return False

    callees = [c for c in a.cg.reachable(a.cg.callees(r)) if _touches_module_state(c)] if a.cg.callees(r) else []
    ctx.check("C14.R4", "the Rabin routine (and what it calls) keeps its table in locals", not stores_global and not callees, r.where(), f"rabin_fingerprint: module-level stores {[norm(x) for x in stores_global]}, callees {[c.id for c in callees]}", "a table shared between calls/threads makes the first concurrent calls see a partial table (see also C17/C18)")
