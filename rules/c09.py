"""C09 Union branch choice — structural obligations."""
import ast
import re
import copy

from sa.callgraph import bind_args
from sa.loader import AnalysisError, norm, walk_local
from sa.cfg import cfg_of
from sa.pathsum import summaries
from .common import analysis, W_NAMES, tokens, names_in, assigned_values, ifexp_alternatives, true_facts
from .c02 import union_selection

PROP = "C09"
TECHNIQUE = "the branch-label function of writer and validator extracted from per-path summaries as a set of (conditions, label) pairs and compared; provenance dataflow for the union index (unknown hint raises); CFG rules for visiting order and strict tie-break; nondeterminism census over the call graph"
LEVEL_TEXT = (
    "Static analysis: the function 'branch -> hint name' is extracted from the tuple arm of write_union and of _validate_union and "
    "must be the same computation (alpha-normalised), with the same enabling guard; the reader must report names in the same "
    "vocabulary; an unknown hint must raise / validate False; candidates are visited by enumerate(schema), a non-record match breaks, "
    "the record arm updates only on a strict comparison (first wins on ties); every un-hinted choice is gated by _validate (shared "
    "with C02.R4); nothing reachable from write_union reads a nondeterministic source or lets set order choose."
)
LEVEL_NOTE = (
    "Not decided: byte-identity of read-then-write over all unions and data (runtime values). Syntactic equality of the two label "
    "computations is demanded; an equivalent but differently written label function would be reported."
)
ASSUMPTIONS = ["the writer's and validator's label computations are compared syntactically after alpha-renaming"]

NONDET = {"random", "time", "urandom", "os.urandom", "id", "hash", "uuid", "uuid4", "secrets", "datetime.now"}


def label_slice(f, loopvar_hint=None):
    """(alpha-normalised text of the statements computing the branch label, the comparison, guard text, for node)
    found by shape: `if isinstance(datum, tuple) and not ...: (name, datum) = datum; for ... in <schema>: <label stmts>; if name == label:`"""
    for n in walk_local(f.node):
        if isinstance(n, ast.If) and "isinstance" in norm(n.test) and "tuple" in norm(n.test):
            loops = [s for s in n.body if isinstance(s, ast.For)]
            unpack = [s for s in n.body if isinstance(s, ast.Assign) and isinstance(s.targets[0], ast.Tuple)]
            if not loops or not unpack:
                continue
            loop = loops[0]
            hint = unpack[0].targets[0].elts[0].id
            # candidate variable
            tgt = loop.target
            cand = tgt.elts[-1].id if isinstance(tgt, ast.Tuple) else tgt.id
            label_stmts = []
            cmp_ = None
            for s in loop.body:
                if isinstance(s, ast.If) and isinstance(s.test, ast.Compare) and hint in names_in(s.test) and len(s.test.ops) == 1 and isinstance(s.test.ops[0], ast.Eq):
                    cmp_ = s
                    break
                label_stmts.append(s)
            if cmp_ is None:
                continue
            other = [x for x in (cmp_.test.left, cmp_.test.comparators[0]) if not (isinstance(x, ast.Name) and x.id == hint)]
            label_var = norm(other[0]) if other else "?"
            text = "\n".join(_alpha(s, {cand: "CAND", label_var: "LABEL"}) for s in label_stmts)
            return {"text": text, "guard": norm(n.test), "loop": loop, "cmp": cmp_, "if": n, "hint": hint, "cand": cand, "label": label_var}
    return None


def label_cases(f):
    """The branch-label function of a tuple-notation arm, from path summaries: {(conditions on the candidate, label
    expression)} in terms of CAND (the loop variable over the union's branches) and HINT (the first element
    unpacked from the (name, value) tuple), plus the guard facts that enable tuple notation and the summaries."""
    import re as _re

    hints = set()
    for n in walk_local(f.node):
        if isinstance(n, ast.Assign) and isinstance(n.targets[0], ast.Tuple) and len(n.targets[0].elts) == 2 and isinstance(n.targets[0].elts[0], ast.Name) and isinstance(n.value, ast.Name):
            hints.add(n.targets[0].elts[0].id)
    cands = set()
    for n in walk_local(f.node):
        if isinstance(n, ast.For):
            tgt = n.target
            cands.add(tgt.elts[-1].id if isinstance(tgt, ast.Tuple) and isinstance(tgt.elts[-1], ast.Name) else (tgt.id if isinstance(tgt, ast.Name) else "?"))
    if not hints or not cands:
        return None
    sums = summaries(cfg_of(f), max_paths=20000)

    def role(t):
        try:
            tree = ast.parse(t, mode="eval")
        except SyntaxError:
            return t
        for n in ast.walk(tree):
            if isinstance(n, ast.Name):
                if n.id in cands:
                    n.id = "CAND"
                elif n.id in hints:
                    n.id = "HINT"
        return norm(tree.body)

    cases = set()
    guards_ = set()
    matched, unmatched = [], []
    for s in sums:
        tup = [x for x in s.facts if "isinstance(" in x and "tuple)" in x and not x.startswith("not ")]
        if not tup:
            continue
        facts = {role(x) for x in s.facts}
        eqs = []
        for x in facts:
            # `HINT == a or HINT == b`: either spelling of the name matches
            for part in (x.split(" or ") if " or " in x and all(_re.fullmatch(r"HINT == .+|.+ == HINT", q.strip("()")) for q in x.split(" or ")) else [x]):
                part = part.strip("()") if " or " in x else part
                if _re.fullmatch(r"HINT == .+|.+ == HINT", part):
                    eqs.append(part)
        if eqs:
            matched.append(s)
            for e in eqs:
                label = e[len("HINT == "):] if e.startswith("HINT == ") else e[: -len(" == HINT")]
                conds = frozenset(x for x in facts if "CAND" in x and "HINT" not in x and x != e and not x.startswith("_validate(") and not x.startswith("not _validate("))
                cases.add((conds, label))
        else:
            unmatched.append(s)
        guards_ |= {x for x in s.facts if ("tuple" in x or "disable_tuple_notation" in x)}
    return {"cases": cases, "guards": guards_, "matched": matched, "unmatched": unmatched, "role": role, "cands": cands, "hints": hints}


def _alpha(stmt, fixed):
    """unparse with local names renamed in order of first binding (fixed names mapped as given)"""
    s = copy.deepcopy(stmt)
    ren = dict(fixed)
    counter = [0]

    class R(ast.NodeTransformer):
        def visit_Name(self, n):
            if n.id in ren:
                n.id = ren[n.id]
            elif isinstance(n.ctx, ast.Store):
                counter[0] += 1
                ren[n.id] = f"v{counter[0]}"
                n.id = ren[n.id]
            return n

    # two passes so that loads after stores are renamed
    R().visit(s)
    R().visit(s)
    return ast.unparse(s)


def run(ctx):
    a = analysis(ctx.program)
    p = a.p
    wu = a.writers.funcs("union")[0]
    vu = a.validators.funcs("union")[0]
    ru = a.readers.funcs("union")[0]

    # ---- R1 label-function agreement ---------------------------------------------------------
    ctx.rule("C09.R1", "the branch-label function of write_union's tuple arm and of _validate_union's tuple arm are the same computation under the same guard; the reader reports names in that vocabulary", floor=4)
    lw, lv = label_cases(wu), label_cases(vu)
    if lw is None or lv is None or not lw["cases"] or not lv["cases"]:
        ctx.unrecognised("C09.R1", "label functions", (wu if (lw is None or not lw["cases"]) else vu).where(), "tuple arm with a `hint == label` comparison not found")
    else:
        show = lambda cs: sorted((sorted(c), l) for c, l in cs)
        ctx.check("C09.R1", "writer and validator name union branches by the same function", lw["cases"] == lv["cases"], vu.where(), f"_validate_union label cases: {show(lv['cases'])} vs write_union: {show(lw['cases'])}", "validate() and the writers disagree on which branch a (name, value) hint selects: data the writer encodes is rejected by validate (or vice versa)")
        def hint_guard(f_, dpos, opt_name):
            """every condition that dominates the unpacking of the (name, value) pair, datum and options by role"""
            cfg_ = cfg_of(f_)
            dn = f_.pos_params[dpos]
            out = None
            for n in walk_local(f_.node):
                if isinstance(n, ast.Assign) and isinstance(n.targets[0], ast.Tuple) and len(n.targets[0].elts) == 2 and isinstance(n.value, ast.Name) and n.value.id == dn:
                    facts = true_facts(cfg_, cfg_.node_of(n))
                    facts = {re.sub(r"\b" + re.escape(opt_name) + r"\b", "OPTIONS", re.sub(r"\b" + re.escape(dn) + r"\b", "DATUM", x)) for x in facts}
                    # the options may travel in a field of a parameter object (`ctx.options`): the field of that name is the role
                    facts = {re.sub(r"\b(" + "|".join(re.escape(p_) for p_ in f_.params) + r")\.OPTIONS\b", "OPTIONS", x) for x in facts} if f_.params else facts
                    out = facts if out is None else (out | facts)
            return out if out is not None else set()

        gw = hint_guard(wu, 1, wu.pos_params[5])
        gv = hint_guard(vu, 0, "options")
        ctx.check("C09.R1", "tuple notation is enabled by the same guard on both sides", gw == gv, vu.where(), f"validator guard `{sorted(gv)}` vs writer guard `{sorted(gw)}`", "tuple notation is recognised under different conditions by the writer and by validate")
        # after the hint matched, the *selected candidate* is what gets validated and that verdict is the result
        rets = [s for s in lv["matched"] if s.kind == "return"]
        okv = bool(rets)
        for s in rets:
            t = lv["role"](s.text)
            okv = okv and t.startswith("_validate(") and ("schema=CAND" in t or re.match(r"_validate\([^,]+, CAND\b", t) is not None)
        falls = [s for s in lv["matched"] if s.kind != "return" and not (s.kind == "raise")]
        ctx.check("C09.R1", "validator: a hinted value is validated against exactly the named branch", okv and not falls, vu.where(rets[0].node) if rets else vu.where(), f"_validate_union: with a matching hint returns {[lv['role'](s.text)[:70] for s in rets]}", "a hinted value must be validated against the named branch only and that verdict returned")
    # reader side: names reported
    names_reported = []
    for n in walk_local(ru.node):
        if isinstance(n, ast.Return) and isinstance(n.value, ast.Tuple) and len(n.value.elts) == 2:
            names_reported.append(n)
    srcs = set()
    for r_ in names_reported:
        first = r_.value.elts[0]
        vals = assigned_values(ru.node, first.id) if isinstance(first, ast.Name) else [first]
        for v in vals:
            for alt in ifexp_alternatives(v):
                srcs.add(norm(alt))
    ok = bool(names_reported) and all(s.count("['name']") >= 1 for s in srcs) and bool(srcs)
    ctx.check("C09.R1", "reader reports the 'name' of the chosen branch's definition (inline or through the name table)", ok, ru.where(), f"read_union: name sources {sorted(srcs)}", "names returned by the reader for named branches must be the definitions' names, which is what the writer matches hints against")

    # ---- R2 unknown hint is an error ------------------------------------------------------------
    ctx.rule("C09.R2", "unknown hint: writer raises (sentinel cannot reach write_index), validator's for-else returns False", floor=2)
    sel = union_selection(ctx, a, wu, "C09.R2")
    if lv is not None and lv["cases"]:
        um = [s for s in lv["unmatched"]]
        ok = bool(um) and all((s.kind == "return" and s.text == "False") or s.kind == "raise" for s in um)
        bad = [s for s in um if not ((s.kind == "return" and s.text == "False") or s.kind == "raise")]
        ctx.check("C09.R2", "validator: no branch with the hinted name -> False", ok, vu.where(bad[0].node) if bad and bad[0].node is not None else vu.where(), f"_validate_union: without a matching branch the tuple arm yields {[s.kind + ' ' + s.text[:50] for s in bad]}", "a hint naming no branch must make validation fail; falling through validates the bare value against every branch")

    # ---- R3 order and ties -------------------------------------------------------------------------
    ctx.rule("C09.R3", "candidates visited by enumerate(schema) ascending; non-record match breaks; record arm updates on a strict comparison", floor=3)
    schema_p = wu.pos_params[2]
    loops = [n for n in walk_local(wu.node) if isinstance(n, ast.For)]
    for lp in loops:
        ok = norm(lp.iter) == f"enumerate({schema_p})"
        ctx.check("C09.R3", f"write_union loop iterates enumerate({schema_p})", ok, wu.where(lp), f"write_union: for ... in {norm(lp.iter)}", "branches must be tried in schema order (first conforming branch wins)")
    if not sel:
        ctx.unrecognised("C09.R3", "write_union", wu.where(), "selection sites not available")
    else:
        cfg = sel["cfg"]
        pm = sel["parents"]
        n_tie = n_exit = n_filter = 0
        validate_names = {"validate", "_validate"}
        inside_conforming = set()
        for n_ in walk_local(wu.node):
            if isinstance(n_, ast.If) and any(isinstance(c, ast.Call) and isinstance(c.func, ast.Name) and c.func.id in validate_names for c in ast.walk(n_.test)):
                inside_conforming |= {id(x) for st_ in n_.body for x in ast.walk(st_)}
        if not inside_conforming:
            ctx.unrecognised("C09.R3", "write_union", wu.where(), "the conformance test of the un-hinted search was not found")
        # ... and every branch is put to the conformance test: nothing that looks at the datum decides before it
        datum_p0 = wu.pos_params[1]
        derived = {datum_p0} | {n_.targets[0].id for n_ in walk_local(wu.node) if isinstance(n_, ast.Assign) and len(n_.targets) == 1 and isinstance(n_.targets[0], ast.Name) and datum_p0 in names_in(n_.value) and not any(isinstance(c, ast.Call) and isinstance(c.func, ast.Name) and c.func.id in validate_names for c in ast.walk(n_.value)) and n_.targets[0].id != datum_p0}
        for lp_ in [x for x in walk_local(wu.node) if isinstance(x, ast.For)]:
            in_loop = {id(x) for st_ in lp_.body for x in ast.walk(st_)}
            for n_ in walk_local(wu.node):
                if isinstance(n_, ast.If) and id(n_) in in_loop and any(isinstance(c, ast.Call) and isinstance(c.func, ast.Name) and c.func.id in validate_names for c in ast.walk(n_.test)):
                    # the same decided inside the test itself (`not skip(datum, ..) and validate(..)`)
                    in_validate = {id(x) for c in ast.walk(n_.test) if isinstance(c, ast.Call) and isinstance(c.func, ast.Name) and c.func.id in validate_names for x in ast.walk(c)}
                    outside = {x.id for x in ast.walk(n_.test) if isinstance(x, ast.Name) and id(x) not in in_validate}
                    if derived & outside:
                        ctx.violation("C09.R3", f"every branch is put to the conformance test whatever the datum is: `{norm(n_.test)[:60]}`", wu.where(n_.test), f"write_union: conformance test combined with `{norm(n_.test)[:90]}`", "a branch is passed over, depending on the datum, before it was asked whether the datum conforms to it: a conforming branch can be skipped")
                    vnode = None
                    for cand_ in (n_.test, n_):
                        if cfg.has(cand_):
                            vnode = cfg.node_of(cand_)
                            break
                    if vnode is None:
                        for c_ in ast.walk(n_.test):
                            if cfg.has(c_):
                                vnode = cfg.node_of(c_)
                                break
                    if vnode is None:
                        ctx.unrecognised("C09.R3", "write_union", wu.where(n_), "the conformance test has no node in the flow graph")
                        continue
                    for (t_, lab_) in cfg.guards_of(vnode):
                        if t_.kind == "test" and id(t_.ast) in in_loop and (derived & set(names_in(t_.ast))) and not any(isinstance(c, ast.Call) and isinstance(c.func, ast.Name) and c.func.id in validate_names for c in ast.walk(t_.ast)):
                            ctx.violation("C09.R3", f"every branch is put to the conformance test whatever the datum is: `{norm(t_.ast)[:60]}`", wu.where(t_.ast), f"write_union: conformance test under `{norm(t_.ast)[:90]}`", "a branch is passed over, depending on the datum, before it was asked whether the datum conforms to it: a conforming branch can be skipped")
        for node, (ok_, desc, text) in sorted(sel["sites"].items(), key=lambda kv: kv[0].id):
            stmt = node.ast
            guards_ = [(t.ast, lab) for (t, lab) in cfg.guards_of(node) if t.kind == "test"]
            gtexts = [norm(g) for g, lab in guards_ if lab == "true"]
            if any("isinstance" in g and "tuple" in g for g in gtexts):
                continue  # hinted arm: decided by name, not by order
            # (b) a running maximum: a comparison in the guards one side of which is assigned from the other in this block
            blk = pm.get(id(stmt))
            sibs = []
            for fld in ("body", "orelse"):
                lst = getattr(blk, fld, None)
                if isinstance(lst, list) and any(x is stmt for x in lst):
                    sibs = lst
            tie = None
            for g, lab in guards_:
                if lab == "true" and isinstance(g, ast.Compare) and len(g.ops) == 1 and isinstance(g.ops[0], (ast.Lt, ast.Gt, ast.LtE, ast.GtE)):
                    l_, r_ = g.left, g.comparators[0]
                    for m_, o_, bigger_is_other in ((l_, r_, isinstance(g.ops[0], (ast.Lt, ast.LtE))), (r_, l_, isinstance(g.ops[0], (ast.Gt, ast.GtE)))):
                        if isinstance(m_, ast.Name) and any(isinstance(x, ast.Assign) and len(x.targets) == 1 and norm(x.targets[0]) == m_.id and norm(x.value) == norm(o_) for x in sibs):
                            tie = (g, m_.id, bigger_is_other)
            is_float = any("== 'float'" in g for g in gtexts)
            # between "the datum conforms to this branch" and "this branch is (a candidate for) the choice" nothing else may
            # look at the datum: a conforming branch passed over because of the value is not the first conforming one
            datum_p = wu.pos_params[1]
            for g, lab in guards_:
                if id(g) in inside_conforming and datum_p in names_in(g) and not any(isinstance(c, ast.Call) and isinstance(c.func, ast.Name) and c.func.id in validate_names for c in ast.walk(g)) and not (tie is not None and g is tie[0]):
                    n_filter += 1
                    ctx.violation("C09.R3", f"a conforming branch is considered whatever the datum is: `{norm(g)}`", wu.where(g), f"write_union: selection `{text}` under `{norm(g)}`", "a branch the datum conforms to is skipped depending on the datum's value: the choice is no longer the first conforming branch")
            if tie is not None:
                n_tie += 1
                g, mvar, bigger_is_other = tie
                strict_ = isinstance(g.ops[0], (ast.Lt, ast.Gt)) and bigger_is_other
                ctx.check("C09.R3", "record branches: update only when strictly more fields are shared (first wins on ties)", strict_, wu.where(g), f"write_union: {norm(g)} updates {mvar}", "with a non-strict comparison a later record branch wins ties, against schema order")
                # the running maximum starts below every possible count (a count is a len(): >= 0), or a conforming record
                # that shares no field name with the datum (no fields, all defaults) can never be selected
                inits = [v for v in assigned_values(wu.node, mvar) if not any(isinstance(x, ast.Name) for x in ast.walk(v))]
                consts = []
                for v in inits:
                    if isinstance(v, ast.Constant) and isinstance(v.value, (int, float)) and not isinstance(v.value, bool):
                        consts.append(v.value)
                    elif isinstance(v, ast.UnaryOp) and isinstance(v.op, ast.USub) and isinstance(v.operand, ast.Constant) and isinstance(v.operand.value, (int, float)):
                        consts.append(-v.operand.value)
                    elif norm(v) in ("float('-inf')", "-float('inf')", "-math.inf"):
                        consts.append(-1)
                    else:
                        consts.append(None)
                if not consts or any(c is None for c in consts):
                    ctx.unrecognised("C09.R3", "record branches: the running maximum starts below zero", wu.where(g), f"initial value of {mvar} not a constant: {[norm(v) for v in inits]}")
                else:
                    ok_init = all(c < 0 for c in consts) if strict_ else all(c <= 0 for c in consts)
                    ctx.check("C09.R3", "record branches: the running maximum starts below every possible count", ok_init, wu.where(g), f"write_union: {mvar} starts at {consts} and is raised on `{norm(g)}`", "a conforming record branch that shares no field name with the datum (a record without fields, or whose fields all have defaults and are omitted) never beats the initial value: the datum is rejected although a branch conforms")
            elif is_float:
                continue  # the float->double deferral keeps searching by design (C02.R4)
            else:
                lp = sel["loop_of"](stmt) if not isinstance(stmt, ast.Break) else sel["loop_of"](stmt)
                if lp is None:
                    continue
                n_exit += 1
                # the float -> double deferral keeps searching by design (C02.R4): edges on which the branch kind is
                # known to be 'float' do not count
                float_edges = set()
                for t in cfg.nodes:
                    if t.kind == "test" and isinstance(t.ast, ast.Compare) and len(t.ast.ops) == 1 and "'float'" in [norm(t.ast.left), norm(t.ast.comparators[0])]:
                        lab_f = "true" if isinstance(t.ast.ops[0], ast.Eq) else ("false" if isinstance(t.ast.ops[0], ast.NotEq) else None)
                        for (m, lab) in t.succ:
                            if lab == lab_f:
                                float_edges.add((t, m, lab))
                again = lp in cfg.reachable_from(node, skip_labels=("exc",), skip_edges=float_edges)
                ctx.check("C09.R3", "a conforming non-record branch ends the search", not again, wu.where(stmt), f"write_union: after `{text}` the loop continues", "without leaving the loop a later conforming branch would replace the first one")
        # the record arm is entered on the kind of the branch's *definition*: a branch that only names a record type has
        # the name as its own kind
        named_p = wu.pos_params[3]
        rec_tests = [n_ for n_ in walk_local(wu.node) if id(n_) in inside_conforming and isinstance(n_, ast.Compare) and len(n_.ops) == 1 and isinstance(n_.ops[0], ast.Eq) and norm(n_.comparators[0]) == "'record'"]

        def _vals(e):
            return list(assigned_values(wu.node, e.id)) if isinstance(e, ast.Name) and e.id not in wu.pos_params else [e]

        def _resolved(e, depth=3):
            for v in _vals(e):
                if any((isinstance(x, ast.Subscript) and norm(x.value) == named_p) or (isinstance(x, ast.Call) and norm(x.func) == f"{named_p}.get") for x in ast.walk(v)):
                    return True
                if depth and v is not e and any(_resolved(x, depth - 1) for x in ast.walk(v) if isinstance(x, ast.Name) and x.id not in wu.pos_params):
                    return True
            return False

        for rt in rec_tests:
            kinds_ = [v for v in _vals(rt.left) if isinstance(v, ast.Call) and isinstance(v.func, ast.Name) and v.func.id == "extract_record_type" and len(v.args) == 1]
            if not kinds_:
                ctx.unrecognised("C09.R3", "record arm", wu.where(rt), f"the kind compared with 'record' is not an extract_record_type(..) result: {norm(rt.left)}")
                continue
            ok_ = any(_resolved(v.args[0]) for v in kinds_)
            ctx.check("C09.R3", "the record arm is entered on the kind of the resolved definition of a by-name branch", ok_, wu.where(rt), f"write_union: `{norm(rt)}` with {[norm(v) for v in kinds_]}", "a branch that refers to a record by name is not scored as a record: the first such branch wins instead of the one sharing most field names")
        if n_tie == 0:
            ctx.unrecognised("C09.R3", "write_union", wu.where(), "record tie-break comparison (running maximum) not found")
        if n_exit == 0:
            ctx.unrecognised("C09.R3", "write_union", wu.where(), "no plain (non-record) selection site found")

    # ---- R4 determinism ----------------------------------------------------------------------------
    ctx.rule("C09.R4", "nothing reachable from write_union reads a nondeterministic source or iterates a set to choose", floor=1)
    reach = a.cg.reachable([wu])
    bad = []
    for f in reach:
        for cs in a.cg.sites.get(f.id, []):
            if cs.external:
                nm = cs.external
                if nm.split(".")[0] in ("random", "time", "secrets") or nm in ("os.urandom", "urandom", "id", "hash", "uuid.uuid4", "uuid.uuid1"):
                    bad.append((f, cs))
        for n in walk_local(f.node):
            if isinstance(n, ast.For) and isinstance(n.iter, ast.Call) and isinstance(n.iter.func, ast.Name) and n.iter.func.id in ("set", "frozenset"):
                bad.append((f, n))
    # time.mktime in the timestamp preparers depends on the process time zone, documented by C16 (naive datetimes): excluded by name
    bad = [(f, x) for (f, x) in bad if not (f.mod.short == "_logical_writers_py" and getattr(x, "external", "") == "time.mktime")]
    ctx.check("C09.R4", f"{len(reach)} functions reachable from write_union are deterministic in (schema, datum)", not bad, wu.where(), f"nondeterministic source in {[f.qualname for f, _ in bad][:3]}", "the branch choice would not be a function of schema and datum alone")

    # ---- R5 record hint -----------------------------------------------------------------------------
    ctx.rule("C09.R5", "'-type' hint: compared with the record's full name in the record validator (the gate of un-hinted selection)", floor=1)
    vr = a.validators.funcs("record")[0]
    full = None
    for n in walk_local(vr.node):
        if isinstance(n, ast.Assign) and isinstance(n.value, ast.Call) and isinstance(n.value.func, ast.Name) and n.value.func.id == "schema_name" and isinstance(n.targets[0], ast.Tuple):
            full = n.targets[0].elts[1].id
    ok = False
    if full:
        for n in walk_local(vr.node):
            if isinstance(n, ast.Compare) and "'-type'" in norm(n) and full in names_in(n) and len(n.ops) == 1 and isinstance(n.ops[0], (ast.NotEq, ast.Eq)):
                ok = True
    ctx.check("C09.R5", "_validate_record: datum['-type'] is compared with the schema's full name", ok, vr.where(), "_validate_record: '-type' handling", "a '-type' hint must select exactly the record branch with that full name")

    # ---- shared ----
    ctx.borrow("C02", {"C02.R1": "C09.R6", "C02.R2": "C09.R7"}, "closure under read/write needs the union index written to be the chosen branch's position followed by that branch's encoding", only=lambda o: any(k in o["instance"] for k in ("union", "array", "map")))
    ctx.borrow("C10", {"C10.R4": "C09.R8"}, "un-hinted selection is gated by the validators: a record validator that sees another value than the writer writes selects a branch the datum is not encoded under")


    ctx.borrow("C10", {"C10.R2": "C09.R9"}, "an un-hinted value is written under the first branch validate accepts: a container validator that accepts without consulting every element makes the writer pick a branch the value does not conform to", only=lambda o: any(k in o.get("instance", "") for k in ("_validate_array", "_validate_map", "_validate_record", "_validate_union", "_validate:")))

    ctx.borrow("C17", {"C17.R1": "C09.R11"}, "the branch chosen must be a function of (schema, datum): a writer that edits the caller's datum while choosing (e.g. strips a hint) makes the next write of the same object choose differently", only=lambda o: "union" in o["where"].split(":")[1] if o["where"].count(":") >= 1 else False)
    ctx.borrow("C02", {"C02.R6": "C09.R12"}, "a (name, value) hint must denote one branch: compared with anything but the branch's full name / type name (a simple name, a suffix) an earlier branch that merely shares that part is chosen instead of the branch named")
    # ---- R10 the reader options reach every nested read --------------------------------------------------------
    ctx.rule("C09.R10", "every nested read (read_data from read_data and from the readers of the READERS table) is given the caller's own options: the options decide whether a named branch comes back as (name, value)", floor=6)
    rd = p.func("_read_py:read_data")
    opt_pos = len(rd.pos_params) - 1
    callers = [rd] + [f for k in sorted(a.readers.keys()) for f in a.readers.funcs(k)]
    # module-level helpers of the readers that do the nested read for them (called directly or through a local that
    # is bound to one of them): the options travel caller -> helper parameter -> read_data
    caller_ids = {f.id for f in callers}
    for h in rd.mod.all_funcs:
        if h.id in caller_ids or h.cls is not None or h.node.name.startswith("__"):
            continue
        inner = [c for c in ast.walk(h.node) if isinstance(c, ast.Call) and isinstance(c.func, ast.Name) and p.resolve_func(h.mod, c.func) is rd]
        if not inner:
            continue
        hps = {getattr(bind_args(rd, c).get(rd.pos_params[opt_pos]), "id", None) for c in inner}
        if len(hps) != 1 or None in hps or next(iter(hps)) not in h.params:
            continue  # not a pass-through helper: its own calls are judged where it is an entry point
        hp = next(iter(hps))
        for f in callers:
            own = f.pos_params[-1] if f.pos_params else None
            for c in ast.walk(f.node):
                if not (isinstance(c, ast.Call) and isinstance(c.func, ast.Name)):
                    continue
                direct = p.resolve_func(f.mod, c.func) is h and c.func.id not in {x.id for x in ast.walk(f.node) if isinstance(x, ast.Name) and isinstance(x.ctx, ast.Store)}
                via = any(isinstance(v, ast.Name) and v.id == h.node.name for v in assigned_values(f.node, c.func.id))
                if not (direct or via):
                    continue
                got = bind_args(h, c).get(hp)
                ok = isinstance(got, ast.Name) and got.id == own and own in f.params
                ctx.check("C09.R10", f"{f.qualname}: nested read through {h.name} receives `{own}`", ok, f.where(c), f"{f.qualname}: {norm(c)[:110]}", "a nested value is read with the default options: with return_named_type / return_record_name set, a union inside it comes back as a bare value, which written back selects a different branch")
    seen_f = set()
    for f in callers:
        if f.id in seen_f:
            continue
        seen_f.add(f.id)
        own = f.pos_params[-1] if f.pos_params else None
        for c in ast.walk(f.node):
            if not (isinstance(c, ast.Call) and isinstance(c.func, ast.Name) and p.resolve_func(f.mod, c.func) is rd):
                continue
            b = bind_args(rd, c)
            got = b.get(rd.pos_params[opt_pos])
            ok = isinstance(got, ast.Name) and got.id == own and own in f.params
            ctx.check("C09.R10", f"{f.qualname}: nested read_data receives `{own}`", ok, f.where(c), f"{f.qualname}: {norm(c)[:110]}", "a nested value is read with the default options: with return_named_type / return_record_name set, a union inside it comes back as a bare value, which written back selects a different branch")
