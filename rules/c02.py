"""C02 Encoder output is the specification's binary encoding — structural obligations."""
import ast

from sa.loader import AnalysisError, norm, walk_local
from sa.shapes import consumption, has_unknown, flat
from sa.cfg import cfg_of
from sa.spec import avro_wire as spec
from .common import analysis, W_NAMES, tokens, names_in
from .c01 import check_shapes

PROP = "C02"
TECHNIQUE = "wire-shape extraction of every writer against the frozen Avro binary-encoding grammar; def-use provenance of length prefixes and indices; CFG dominance for the fixed-size gate and branch selection"
LEVEL_TEXT = (
    "Static analysis: the token term each of the 16 writers emits (after inlining the encoder methods down to stream "
    "writes) is compared with the specification's term for that kind - an external oracle independent of fastavro's own "
    "reader; the source of every length prefix, index and struct value is checked by def-use, the fixed-size gate and the "
    "conformance gate of union branch selection by dominance on the CFG. Holds for all schemas and data because it is a "
    "statement about all paths of the code."
)
LEVEL_NOTE = (
    "Not decided: zig-zag / base-128 arithmetic inside the varint primitive, IEEE-754 bit patterns produced by struct.pack, "
    "that an independent decoder recovers the same value (runtime values). Trusted: spec table sa/spec/avro_wire.py, struct format semantics."
)
ASSUMPTIONS = ["struct.pack('<f'/'<d'/'B') produce little-endian IEEE-754 / one byte (stdlib fact)"]

BOOL_SOURCES = {"(1 if X else 0)", "X", "int(X)", "bool(X)", "int(bool(X))"}
BOOL_INVERTED = {"(0 if X else 1)", "(1 if not X else 0)", "not X"}


def run(ctx):
    a = analysis(ctx.program)
    W = a.writers

    ctx.rule("C02.R1", "writer term is an instance of the specification term (writer <= spec), all kinds", floor=14)
    check_shapes(ctx, a, "C02.R1", ("w",))

    # ---- R2 provenance of lengths, indices and values --------------------------
    ctx.rule("C02.R2", "provenance: length prefix = len() of the very bytes written next; index / value sources", floor=12)
    for kind in sorted(W.keys()):
        base = spec.KIND_ALIAS.get(kind, kind)
        f = W.funcs(kind)[0]
        term = a.shape(f, "w", W_NAMES)
        toks = tokens(term)
        inst = f"WRITERS[{kind}] -> {f.qualname}"

        def chk(ok, what, got):
            ctx.check("C02.R2", f"{inst}: {what}", ok, f.where(), f"{f.qualname}: {what}: {got}", f"{what} is `{got}`")

        if base in ("bytes", "string") and len(toks) == 2 and toks[0][0] == "V" and toks[1][0] == "R":
            chk(toks[0][1] == f"len({toks[1][1]})", "length prefix is len() of the bytes written", f"V({toks[0][1]}) R({toks[1][1]})")
            if base == "string":
                chk(toks[1][1] in ("X.encode()", "X.encode('utf-8')", "X.encode('utf8')", "X.encode('UTF-8')"), "string bytes are the UTF-8 encoding of the datum", toks[1][1])
            else:
                chk(toks[1][1] == "X", "bytes written are the datum", toks[1][1])
        elif base == "boolean" and len(toks) == 1 and toks[0][0] == "P":
            src = toks[0][2]
            if src in BOOL_INVERTED:
                chk(False, "boolean byte source", src)
            elif src in BOOL_SOURCES:
                chk(True, "boolean byte source", src)
            else:
                ctx.unrecognised("C02.R2", inst, f.where(), f"boolean byte computed as `{src}`")
        elif base in ("float", "double", "int", "long") and len(toks) == 1:
            src = toks[0][2] if toks[0][0] == "P" else toks[0][1]
            chk(src == "X", "value written is the datum", src)
        elif base == "fixed" and len(toks) == 1:
            chk(toks[0][1] == "X", "raw bytes written are the datum", toks[0][1])
        elif base == "enum" and len(toks) == 1:
            chk(toks[0][1] == "S['symbols'].index(X)", "enum index is the position of the symbol in schema['symbols']", toks[0][1])
        elif base == "union":
            vs = [t for t in toks if t[0] == "V"]
            ds = [t for t in toks if t[0] == "D"]
            ok = len(vs) == 1 and len(ds) == 1 and vs[0][1].startswith("$") and ds[0][2] == f"S[{vs[0][1]}]"
            chk(ok, "index written is the index of the branch whose schema encodes the value", f"V({vs[0][1] if vs else '?'}) D({ds[0][2] if ds else '?'})")
        elif base == "array":
            ds = [t for t in toks if t[0] == "D"]
            chk(len(ds) == 1 and ds[0][3] == "each(X)", "array items written are the datum's elements in order", ds[0][3] if ds else "?")
        elif base == "map":
            ds = [t for t in toks if t[0] == "D"]
            rs = [t for t in toks if t[0] == "R"]
            chk(len(ds) == 1 and ds[0][3] == "each(X.items())[1]", "map value written belongs to the key written before it", ds[0][3] if ds else "?")
            chk(len(rs) == 1 and rs[0][1].startswith("each(X.items())[0].encode("), "map key bytes are the UTF-8 encoding of the key", rs[0][1] if rs else "?")

    # ---- R3 fixed size gate ---------------------------------------------------------
    ctx.rule("C02.R3", "WRITERS['fixed']: a raise guarded by len(datum) vs schema['size'] dominates the raw write", floor=1)
    f = W.funcs("fixed")[0]
    fixed_gate(ctx, a, f, "C02.R3")

    # ---- R4 selected branch conforms -------------------------------------------------
    ctx.rule("C02.R4", "write_union (no hint): every choice of a branch index is dominated by _validate(datum, candidate) true, or the float->double deferral", floor=3)
    union_selection(ctx, a, W.funcs("union")[0], "C02.R4")

    # ---- R5 default substitution keyed on absence -------------------------------------
    ctx.rule("C02.R5", "write_record: a field's default is substituted only when the key is absent from the datum", floor=1)
    record_defaults(ctx, a, W.funcs("record")[0], "C02.R5")


def fixed_gate(ctx, a, f, rule):
    cfg = cfg_of(f)
    params = f.pos_params
    datum, schema = params[1], params[2]
    writes = [n for n in walk_local(f.node) if isinstance(n, ast.Call) and isinstance(n.func, ast.Attribute) and n.func.attr == "write_fixed"]
    if not writes:
        raise AnalysisError("WRITERS['fixed'] has no write_fixed call")
    for w in writes:
        node = cfg.node_of(w)
        ok = False
        why = "no dominating comparison of len(datum) with schema['size'] whose failing edge raises"
        for (t, lab) in cfg.guards_of(node):
            e = t.ast
            if not (isinstance(e, ast.Compare) and len(e.ops) == 1):
                continue
            txt = norm(e)
            if f"len({datum})" not in txt or f"{schema}['size']" not in txt:
                continue
            op = type(e.ops[0])
            other = "true" if lab == "false" else "false"
            raises = all(m.kind == "raise" or _only_raises(cfg, m) for (m, l) in t.succ if l == other)
            if op is ast.NotEq and lab == "false" and raises:
                ok = True
            elif op is ast.Eq and lab == "true" and raises:
                ok = True
            else:
                why = f"the gate `{txt}` does not reject every length other than schema['size']"
        ctx.check(rule, f"{f.qualname}: size gate before write_fixed", ok, f.where(w), f"{f.qualname}: size gate", why)


def _only_raises(cfg, node):
    """all paths from node reach the exceptional exit without reaching the normal exit"""
    reach = {node} | cfg.reachable_from(node)
    return cfg.exit not in reach


def union_selection(ctx, a, f, rule):
    cfg = cfg_of(f)
    # the variable written as the index
    term = a.shape(f, "w", W_NAMES)
    vs = [t for t in tokens(term) if t[0] == "V"]
    if len(vs) != 1 or not vs[0][1].startswith("$"):
        ctx.unrecognised(rule, f.qualname, f.where(), "index written is not a single local variable")
        return
    # the shape extractor already resolved `index = best_match_index` copies: the
    # variable named in the V token is the one the selection logic assigns
    feed = {vs[0][1][1:]}
    # validators float/double identical -> the deferral to a later 'double' branch is justified
    V = a.validators
    float_is_double = V.funcs("float") == V.funcs("double") and bool(V.funcs("float"))
    datum = f.pos_params[1]
    n_sites = 0
    for n in walk_local(f.node):
        if not (isinstance(n, ast.Assign) and len(n.targets) == 1 and isinstance(n.targets[0], ast.Name) and n.targets[0].id in feed):
            continue
        if isinstance(n.value, ast.Name) and n.value.id in feed:
            continue  # copy
        if isinstance(n.value, ast.UnaryOp) or (isinstance(n.value, ast.Constant) and isinstance(n.value.value, int) and n.value.value < 0):
            continue  # sentinel initialisation
        node = cfg.node_of(n)
        guards = cfg.guards_of(node)
        gtxt = [(norm(t.ast), lab) for (t, lab) in guards]
        hinted = any("isinstance" in g and "tuple" in g and lab == "true" for g, lab in gtxt)
        validated = any(_is_validate_call(a, f, t.ast) and lab == "true" for (t, lab) in guards)
        deferral = any(("'double'" in g or '"double"' in g) and "==" in g and lab == "true" for g, lab in gtxt)
        n_sites += 1
        if hinted:
            named = any("==" in g and lab == "true" and "name" in g for g, lab in gtxt)
            ctx.check(rule, f"{f.qualname}: hinted choice `{norm(n)}`", named, f.where(n), f"{f.qualname}: {norm(n)}", "in the tuple arm the index is chosen without comparing the hint with the branch name")
        elif validated:
            ctx.holds(rule, f"{f.qualname}: choice `{norm(n)}` under _validate true", f.where(n))
        elif deferral and float_is_double:
            ctx.holds(rule, f"{f.qualname}: float->double deferral `{norm(n)}`", f.where(n), "VALIDATORS['float'] is VALIDATORS['double']")
        else:
            ctx.violation(rule, f"{f.qualname}: choice `{norm(n)}`", f.where(n), f"{f.qualname}: {norm(n)} guards={[g for g, _ in gtxt]}", "a branch index is selected on a path where the datum was not validated against that branch")
    # sentinel never reaches the write: from each sentinel init, the write is reachable only through another assignment or the == -1 -> raise test
    widx = [n for n in walk_local(f.node) if isinstance(n, ast.Call) and isinstance(n.func, ast.Attribute) and n.func.attr == "write_index"]
    if len(widx) != 1:
        ctx.unrecognised(rule, f.qualname, f.where(), "expected exactly one write_index call")
        return
    wnode = cfg.node_of(widx[0])
    assigns = [cfg.node_of(n) for n in walk_local(f.node) if isinstance(n, ast.Assign) and len(n.targets) == 1 and isinstance(n.targets[0], ast.Name) and n.targets[0].id in feed and not (isinstance(n.value, ast.UnaryOp) or (isinstance(n.value, ast.Constant) and isinstance(n.value.value, int) and n.value.value < 0)) and not (isinstance(n.value, ast.Name) and n.value.id in feed)]
    for n in walk_local(f.node):
        if isinstance(n, ast.Assign) and len(n.targets) == 1 and isinstance(n.targets[0], ast.Name) and n.targets[0].id in feed and (isinstance(n.value, ast.UnaryOp) or (isinstance(n.value, ast.Constant) and isinstance(n.value.value, int) and n.value.value < 0)):
            init = cfg.node_of(n)
            # edges that leave a `var == -1` test on its false side are the "found" continuation
            skip = set()
            for t in cfg.nodes:
                if t.kind == "test" and isinstance(t.ast, ast.Compare) and len(t.ast.ops) == 1 and isinstance(t.ast.ops[0], ast.Eq) and isinstance(t.ast.left, ast.Name) and t.ast.left.id in feed:
                    for (m, lab) in t.succ:
                        if lab == "false":
                            skip.add((t, m, lab))
            reach = cfg.reachable_from(init, avoid=assigns, skip_edges=skip)
            ctx.check(rule, f"{f.qualname}: no-match sentinel cannot reach write_index", wnode not in reach, f.where(n), f"{f.qualname}: sentinel {norm(n)} reaches write_index", "when no branch matches, the sentinel index can reach the write instead of raising")


def _is_validate_call(a, f, e):
    for c in ast.walk(e):
        if isinstance(c, ast.Call):
            g = a.p.resolve_func(f.mod, c.func) if isinstance(c.func, (ast.Name, ast.Attribute)) else None
            if g is not None and g.name == "_validate":
                return True
    return False


def record_defaults(ctx, a, f, rule):
    """`field.get('default')` / field['default'] may flow into the written value only as the fallback of
    datum.get(name, <default>) or under a guard that tests the key's absence (name not in datum)."""
    cfg = cfg_of(f)
    datum = f.pos_params[1]
    found = 0
    for n in walk_local(f.node):
        is_default = (
            isinstance(n, ast.Call) and isinstance(n.func, ast.Attribute) and n.func.attr == "get" and n.args and isinstance(n.args[0], ast.Constant) and n.args[0].value == "default"
        ) or (isinstance(n, ast.Subscript) and isinstance(n.slice, ast.Constant) and n.slice.value == "default" and isinstance(n.ctx, ast.Load))
        if not is_default:
            continue
        par = a.parent(f.mod, n)
        found += 1
        if isinstance(par, ast.Call) and isinstance(par.func, ast.Attribute) and par.func.attr == "get" and isinstance(par.func.value, ast.Name) and par.func.value.id == datum and len(par.args) == 2 and par.args[1] is n:
            ctx.holds(rule, f"{f.qualname}: default as fallback of {datum}.get(name, default)", f.where(n))
            continue
        node = cfg.node_of(n)
        guards = [(norm(t.ast), lab) for (t, lab) in cfg.guards_of(node)]
        absent = any((f"not in {datum}" in g and lab == "true") or (f" in {datum}" in g and "not in" not in g and lab == "false") for g, lab in guards)
        ctx.check(rule, f"{f.qualname}: default used under an absence test", absent, f.where(n), f"{f.qualname}: {norm(par) if par is not None else norm(n)}", "the field default is substituted on a condition other than the key being absent (an explicit value such as None would be replaced)")
    if found == 0:
        ctx.unrecognised(rule, f.qualname, f.where(), "no use of the field default found in the record writer")
