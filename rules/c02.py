"""C02 Encoder output is the specification's binary encoding — structural obligations."""
import ast
import re

from sa.loader import AnalysisError, norm, walk_local
from sa.shapes import consumption, has_unknown, flat
from sa.cfg import cfg_of
from sa.spec import avro_wire as spec
from .common import true_facts, analysis, W_NAMES, tokens, names_in, value_sources, assigned_values
from .c01 import check_shapes

PROP = "C02"
TECHNIQUE = "wire-shape extraction of every writer against the frozen Avro binary-encoding grammar; def-use provenance of length prefixes and indices; CFG dominance for the fixed-size gate; forward provenance dataflow (constants, loop variables, selections) for the union index; path-summary extraction of the name a hint is compared with"
LEVEL_TEXT = (
    "Static analysis: the token term each of the 16 writers emits (after inlining the encoder methods down to stream "
    "writes) is compared with the specification's term for that kind - an external oracle independent of fastavro's own "
    "reader; the source of every length prefix, index and struct value is checked by def-use, the fixed-size gate and the "
    "conformance gate of union branch selection by dominance on the CFG. Holds for all schemas and data because it is a "
    "statement about all paths of the code."
)
LEVEL_NOTE = (
    "Not decided: zig-zag / base-128 arithmetic inside the varint primitive, IEEE-754 bit patterns produced by struct.pack, "
    "that an independent decoder recovers the same value (runtime values). Trusted: spec table sa/spec/avro_wire.py, struct format semantics."
)
ASSUMPTIONS = ["struct.pack('<f'/'<d'/'B') produce little-endian IEEE-754 / one byte (stdlib fact)"]

BOOL_SOURCES = {"(1 if X else 0)", "X", "int(X)", "bool(X)", "int(bool(X))"}
BOOL_INVERTED = {"(0 if X else 1)", "(1 if not X else 0)", "not X"}


def run(ctx):
    a = analysis(ctx.program)
    W = a.writers

    ctx.rule("C02.R1", "writer term is an instance of the specification term (writer <= spec), all kinds", floor=14)
    check_shapes(ctx, a, "C02.R1", ("w",))

    # ---- R2 provenance of lengths, indices and values --------------------------
    ctx.rule("C02.R2", "provenance: length prefix = len() of the very bytes written next; index / value sources", floor=12)
    for kind in sorted(W.keys()):
        base = spec.KIND_ALIAS.get(kind, kind)
        f = W.funcs(kind)[0]
        term = a.shape(f, "w", W_NAMES)
        toks = tokens(term)
        inst = f"WRITERS[{kind}] -> {f.qualname}"
        if has_unknown(term):
            ctx.unrecognised("C02.R2", inst, f.where(), f"constructs not modelled by the shape extractor: {has_unknown(term)}")
            continue

        def chk(ok, what, got):
            ctx.check("C02.R2", f"{inst}: {what}", ok, f.where(), f"{f.qualname}: {what}: {got}", f"{what} is `{got}`")

        if base in ("bytes", "string") and len(toks) == 2 and toks[0][0] == "V" and toks[1][0] == "R":
            chk(toks[0][1] == f"len({toks[1][1]})", "length prefix is len() of the bytes written", f"V({toks[0][1]}) R({toks[1][1]})")
            if base == "string":
                chk(toks[1][1] in ("X.encode()", "X.encode('utf-8')", "X.encode('utf8')", "X.encode('UTF-8')"), "string bytes are the UTF-8 encoding of the datum", toks[1][1])
            else:
                chk(toks[1][1] == "X", "bytes written are the datum", toks[1][1])
        elif base == "boolean" and len(toks) == 1 and toks[0][0] == "P":
            src = toks[0][2]
            if src in BOOL_INVERTED:
                chk(False, "boolean byte source", src)
            elif src in BOOL_SOURCES:
                chk(True, "boolean byte source", src)
            else:
                ctx.unrecognised("C02.R2", inst, f.where(), f"boolean byte computed as `{src}`")
        elif base in ("float", "double", "int", "long") and len(toks) == 1:
            src = toks[0][2] if toks[0][0] == "P" else toks[0][1]
            chk(src == "X", "value written is the datum", src)
        elif base == "fixed" and len(toks) == 1:
            chk(toks[0][1] == "X", "raw bytes written are the datum", toks[0][1])
        elif base == "enum" and len(toks) == 1:
            chk(toks[0][1] == "S['symbols'].index(X)", "enum index is the position of the symbol in schema['symbols']", toks[0][1])
        elif base == "union":
            vs = [t for t in toks if t[0] == "V"]
            ds = [t for t in toks if t[0] == "D"]
            ok = len(vs) == 1 and len(ds) == 1 and vs[0][1].startswith("$") and ds[0][2] == f"S[{vs[0][1]}]"
            chk(ok, "index written is the index of the branch whose schema encodes the value", f"V({vs[0][1] if vs else '?'}) D({ds[0][2] if ds else '?'})")
        elif base == "array":
            ds = [t for t in toks if t[0] == "D"]
            chk(len(ds) == 1 and ds[0][3] == "each(X)", "array items written are the datum's elements in order", ds[0][3] if ds else "?")
        elif base == "map":
            ds = [t for t in toks if t[0] == "D"]
            rs = [t for t in toks if t[0] == "R"]
            chk(len(ds) == 1 and ds[0][3] == "each(X.items())[1]", "map value written belongs to the key written before it", ds[0][3] if ds else "?")
            chk(len(rs) == 1 and rs[0][1].startswith("each(X.items())[0].encode("), "map key bytes are the UTF-8 encoding of the key", rs[0][1] if rs else "?")

    # ---- R3 fixed size gate ---------------------------------------------------------
    ctx.rule("C02.R3", "WRITERS['fixed']: a raise guarded by len(datum) vs schema['size'] dominates the raw write", floor=1)
    f = W.funcs("fixed")[0]
    fixed_gate(ctx, a, f, "C02.R3")

    # ---- R4 selected branch conforms -------------------------------------------------
    ctx.rule("C02.R4", "write_union (no hint): every choice of a branch index is dominated by _validate(datum, candidate) true, or the float->double deferral", floor=3)
    union_selection(ctx, a, W.funcs("union")[0], "C02.R4")

    # ---- R5 default substitution keyed on absence -------------------------------------
    ctx.rule("C02.R5", "write_record: a field's default is substituted only when the key is absent from the datum", floor=1)
    record_defaults(ctx, a, W.funcs("record")[0], "C02.R5")

    # ---- R7 the only conversion of a field's value ---------------------------------------------------------------
    ctx.rule("C02.R7", "write_record converts a field's value (float(..)) only when the field's type is exactly float or double; nothing else rebinds the value handed to write_data", floor=1)
    wr = W.funcs("record")[0]
    wcfg = cfg_of(wr)
    wcalls = [c for c in ast.walk(wr.node) if isinstance(c, ast.Call) and isinstance(c.func, ast.Name) and c.func.id == "write_data" and len(c.args) >= 3]
    if len(wcalls) != 1 or not isinstance(wcalls[0].args[1], ast.Name):
        ctx.unrecognised("C02.R7", "write_record", wr.where(), "expected one write_data(encoder, <value variable>, <field type>, ..) call")
    else:
        vv = wcalls[0].args[1].id
        ftype = norm(wcalls[0].args[2])
        conv = [n for n in walk_local(wr.node) if isinstance(n, ast.Assign) and any(isinstance(t, ast.Name) and t.id == vv for t in n.targets) and any(isinstance(x, ast.Name) and x.id == vv for x in ast.walk(n.value))]
        if not conv:
            ctx.holds("C02.R7", "write_record: the value is never converted", wr.where())
        for n in conv:
            facts = true_facts(wcfg, wcfg.node_of(n))
            pinned = any(re.fullmatch(re.escape(ftype) + r" in \('(float|double)', '(float|double)'\)|" + re.escape(ftype) + r" == '(float|double)'", x) for x in facts)
            ok = pinned and norm(n.value) == f"float({vv})"
            ctx.check("C02.R7", f"write_record: `{norm(n)[:50]}` only for a field of type float / double", ok, wr.where(n), f"write_record: {norm(n)[:60]} under {sorted(facts)[:4]}", "a value that conforms to another branch or type (a string such as '12' or 'nan' in a union with a double branch) is rewritten before it is encoded: the bytes are not the encoding of the datum under the branch it conforms to")

    # ---- R6 the name a (name, value) hint is compared with ------------------------------------------------------
    ctx.rule("C02.R6", "tuple notation: the hint is compared, by equality, with the branch's full name (named types) or its type name, nothing else", floor=1)
    from .c09 import label_cases

    wu6 = a.writers.funcs("union")[0]
    lc = label_cases(wu6)
    if lc is None or not lc["cases"]:
        ctx.unrecognised("C02.R6", "write_union", wu6.where(), "tuple arm with a `hint == label` comparison not found")
    else:
        labels = {l for (_c, l) in lc["cases"]}
        allowed = {"CAND['name']", "extract_record_type(CAND)", "CAND"}
        extra = sorted(l for l in labels if l not in allowed and not l.endswith("['name']"))
        ctx.check("C02.R6", "write_union: a hint selects a branch only by its full name / type name", not extra, wu6.where(), f"write_union: hint compared with {sorted(labels)}", "a hint is also matched against something that is not the branch's full name (a short or partial name can denote another branch): the index written is not the one the hint names")

    # ---- R9 the value written under the chosen branch is the caller's ------------------------------------------
    ctx.rule("C02.R9", "write_union: the value handed to the chosen branch is the datum itself, the value half of a (name, value) hint, or what a logical-type preparer returned for it", floor=1)
    wu9 = a.writers.funcs("union")[0]
    D9 = wu9.pos_params[1]
    finals = [c for c in walk_local(wu9.node) if isinstance(c, ast.Call) and isinstance(c.func, ast.Name) and a.p.resolve_func(wu9.mod, c.func) is not None and a.p.resolve_func(wu9.mod, c.func).name == "write_data" and len(c.args) >= 2]
    if not finals:
        ctx.unrecognised("C02.R9", "write_union", wu9.where(), "no write_data(encoder, <value>, schema[index], ..) call")
    for c in finals:
        arg = c.args[1]
        if not isinstance(arg, ast.Name):
            ctx.unrecognised("C02.R9", "write_union: value written", wu9.where(c), f"the value written is `{norm(arg)[:60]}`, not a variable")
            continue
        bad = []
        n_src = 0

        def is_prepare(fn):
            return (isinstance(fn, ast.Name) and "LOGICAL_WRITERS" in " ".join(norm(s_) for s_ in assigned_values(wu9.node, fn.id))) or "LOGICAL_WRITERS" in norm(fn)

        seen9 = set()

        def from_datum(name_node, depth=6):
            """the name holds the datum, the value half of a hint, or what a preparer made of one of those (a value that
            only depends on itself through the loop is judged by its other sources)"""
            if depth == 0:
                return False
            srcs_ = value_sources(a, wu9, name_node)
            if not srcs_:
                return False
            for k_, v_ in srcs_:
                if k_ == "param" and v_.arg == D9:
                    continue
                if k_ == "unpack":
                    continue
                if k_ == "expr" and id(v_) in seen9:
                    continue
                if k_ == "expr" and isinstance(v_, ast.Call) and is_prepare(v_.func):
                    seen9.add(id(v_))
                    if any(isinstance(x, ast.Name) and from_datum(x, depth - 1) for x in v_.args):
                        continue
                    return False
                if k_ == "expr" and isinstance(v_, ast.Subscript) and isinstance(v_.value, ast.Name) and v_.value.id == D9 and isinstance(v_.slice, ast.Constant) and v_.slice.value == 1:
                    continue
                return False
            return True

        for k, v in value_sources(a, wu9, arg):
            n_src += 1
            if k == "param" and v.arg == D9:
                continue
            if k == "unpack":
                continue  # name, datum = datum (hint): the origin of the tuple is judged by C09.R1
            if k == "expr" and isinstance(v, ast.Call) and is_prepare(v.func) and (seen9.add(id(v)) or True) and any(isinstance(x, ast.Name) and from_datum(x) for x in v.args):
                continue
            if k == "expr" and isinstance(v, ast.Subscript) and isinstance(v.value, ast.Name) and v.value.id == D9 and isinstance(v.slice, ast.Constant) and v.slice.value == 1:
                continue  # datum[1] of a hint tuple
            bad.append((k, v))
        if n_src == 0:
            ctx.unrecognised("C02.R9", "write_union: value written", wu9.where(c), "no source found for the value written")
        else:
            ctx.check("C02.R9", "write_union: the value written under the chosen branch is the caller's", not bad, wu9.where(bad[0][1]) if bad and hasattr(bad[0][1], "lineno") else wu9.where(c), f"write_union: {arg.id} can be `{norm(bad[0][1])[:80]}`" if bad else "", "the value is rebuilt before it is written (entries dropped, copied or converted) whatever branch was chosen: under a branch where those entries are data (a map that has that key) other bytes than the datum's encoding are written")

    # ---- shared ----
    ctx.borrow("C01", {"C01.R14": "C02.R11"}, "the encoding of a conforming datum exists only if the writer and the encoder primitive for its type accept it: a range or sanity check that also hits a legal value (the ends of the int range, the float infinities) leaves that datum without an encoding")
    ctx.borrow("C10", {"C10.R8": "C02.R10"}, "the encoders compute lengths with len() and write the object as it is: exact for the Python types the validators accept today (bytes, bytearray, str, ..); a validator that lets another type through (a memoryview counts items, not bytes) makes the writer emit a length prefix that is not the number of bytes that follow")
    ctx.borrow("C10", {"C10.R2": "C02.R8"}, "an un-hinted union value is encoded under the first branch the validators accept: a container validator that accepts without consulting every element selects a branch the value does not conform to, and the bytes are not the encoding of the datum under a conforming branch")


def fixed_gate(ctx, a, f, rule):
    cfg = cfg_of(f)
    params = f.pos_params
    datum, schema = params[1], params[2]
    writes = [n for n in walk_local(f.node) if isinstance(n, ast.Call) and isinstance(n.func, ast.Attribute) and n.func.attr == "write_fixed"]
    if not writes:
        raise AnalysisError("WRITERS['fixed'] has no write_fixed call")
    for w in writes:
        node = cfg.node_of(w)
        ok = False
        why = "no dominating comparison of len(datum) with schema['size'] whose failing edge raises"
        for (t, lab) in cfg.guards_of(node):
            e = t.ast
            if not (isinstance(e, ast.Compare) and len(e.ops) == 1):
                continue
            txt = norm(e)
            if f"len({datum})" not in txt or f"{schema}['size']" not in txt:
                continue
            op = type(e.ops[0])
            other = "true" if lab == "false" else "false"
            raises = all(m.kind == "raise" or _only_raises(cfg, m) for (m, l) in t.succ if l == other)
            if op is ast.NotEq and lab == "false" and raises:
                ok = True
            elif op is ast.Eq and lab == "true" and raises:
                ok = True
            else:
                why = f"the gate `{txt}` does not reject every length other than schema['size']"
        ctx.check(rule, f"{f.qualname}: size gate before write_fixed", ok, f.where(w), f"{f.qualname}: size gate", why)


def _only_raises(cfg, node):
    """all paths from node reach the exceptional exit without reaching the normal exit"""
    reach = {node} | cfg.reachable_from(node)
    return cfg.exit not in reach


def union_selection(ctx, a, f, rule):
    """Provenance of the index written by write_union: a forward may-dataflow over the CFG.

    Abstract values of a local:  ("const", c)   a literal (the no-match sentinel)
                                 ("loop", L)    the variable of loop L, not yet selected
                                 ("sel", ok, site)  a value taken from a loop variable at `site` (an assignment,
                                                or the `break` that leaves the loop), ok = the guards there justify it
    Tests on a variable that may still be a constant drop the constant on the edge it cannot take (so any
    spelling of the sentinel test works: == -1, < 0, is None, for/else without sentinel).  At write_index the
    index must be ("sel", True, _) only."""
    cfg = cfg_of(f)
    widx = [n for n in walk_local(f.node) if isinstance(n, ast.Call) and isinstance(n.func, ast.Attribute) and n.func.attr == "write_index"]
    if len(widx) != 1 or not widx[0].args or not isinstance(widx[0].args[0], ast.Name):
        ctx.unrecognised(rule, f.qualname, f.where(), "expected exactly one write_index(<local variable>) call")
        return
    ivar = widx[0].args[0].id
    wnode = cfg.node_of(widx[0])
    V = a.validators
    float_is_double = V.funcs("float") == V.funcs("double") and bool(V.funcs("float"))

    def justified(node):
        guards = cfg.guards_of(node)
        gtxt = [(norm(t.ast), lab) for (t, lab) in guards]
        hinted = any("isinstance" in g and "tuple" in g and lab == "true" for g, lab in gtxt)
        validated = any(_is_validate_call(a, f, t.ast) and lab == "true" for (t, lab) in guards)
        deferral = any(("'double'" in g) and "==" in g and lab == "true" for g, lab in gtxt)
        if deferral and float_is_double and not validated and not hinted:
            # the kind of the later branch is what is compared, never the branch schema itself (it may be in dict form)
            cand_names = set().union(*loops.values()) if loops else set()
            for (t, lab) in guards:
                if lab == "true" and isinstance(t.ast, ast.Compare) and len(t.ast.ops) == 1 and isinstance(t.ast.ops[0], ast.Eq):
                    sides = [t.ast.left, t.ast.comparators[0]]
                    if any(isinstance(x, ast.Constant) and x.value == "double" for x in sides) and any(isinstance(x, ast.Name) and x.id in cand_names for x in sides):
                        return False, ("float->double deferral", "the branch schema itself is compared with 'double': a double branch written in dict form ({'type': 'double', ..}) is not recognised and the value stays in the 4-byte float branch")
        if hinted:
            named = any("==" in g and lab == "true" and "name" in g for g, lab in gtxt)
            return named, ("hinted choice", "in the tuple arm the index is chosen without comparing the hint with the branch name")
        if validated:
            return True, ("choice under _validate true", "")
        if deferral and float_is_double:
            return True, ("float->double deferral (VALIDATORS['float'] is VALIDATORS['double'])", "")
        return False, ("choice", "a branch index is selected on a path where the datum was not validated against that branch")

    loops = {}  # iter node -> loop target names
    for n in cfg.nodes:
        if n.kind == "iter":
            loops[n] = {x.id for x in ast.walk(n.ast.elts[1]) if isinstance(x, ast.Name)}
    # which loop a break leaves: the innermost enclosing For
    parents = {}
    for x in ast.walk(f.node):
        for c in ast.iter_child_nodes(x):
            parents[id(c)] = x

    def loop_of(stmt):
        x = parents.get(id(stmt))
        while x is not None and not isinstance(x, (ast.For, ast.While)):
            x = parents.get(id(x))
        if isinstance(x, ast.For):
            return cfg.node_of(x.iter)
        return None

    from sa import guards as _g

    state = {cfg.entry: {}}
    work = [cfg.entry]
    sites = {}  # site node -> (ok, description)
    rounds = 0
    while work and rounds < 20000:
        rounds += 1
        n = work.pop()
        env = state[n]
        out = {k: set(v) for k, v in env.items()}
        s = n.ast if n.kind == "stmt" else None
        if n.kind == "iter":
            for v in loops[n]:
                out[v] = {("loop", n.id)}
        elif isinstance(s, ast.Assign) and len(s.targets) == 1 and isinstance(s.targets[0], ast.Name):
            t = s.targets[0].id
            cv = _g.value_of(s.value, {})
            if not isinstance(cv, _g._NoVal) and not isinstance(s.value, (ast.List, ast.Tuple, ast.Set)):
                out[t] = {("const", cv)}
            elif isinstance(s.value, ast.Name):
                vals = set()
                for av in env.get(s.value.id, {("other",)}):
                    if av[0] == "loop":
                        ok, desc = justified(n)
                        sites[n] = (ok, desc, norm(s))
                        vals.add(("sel", ok, n.id))
                    else:
                        vals.add(av)
                out[t] = vals
            else:
                out[t] = {("other",)}
        elif isinstance(s, ast.Assign):
            for x in ast.walk(s):
                if isinstance(x, ast.Name) and isinstance(x.ctx, ast.Store):
                    # tuple assignment: element-wise when both sides are tuples of names
                    out[x.id] = {("other",)}
            if len(s.targets) == 1 and isinstance(s.targets[0], ast.Tuple) and isinstance(s.value, ast.Tuple) and len(s.targets[0].elts) == len(s.value.elts):
                for tt, vv in zip(s.targets[0].elts, s.value.elts):
                    if isinstance(tt, ast.Name) and isinstance(vv, ast.Name):
                        vals = set()
                        for av in env.get(vv.id, {("other",)}):
                            if av[0] == "loop":
                                ok, desc = justified(n)
                                sites[n] = (ok, desc, norm(s))
                                vals.add(("sel", ok, n.id))
                            else:
                                vals.add(av)
                        out[tt.id] = vals
        elif isinstance(s, ast.Break):
            lp = loop_of(s)
            if lp is not None:
                ok, desc = justified(n)
                for v in loops.get(lp, ()):
                    if ("loop", lp.id) in out.get(v, ()):
                        sites[n] = (ok, desc, f"break with {v}")
                        out[v] = (out[v] - {("loop", lp.id)}) | {("sel", ok, n.id)}
        for (m, lab) in n.succ:
            if lab == "exc":
                continue
            o2 = out
            if n.kind == "test" and lab in ("true", "false"):
                # filter constants the edge cannot carry
                names = names_in(n.ast)
                for v in names:
                    cs = [av for av in out.get(v, ()) if av[0] == "const"]
                    if cs:
                        keep = set(out[v])
                        for av in cs:
                            r = _g.eval_bool(n.ast, {v: av[1]})
                            if r is not None and r != (lab == "true"):
                                keep.discard(av)
                        if keep != out[v]:
                            o2 = dict(out)
                            o2[v] = keep
                            if not keep and len(out[v]) > 0 and all(av[0] == "const" for av in out[v]):
                                o2 = None  # edge infeasible for every value
                                break
            if o2 is None:
                continue
            if n.kind == "iter" and lab == "exhausted":
                o2 = dict(o2)
                for v in loops[n]:
                    if ("loop", n.id) in o2.get(v, ()):
                        o2[v] = (o2[v] - {("loop", n.id)}) | {("last", n.id)}
            old = state.get(m)
            if old is None:
                state[m] = {k: set(v) for k, v in o2.items()}
                work.append(m)
            else:
                changed = False
                for k, v in o2.items():
                    if not v <= old.get(k, set()):
                        old.setdefault(k, set()).update(v)
                        changed = True
                if changed:
                    work.append(m)
    final = state.get(wnode, {}).get(ivar)
    if final is None:
        ctx.unrecognised(rule, f.qualname, f.where(widx[0]), f"no provenance for `{ivar}` at write_index")
        return
    for n, (ok, (what, why), text) in sorted(sites.items(), key=lambda kv: kv[0].id):
        inst = f"{f.qualname}: {what} `{text}`"
        if ok:
            ctx.holds(rule, inst, f.where(n.ast))
        elif any(av == ("sel", False, n.id) for av in final):
            ctx.violation(rule, inst, f.where(n.ast), f"{f.qualname}: {text} guards={[norm(t.ast) for t, _ in cfg.guards_of(n)]}", why)
    consts = [av for av in final if av[0] == "const"]
    ctx.check(rule, f"{f.qualname}: no-match sentinel cannot reach write_index", not consts, f.where(widx[0]), f"{f.qualname}: sentinel {ivar} = {[av[1] for av in consts]} reaches write_index", "when no branch matches, the sentinel index can reach the write instead of raising")
    other = [av for av in final if av[0] in ("loop", "last", "other")]
    ctx.check(rule, f"{f.qualname}: the index written is always a selected branch index", not other, f.where(widx[0]), f"{f.qualname}: {ivar} may be {sorted(set(av[0] for av in other))} at write_index", "the index written is not the result of a selection (the last loop value, or a value of unknown origin)")
    return {"cfg": cfg, "sites": sites, "loops": loops, "loop_of": loop_of, "parents": parents}


def _is_validate_call(a, f, e):
    for c in ast.walk(e):
        if isinstance(c, ast.Call):
            g = a.p.resolve_func(f.mod, c.func) if isinstance(c.func, (ast.Name, ast.Attribute)) else None
            if g is not None and g.name == "_validate":
                return True
    return False


def record_defaults(ctx, a, f, rule):
    """`field.get('default')` / field['default'] may flow into the written value only as the fallback of
    datum.get(name, <default>) or under a guard that tests the key's absence (name not in datum)."""
    cfg = cfg_of(f)
    datum = f.pos_params[1]
    found = 0
    for n in walk_local(f.node):
        is_default = (
            isinstance(n, ast.Call) and isinstance(n.func, ast.Attribute) and n.func.attr == "get" and n.args and isinstance(n.args[0], ast.Constant) and n.args[0].value == "default"
        ) or (isinstance(n, ast.Subscript) and isinstance(n.slice, ast.Constant) and n.slice.value == "default" and isinstance(n.ctx, ast.Load))
        if not is_default:
            continue
        par = a.parent(f.mod, n)
        found += 1
        if isinstance(par, ast.Call) and isinstance(par.func, ast.Attribute) and par.func.attr == "get" and isinstance(par.func.value, ast.Name) and par.func.value.id == datum and len(par.args) == 2 and par.args[1] is n:
            ctx.holds(rule, f"{f.qualname}: default as fallback of {datum}.get(name, default)", f.where(n))
            continue
        node = cfg.node_of(n)
        guards = [(norm(t.ast), lab) for (t, lab) in cfg.guards_of(node)]
        absent = any((f"not in {datum}" in g and lab == "true") or (f" in {datum}" in g and "not in" not in g and lab == "false") for g, lab in guards)
        ctx.check(rule, f"{f.qualname}: default used under an absence test", absent, f.where(n), f"{f.qualname}: {norm(par) if par is not None else norm(n)}", "the field default is substituted on a condition other than the key being absent (an explicit value such as None would be replaced)")
        # .. and as the schema gives it: a method of the default or a conversion of it that flows into an assignment is
        # another value than the one the reader substitutes
        if absent:
            conv = None
            if isinstance(par, ast.Attribute) and par.value is n and isinstance(a.parent(f.mod, par), ast.Call) and a.parent(f.mod, par).func is par:
                conv = a.parent(f.mod, par)
            elif isinstance(par, ast.Call) and n in par.args and norm(par.func) not in ("isinstance", "len", "type", "id", "repr") and not (isinstance(par.func, ast.Name) and a.p.resolve_func(f.mod, par.func) is not None):
                conv = par
            if conv is not None:
                st = conv
                while st is not None and not isinstance(st, ast.stmt):
                    st = a.parent(f.mod, st)
                flows = isinstance(st, (ast.Assign, ast.AnnAssign, ast.Return)) and not any(conv is x or any(conv is y for y in ast.walk(x)) for x in ([st.value.test] if isinstance(getattr(st, "value", None), ast.IfExp) else []))
                if flows:
                    ctx.violation(rule, f"{f.qualname}: the default is handed over as the schema gives it", f.where(n), f"{f.qualname}: {norm(conv)[:80]}", "the default written for an absent field is a converted value, not the schema's default: what is encoded differs from what a reader substituting the default returns (and under a union the branch it conforms to changes)")
    if found == 0:
        # the default may be fetched by a helper: then the helper must hand it over as it is
        from sa.pathsum import summaries as _summ

        helper_seen = False
        for c in walk_local(f.node):
            if not (isinstance(c, ast.Call) and isinstance(c.func, ast.Name)):
                continue
            g = a.p.resolve_func(f.mod, c.func)
            if g is None or g.cls is not None or g is f:
                continue
            reads = [n for n in ast.walk(g.node) if (isinstance(n, ast.Call) and isinstance(n.func, ast.Attribute) and n.func.attr == "get" and n.args and isinstance(n.args[0], ast.Constant) and n.args[0].value == "default") or (isinstance(n, ast.Subscript) and isinstance(n.slice, ast.Constant) and n.slice.value == "default" and isinstance(n.ctx, ast.Load))]
            if not reads:
                continue
            helper_seen = True
            plain = {norm(r) for r in reads}
            node = cfg.node_of(c)
            guards = [(norm(t.ast), lab) for (t, lab) in cfg.guards_of(node)]
            absent = any((f"not in {datum}" in g_ and lab == "true") or (f" in {datum}" in g_ and "not in" not in g_ and lab == "false") for g_, lab in guards)
            ctx.check(rule, f"{f.qualname}: default (through {g.name}) used under an absence test", absent, f.where(c), f"{f.qualname}: {norm(c)}", "the field default is substituted on a condition other than the key being absent (an explicit value such as None would be replaced)")
            rets = [s for s in _summ(cfg_of(g), max_paths=500) if s.kind == "return"]
            changed = [s for s in rets if s.text not in plain]
            ctx.check(rule, f"{g.qualname}: the default is handed over as the schema gives it", not changed, g.where(changed[0].node) if changed else g.where(), f"{g.qualname}: returns `{changed[0].text[:80]}` under {sorted(changed[0].facts)[:3]}" if changed else "", "the value written for an absent field is not the schema's default but something computed from it: the record does not read back with the default")
        if not helper_seen:
            ctx.unrecognised(rule, f.qualname, f.where(), "no use of the field default found in the record writer")
