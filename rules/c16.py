"""C16 Logical types — structural obligations."""
import ast
import re

from sa.loader import AnalysisError, norm, walk_local
from sa.cfg import cfg_of
from sa.pathsum import summaries
from sa.spec import logical as spec
from .common import analysis, names_in, assigned_values
from .c02 import fixed_gate

PROP = "C16"
TECHNIQUE = "registry symmetry against the spec's base types; per-path summaries for the placement of prepare / logical read relative to table writer, validator and decoder and for the epoch used on aware / naive / local paths; data-dependence of the decimal rejection guards; emission-length provenance for fixed decimals; numeric-safety lints (context-dependent Decimal methods, float true division)"
LEVEL_TEXT = (
    "Static analysis: LOGICAL_WRITERS and LOGICAL_READERS have the same keys and each key's base type is the specification's; the "
    "preparer runs before the table writer and before the validator, the logical reader after decoding and keyed by the writer schema; "
    "UTC variants use the aware epoch, local variants the naive epoch; both decimal preparers take the digit tuple straight from the "
    "datum, raise under a guard on digits vs precision and one on exponent vs scale, and for fixed a raise comparing the value's bit "
    "length with the size dominates every emission (followed by write_fixed's size gate); no context-dependent Decimal method and no "
    "float true division of large integers is used in the preparers."
)
LEVEL_NOTE = "Not decided: representation and round trip over the whole domain of dates, times, instants and decimals (numerical results; e.g. the two's-complement arithmetic itself)."
ASSUMPTIONS = ["Decimal.normalize()/quantize() round to the ambient context (28 digits by default); int/int true division is exact only below 2**53"]


# Decimal methods whose result is rounded to the ambient context (decimal module documentation); exact ones
# (as_tuple, is_*, copy_*, adjusted, compare_total, __neg__ on the unscaled int, ...) are not listed
CONTEXT_DEPENDENT = {"normalize", "quantize", "to_integral_value", "to_integral", "to_integral_exact", "fma", "sqrt", "scaleb", "shift", "rotate", "exp", "ln", "log10", "logb", "next_minus", "next_plus", "next_toward", "remainder_near", "max", "min", "max_mag", "min_mag", "__round__"}
# position of the `context` parameter of those methods (decimal.Decimal signatures)
CONTEXT_POS = {"normalize": 0, "quantize": 2, "to_integral_value": 1, "to_integral": 1, "to_integral_exact": 1, "fma": 2, "sqrt": 0, "scaleb": 1, "shift": 1, "rotate": 1, "exp": 0, "ln": 0, "log10": 0, "logb": 0, "next_minus": 0, "next_plus": 0, "next_toward": 1, "remainder_near": 1, "max": 1, "min": 1, "max_mag": 1, "min_mag": 1}


def _has_context(call):
    if any(k.arg == "context" for k in call.keywords):
        return True
    pos = CONTEXT_POS.get(call.func.attr)
    return pos is not None and len(call.args) > pos and not any(isinstance(x, ast.Starred) for x in call.args)


def run(ctx):
    a = analysis(ctx.program)
    p = a.p
    LW, LR = a.logical_writers, a.logical_readers

    ctx.rule("C16.R1", "LOGICAL_WRITERS and LOGICAL_READERS have the same keys; each key <base>-<logical> agrees with the specification's base type", floor=20)
    for k in sorted(LW.keys() | LR.keys()):
        ctx.check("C16.R1", f"{k} registered on both sides", k in LW.keys() and k in LR.keys(), LW.mod.relpath + ":LOGICAL_WRITERS", f"{k} missing on one side", "a logical type that is written but not read (or vice versa) does not round-trip")
        base, _, logical = k.partition("-")
        want = spec.BASE.get(logical)
        ok = want is not None and (base == want or (isinstance(want, tuple) and base in want))
        ctx.check("C16.R1", f"{k}: base type per specification", ok, LW.mod.relpath + ":LOGICAL_WRITERS", f"{k}: base {base}, specification {want}", "the logical type annotates a different base type than the specification prescribes")

    ctx.rule("C16.R2", "prepare before the table writer and before the validator; logical reader after decoding, keyed by the writer schema", floor=3)

    TABLES = ("WRITERS", "READERS", "VALIDATORS", "LOGICAL_WRITERS", "LOGICAL_READERS")

    class _Tab(ast.NodeTransformer):
        """T[k] and T.get(k) are one lookup of a dispatch table"""

        def visit_Subscript(self, n):
            self.generic_visit(n)
            if isinstance(n.value, ast.Name) and n.value.id in TABLES and isinstance(n.ctx, ast.Load):
                return ast.Call(func=ast.Attribute(value=n.value, attr="get", ctx=ast.Load()), args=[n.slice], keywords=[])
            return n

    def tab(text):
        try:
            return norm(ast.fix_missing_locations(_Tab().visit(ast.parse(text, mode="eval").body)))
        except SyntaxError:
            return text

    def tsums(f):
        out = []
        for s in summaries(cfg_of(f)):
            if s.kind == "return":
                facts = set()
                for x in s.facts:
                    facts.add(tab(x))
                    m = re.fullmatch(r"(.+) in (" + "|".join(TABLES) + ")", x)
                    if m:
                        facts.add(f"{m.group(2)}.get({m.group(1)})")
                out.append((tab(s.text), facts))
        return out

    def parts(text):
        try:
            c = ast.parse(text, mode="eval").body
        except SyntaxError:
            return None
        if not isinstance(c, ast.Call):
            return None
        return norm(c.func), [norm(x) for x in c.args], {k.arg: norm(k.value) for k in c.keywords if k.arg}

    wd = p.func("_write_py:write_data")
    D, S = wd.pos_params[1], wd.pos_params[2]

    def preps(fc, S_):
        """the lookups of a prepare function that are known to have succeeded on this path (whatever spelling the key
        has, as long as it is computed from the schema: which key is right is C16.R1's business)"""
        out = []
        for x in fc:
            if x.startswith("LOGICAL_WRITERS.get(") and x.endswith(")") and f"not {x}" not in fc and re.search(r"\b" + re.escape(S_) + r"\b", x):
                try:
                    c = ast.parse(x, mode="eval").body
                except SyntaxError:
                    continue
                if isinstance(c, ast.Call) and norm(c.func) == "LOGICAL_WRITERS.get":
                    out.append(x)
        return out

    sums = [(t, fc) for (t, fc) in tsums(wd) if t.startswith("WRITERS.get(")]
    with_prep = [(t, fc) for (t, fc) in sums if preps(fc, S)]
    ok = bool(with_prep) and all((parts(t) or ("", ["", ""], {}))[1][1:2] in [[f"{pr}({D}, {S})"] for pr in preps(fc, S)] for (t, fc) in with_prep) and all((parts(t) or ("", ["", ""], {}))[1][1:2] == [D] for (t, fc) in sums if (t, fc) not in with_prep)
    if not sums:
        ctx.unrecognised("C16.R2", "write_data", wd.where(), "no return of a WRITERS table call found")
    else:
        ctx.check("C16.R2", "write_data: datum = prepare(datum, schema) precedes the table writer, which receives the prepared datum", ok, wd.where(), f"write_data: table writer called as {sorted({t[:110] for (t, fc) in sums})}", "the table writer would encode the unconverted Python value")
    vf = p.func("_validation_py:_validate")
    D, S = vf.pos_params[0], vf.pos_params[1]
    sums = [(t, fc) for (t, fc) in tsums(vf) if t.startswith("VALIDATORS.get(")]
    with_prep = [(t, fc) for (t, fc) in sums if preps(fc, S)]
    ok = bool(with_prep) and all((parts(t) or ("", [""], {}))[1][:1] in [[f"{pr}({d_}, {S})"] for pr in preps(fc, S) for d_ in (D, "None")] for (t, fc) in with_prep)
    if not sums:
        ctx.unrecognised("C16.R2", "_validate", vf.where(), "no return of a VALIDATORS table call found")
    else:
        ctx.check("C16.R2", "_validate: the value is prepared before the per-type validator sees it", ok, vf.where(), f"_validate: validator called as {sorted({t[:100] for (t, fc) in (with_prep or sums)})}", "logical values (datetime, Decimal, UUID) would be rejected by the base-type validators")
    rd = p.func("_read_py:read_data")
    W = rd.pos_params[1]
    lr = f"LOGICAL_READERS.get(extract_logical_type({W}))"
    sums = tsums(rd)
    conv = [(t, fc) for (t, fc) in sums if lr in fc and f"'logicalType' in {W}" in fc and any(x.startswith("READERS.get(") for x in fc)]
    ok = bool(conv)
    for (t, fc) in conv:
        pp_ = parts(t)
        ok = ok and pp_ is not None and pp_[0] == lr and len(pp_[1]) >= 2 and pp_[1][0].startswith("READERS.get(") and pp_[1][1] == W
    ctx.check("C16.R2", "read_data: the logical reader converts the decoded value and is chosen by the writer schema's annotation", ok, rd.where(), f"read_data: logical paths return {sorted({t[:90] for (t, fc) in conv})}", "the conversion must follow decoding and be keyed by what the writer annotated")

    ctx.rule("C16.R3", "UTC variants use the aware epoch, local variants the naive epoch / replace(tzinfo=utc) (sibling agreement)", floor=8)
    lrm = p.module("_logical_readers_py")
    for name, want in (("read_timestamp_millis", "epoch"), ("read_timestamp_micros", "epoch"), ("read_local_timestamp_millis", "epoch_naive"), ("read_local_timestamp_micros", "epoch_naive")):
        f = lrm.functions[name]
        d = f.pos_params[0]
        rets = sorted({s.text for s in summaries(cfg_of(f)) if s.kind == "return"})
        unit = f"{d} * 1000" if "millis" in name else d
        ctx.check("C16.R3", f"{name}: {want} + timedelta(microseconds={unit})", rets == [f"{want} + timedelta(microseconds={unit})"], f.where(), f"{name}: {rets}", "timestamp read with the wrong epoch (aware vs naive) or unit")
    ev = {"epoch": "datetime(1970, 1, 1, tzinfo=timezone.utc)", "epoch_naive": "datetime(1970, 1, 1)"}
    for nm, want in ev.items():
        r = p.resolve(lrm, nm)
        ctx.check("C16.R3", f"readers' {nm} = {want}", r is not None and r[0] == "value" and norm(r[2]).replace("datetime.datetime(", "datetime(").replace("datetime.timezone.", "timezone.") == want, lrm.relpath + ":" + nm, f"{nm} = {norm(r[2]) if r and r[0] == 'value' else r}", "epoch constant differs from 1970-01-01 (UTC-aware / naive)")
    lwm = p.module("_logical_writers_py")
    for name in ("prepare_local_timestamp_millis", "prepare_local_timestamp_micros"):
        f = lwm.functions[name]
        d = f.pos_params[0]
        conv = [s for s in summaries(cfg_of(f)) if s.kind == "return" and s.text != d]
        want = f"({d}.replace(tzinfo=datetime.timezone.utc) - epoch)"
        ok = bool(conv) and all(want in s.text and "epoch_naive" not in s.text and "mktime" not in s.text and "timestamp()" not in s.text for s in conv)
        ctx.check("C16.R3", f"{name}: wall-clock fields taken as if UTC (replace(tzinfo=utc) - epoch)", ok, f.where(), f"{name}: returns {[s.text[:90] for s in conv]}", "local timestamps must not depend on the process time zone")
    for name in ("prepare_timestamp_millis", "prepare_timestamp_micros"):
        f = lwm.functions[name]
        d = f.pos_params[0]
        aware = [s for s in summaries(cfg_of(f)) if s.kind == "return" and f"{d}.tzinfo is not None" in s.facts]
        ok = bool(aware) and all(f"({d} - epoch)" in s.text and "epoch_naive" not in s.text and "mktime" not in s.text for s in aware)
        ctx.check("C16.R3", f"{name}: aware datetimes are measured from the aware epoch", ok, f.where(), f"{name}: aware paths return {[s.text[:90] for s in aware]}", "aware datetimes with any offset must map to units from the UTC epoch")

    ctx.rule("C16.R4", "decimal preparers: digit tuple straight from the datum; a raise guarded by digits vs precision and one by exponent vs scale", floor=6)
    for name in ("prepare_bytes_decimal", "prepare_fixed_decimal"):
        f = lwm.functions[name]
        cfg = cfg_of(f)
        tup = [n for n in walk_local(f.node) if isinstance(n, ast.Assign) and isinstance(n.targets[0], ast.Tuple) and len(n.targets[0].elts) == 3]
        ok = len(tup) == 1 and norm(tup[0].value) == f"{f.pos_params[0]}.as_tuple()"
        ctx.check("C16.R4", f"{name}: (sign, digits, exp) = data.as_tuple() of the datum itself", ok, f.where(tup[0]) if tup else f.where(), f"{name}: {[norm(t) for t in tup]}", "the digits are taken from a derived value (normalize/quantize round to the ambient decimal context: more than 28 digits are silently rounded before the checks)")
        raises = [n for n in walk_local(f.node) if isinstance(n, ast.Raise)]
        # the guards of the raises with single-assignment locals replaced by what they stand for: independent of
        # whether precision / scale / delta are held in variables
        import copy as _copy

        def resolved(e, depth=3):
            e = _copy.deepcopy(e)
            for _ in range(depth):
                changed = False

                class S(ast.NodeTransformer):
                    def visit_Name(self, n):
                        nonlocal changed
                        if isinstance(n.ctx, ast.Load) and n.id not in f.params:
                            vals = assigned_values(f.node, n.id)
                            if len(vals) == 1 and not any(isinstance(x, ast.Name) and x.id == n.id for x in ast.walk(vals[0])):
                                changed = True
                                return _copy.deepcopy(vals[0])
                        return n

                e = S().visit(e)
                if not changed:
                    break
            return norm(e)

        gtexts = []
        for r in raises:
            parts = []
            for (t, lab) in cfg.guards_of(cfg.node_of(r)):
                if t.kind == "test" and lab in ("true", "false"):
                    parts.append(resolved(t.ast))
            gtexts.append(" && ".join(parts))
        S_ = f.pos_params[1]
        if len(tup) == 1:
            dv, ev = norm(tup[0].targets[0].elts[1]), norm(tup[0].targets[0].elts[2])
            prec_ok = any(f"len({dv})" in g and "'precision'" in g and S_ in g for g in gtexts)
            scale_ok = any(re.search(rf"\b{re.escape(ev)}\b", g) and "'scale'" in g and S_ in g for g in gtexts)
            ctx.check("C16.R4", f"{name}: rejects more digits than the precision", prec_ok, f.where(), f"{name}: raise guards {gtexts}", "a decimal with more significant digits than the schema's precision must raise")
            ctx.check("C16.R4", f"{name}: rejects more fractional digits than the scale", scale_ok, f.where(), f"{name}: raise guards {gtexts}", "a decimal with more fractional digits than the schema's scale must raise")
            # digits and exponent describe the number together: a quantity derived from one of them is stale once that
            # one is rewritten (zeros moved from the exponent into the digit tuple), and must not be used afterwards
            pos = lambda n_: (n_.lineno, n_.col_offset)
            rewrites = [st_ for st_ in walk_local(f.node) if isinstance(st_, (ast.Assign, ast.AugAssign)) and st_ is not tup[0] and any(isinstance(n_, ast.Name) and n_.id in (dv, ev) and isinstance(n_.ctx, ast.Store) for t_ in (st_.targets if isinstance(st_, ast.Assign) else [st_.target]) for n_ in ast.walk(t_))]
            in_rewrite = {id(n_) for st_ in rewrites for n_ in ast.walk(st_)}
            # a comparison only looks at the derived value (range checks may come after the rewrite): not a use in the number
            in_rewrite |= {id(n_) for c_ in walk_local(f.node) if isinstance(c_, ast.Compare) for n_ in ast.walk(c_)}
            # the pair is one description of the number: rewriting either member invalidates what was derived from the other too
            both = sorted(pos(st_) for st_ in rewrites)
            stores = {dv: both, ev: both}
            stale = []
            for as_ in walk_local(f.node):
                if not (isinstance(as_, ast.Assign) and len(as_.targets) == 1 and isinstance(as_.targets[0], ast.Name)) or as_.targets[0].id in (dv, ev):
                    continue
                x_ = as_.targets[0].id
                for v_ in (dv, ev):
                    if not any(isinstance(n_, ast.Name) and n_.id == v_ for n_ in ast.walk(as_.value)):
                        continue
                    later = [q for q in stores[v_] if q > pos(as_)]
                    if not later:
                        continue
                    redefs = sorted(pos(n_) for n_ in walk_local(f.node) if isinstance(n_, ast.Name) and n_.id == x_ and isinstance(n_.ctx, ast.Store) and pos(n_) > later[0])
                    uses = [n_ for n_ in walk_local(f.node) if isinstance(n_, ast.Name) and n_.id == x_ and isinstance(n_.ctx, ast.Load) and pos(n_) > later[0] and id(n_) not in in_rewrite and not (redefs and pos(n_) > redefs[0])]
                    if uses:
                        stale.append((as_, v_, uses[0]))
            for as_, v_, use in stale:
                ctx.violation("C16.R4", f"{name}: values derived from digits / exponent are used with the digits / exponent they were derived from", f.where(use), f"{name}: `{norm(as_)}` used after `{v_}` is rewritten", f"`{as_.targets[0].id}` still reflects the old `{v_}`: the number assembled from the rewritten digits and the old shift is a different number")
            if not stale:
                ctx.holds("C16.R4", f"{name}: values derived from digits / exponent are used with the digits / exponent they were derived from", f.where())
        else:
            ctx.unrecognised("C16.R4", f"{name}: precision / scale checks", f.where(), "the (sign, digits, exponent) unpacking of the datum was not found")

    ctx.rule("C16.R5", "fixed decimal: a raise comparing the value's bit length with the size dominates every emission; write_fixed's size gate follows", floor=2)
    f = lwm.functions["prepare_fixed_decimal"]
    cfg = cfg_of(f)
    # what produces the bytes: writes into a buffer and every return of a value
    writes = [n for n in walk_local(f.node) if isinstance(n, ast.Call) and isinstance(n.func, ast.Attribute) and n.func.attr == "write"]
    writes += [n for n in walk_local(f.node) if isinstance(n, ast.Return) and n.value is not None and not (isinstance(n.value, ast.Constant) and n.value.value is None) and not (isinstance(n.value, ast.Name) and n.value.id == f.pos_params[0])]
    gates = []
    for t in cfg.nodes:
        if t.kind == "test" and isinstance(t.ast, ast.Compare):
            # the test, with single-assignment locals replaced by what they stand for, relates the value's bit length
            # to the schema's size
            rt = resolved(t.ast)
            if ".bit_length()" in rt and "'size'" in rt:
                raising = [m for (m, lab) in t.succ if lab == "true"]
                if raising and all(cfg.exit not in ({m} | cfg.reachable_from(m)) for m in raising):
                    gates.append(t)
    ok = bool(gates) and bool(writes) and all(any(cfg.edge_dominates(g, "false", cfg.node_of(w)) for g in gates) for w in writes)
    ctx.check("C16.R5", "prepare_fixed_decimal: misfit (bit length vs 8*size) raises before any byte is produced, on both sign arms", ok, f.where(), f"prepare_fixed_decimal: gates {[norm(g.ast) for g in gates]}", "the negative arm writes exactly `size` bytes whatever the value needs: a value too large for the fixed size is truncated to a different number")
    fixed_gate(ctx, a, a.writers.funcs("fixed")[0], "C16.R5")

    ctx.rule("C16.R6", "numeric safety of the preparers: no context-dependent Decimal method on the datum; true division only on sub-second fields", floor=2)
    bad = []
    for name, f in sorted(lwm.functions.items()):
        if not name.startswith("prepare_"):
            continue
        for n in walk_local(f.node):
            if isinstance(n, ast.Call) and isinstance(n.func, ast.Attribute) and n.func.attr in CONTEXT_DEPENDENT and not _has_context(n):
                bad.append((f, n, f"{n.func.attr}() rounds to the ambient decimal context (28 significant digits by default): a wider decimal is stored as a different number"))
            # arithmetic on the Decimal itself is rounded to the ambient context as well
            if "decimal" in name and isinstance(n, ast.BinOp) and isinstance(n.op, (ast.Mult, ast.Add, ast.Sub, ast.Div, ast.FloorDiv, ast.Mod, ast.Pow)) and any(isinstance(x, ast.Name) and x.id == f.pos_params[0] for x in (n.left, n.right)):
                bad.append((f, n, f"`{norm(n)[:60]}`: arithmetic on the Decimal is rounded to the ambient decimal context (28 significant digits by default): a wider decimal is stored as a different number"))
            if "decimal" in name and isinstance(n, ast.Call) and isinstance(n.func, ast.Name) and n.func.id == "round" and n.args and isinstance(n.args[0], ast.Name) and n.args[0].id == f.pos_params[0]:
                bad.append((f, n, "round() of the Decimal changes its value"))
    ctx.check("C16.R6", "decimal preparers call no context-dependent Decimal method", not bad, bad[0][0].where(bad[0][1]) if bad else lwm.relpath, f"{bad[0][0].qualname}: {norm(bad[0][1])}" if bad else "", bad[0][2] if bad else "")
    # the readers: a decimal is rebuilt under a context of the schema's precision; a context-dependent step without
    # that context rounds to the thread's ambient one
    bad = []
    n_readers = 0
    for key in sorted(LR.keys()):
        if "decimal" not in key:
            continue
        for f in LR.funcs(key):
            n_readers += 1
            for n in walk_local(f.node):
                if isinstance(n, ast.Call) and isinstance(n.func, ast.Attribute) and n.func.attr in CONTEXT_DEPENDENT and not _has_context(n):
                    bad.append((f, n, f"{n.func.attr}() without the context built from the schema's precision rounds to the ambient decimal context (28 significant digits by default): a wider decimal is read back as a different number"))
    if n_readers:
        ctx.check("C16.R6", "decimal readers pass their own context to every context-dependent Decimal method", not bad, bad[0][0].where(bad[0][1]) if bad else lwm.relpath, f"{bad[0][0].qualname}: {norm(bad[0][1])}" if bad else "", bad[0][2] if bad else "")
    bad = []
    for name, f in sorted(lwm.functions.items()):
        if not name.startswith("prepare_"):
            continue
        for n in walk_local(f.node):
            if isinstance(n, ast.BinOp) and isinstance(n.op, ast.Div):
                left = norm(n.left)
                if not (left.endswith(".microseconds") or left.endswith(".microsecond")):
                    bad.append((f, n))
    ctx.check("C16.R6", "true division `/` is applied only to sub-second fields (< 10**6, exact in a float)", not bad, bad[0][0].where(bad[0][1]) if bad else lwm.relpath, f"{bad[0][0].qualname}: {norm(bad[0][1])}" if bad else "", "a true division of a large quantity (timedelta or total microseconds) passes through a 53-bit float: instants far from 1970 are stored off by a microsecond or more")

    ctx.borrow("C10", {"C10.R2": "C16.R7"}, "logical values inside unions (and every value under validator=True) are written only if validate accepts them: a verdict other than the type validator's on the prepared value narrows the domain that can be stored", only=lambda o: "_validate:" in o.get("where", "") or o.get("instance", "").startswith("_validate"))

    # ---- R8 the preparers are total: a value that is not of the logical type's Python class passes through ---------------
    ctx.rule("C16.R8", "every preparer returns a value of another Python class than its logical type unchanged and raises nothing for it (validate and write_union call the preparer of every candidate branch on whatever datum they have)", floor=8)
    from sa.pathsum import summaries as _summ8

    n8 = 0
    for key in sorted(LW.keys()):
        for f8 in LW.funcs(key):
            if len(f8.pos_params) < 1:
                continue
            D8 = f8.pos_params[0]
            n8 += 1
            bad8 = []
            for s8 in _summ8(cfg_of(f8), max_paths=600):
                neg = [t for t in s8.facts if t.startswith(f"not isinstance({D8}, ") and not any(b in t for b in ("numbers.", "int)", "int,", "bool", "str)", "float"))]
                if not neg:
                    continue
                if any(t.startswith(f"isinstance({D8}, ") for t in s8.facts):
                    continue  # another class the preparer converts on purpose (an ISO string for a date, ..)
                if s8.kind == "raise":
                    bad8.append((s8, f"raises `{s8.text[:60]}`"))
                elif s8.kind == "return" and s8.text != D8:
                    bad8.append((s8, f"returns `{s8.text[:60]}`"))
            if bad8:
                s8, what = bad8[0]
                ctx.violation("C16.R8", f"{f8.qualname}: a value that is not of the logical type's class is handed back unchanged", f8.where(s8.node), f"{f8.qualname}: {what} under {sorted(t for t in s8.facts if D8 in t)[:3]}", "validate and the union writer try the preparer of every candidate branch on the datum before the per-type validator decides: a preparer that raises (or converts) for a value of another class turns `this branch does not match` into an exception, so a datum that conforms to a later branch of the union cannot be validated or written")
            else:
                ctx.holds("C16.R8", f"{f8.qualname}: values of other classes pass through", f8.where())
    if n8 < 8:
        ctx.unrecognised("C16.R8", "preparers", lwm.relpath, f"only {n8} preparers found in LOGICAL_WRITERS")

