"""C10 validate — structural obligations."""
import ast
import re
import itertools

from sa.callgraph import bind_args
from sa.loader import AnalysisError, norm, walk_local
from sa.cfg import cfg_of
from sa.pathsum import summaries
from sa import guards
from .common import analysis, names_in, true_facts, truthy_texts
from .c09 import label_slice

PROP = "C10"
TECHNIQUE = "validator table totality; per-path summaries for raise-iff-False, the strict missing-value arm and NoValue->None; CFG dominance of the validation gate before encoding; propositional decision table of the strict / default / nullable logic; conjunction idioms of container validators and validate_many; escape census of non-ValidationError raises over the call graph"
LEVEL_TEXT = (
    "Static analysis: VALIDATORS covers every kind the writers encode and only _validate dispatches through it; _validate has one "
    "return, dominated by the raise-iff-False test; container validators must and-combine the verdict of every element; the "
    "validating call (raise_errors=True) dominates the encoding call in Writer.write and JSONWriter.write and the gate is installed "
    "unconditionally; the missing-field logic of write_record and of the validator is evaluated as a propositional decision table over "
    "{strict, strict_allow_default} x {default} x {nullable} and compared with the cells the property fixes; the label functions of "
    "validator and writer agree (C09.R1); explicit raises other than ValidationError reachable from _validate are inventoried."
)
LEVEL_NOTE = (
    "Not decided: the biconditional with an independent conformance predicate over all data (runtime values). Cells of the strict "
    "table that the property leaves open (strict with a default present) are reported, not judged."
)
ASSUMPTIONS = ["propositional atoms of the strict logic are options.get('strict'), options.get('strict_allow_default'), 'default' in field, 'null' in field_type"]


def run(ctx):
    a = analysis(ctx.program)
    p = a.p
    V, W = a.validators, a.writers
    vf = p.func("_validation_py:_validate")
    # the rules below read the dispatch *in* _validate: when it only hands over to something else (an object that does
    # the dispatch in a method, with its own table) nothing here is a positive identification of a defect
    if not any(isinstance(n, ast.Name) and n.id == "VALIDATORS" for n in ast.walk(vf.node)):
        raise AnalysisError("_validate no longer dispatches through VALIDATORS itself (the dispatch is done elsewhere): the validator rules do not follow it")

    # ---- R1 totality -------------------------------------------------------------------------
    ctx.rule("C10.R1", "keys(VALIDATORS) >= keys(WRITERS); by-name fallback; only _validate calls a table entry", floor=17)
    for k in sorted(W.keys()):
        ctx.check("C10.R1", f"VALIDATORS has {k}", k in V.keys(), V.mod.relpath + ":VALIDATORS", f"VALIDATORS lacks {k}", f"the writers encode {k!r} but validate has no validator for it")
    for alias, base in (("error", "record"), ("request", "record"), ("error_union", "union"), ("double", "float")):
        if alias in V.entries:
            ctx.check("C10.R1", f"VALIDATORS[{alias}] is VALIDATORS[{base}]", V.funcs(alias) == V.funcs(base), V.mod.relpath + ":VALIDATORS", f"VALIDATORS[{alias}] differs from VALIDATORS[{base}]", f"{alias} and {base} must validate alike (the writer's float->double deferral relies on it)")
    users = []
    for f in p.all_functions():
        for cs in a.cg.sites.get(f.id, []):
            if cs.kind == "table" and set(t.id for t in cs.targets) & set(x.id for x in V.all_funcs()) and all(t.mod.short == "_validation_py" for t in cs.targets):
                users.append(f)
    ctx.check("C10.R1", "only _validate dispatches through VALIDATORS", [u.id for u in users] == [vf.id], vf.where(), f"VALIDATORS used by {[u.id for u in users]}", "a validator called outside _validate bypasses logical-type preparation and the raise-iff-False step")
    byname = [n for n in walk_local(vf.node) if isinstance(n, ast.If) and norm(n.test) == "record_type in named_schemas"]
    ok = len(byname) == 1 and any(isinstance(c, ast.Call) and isinstance(c.func, ast.Name) and c.func.id == "_validate" and norm(bind_args(vf, c).get(vf.pos_params[1], ast.Constant(value=None))) == "named_schemas[record_type]" for c in ast.walk(byname[0]))
    ctx.check("C10.R1", "_validate: by-name reference validated against its definition", ok, vf.where(), "_validate: by-name arm", "a reference to a named type must be validated against named_schemas[name]")
    unk = [n for n in walk_local(vf.node) if isinstance(n, ast.Raise) and "UnknownType" in norm(n.exc)]
    ctx.check("C10.R1", "_validate: an unknown type name raises UnknownType", len(unk) == 1, vf.where(), "_validate: unknown type arm", "an unknown type must not validate silently")

    # ---- R2 raise iff False ---------------------------------------------------------------------
    ctx.rule("C10.R2", "_validate: single return of `result`, dominated by `raise_errors and result is False -> raise ValidationError`; container validators and-combine all element verdicts; validate_many re-raises", floor=5)
    cfg = cfg_of(vf)
    RE = vf.pos_params[4]
    D = vf.pos_params[0]
    sums = summaries(cfg)
    rets_s = [s for s in sums if s.kind == "return"]
    raises_s = [s for s in sums if s.kind == "raise" and s.text.startswith("ValidationError(")]
    bad_ret = [s for s in rets_s if not (f"not {RE} or {s.text} is not False" in s.facts or (s.text == "False" and f"not {RE}" in s.facts) or s.text == "True")]
    bad_raise = [s for s in raises_s if RE not in s.facts]
    if not rets_s:
        ctx.unrecognised("C10.R2", "_validate", vf.where(), "no return path found")
    else:
        what = "_validate: raise ValidationError exactly when asked and the result is False, else return the result"
        ctx.check("C10.R2", what, not bad_ret and not bad_raise and bool(raises_s), vf.where(bad_ret[0].node) if bad_ret else vf.where(), f"_validate: path returns `{bad_ret[0].text[:60]}` without the raise-iff-False test" if bad_ret else (f"_validate: raises under {sorted(bad_raise[0].facts)[:3]}" if bad_raise else ""), "validate must raise in precisely the False cases when raise_errors is set, and return the verdict otherwise")
    # the verdict is the type validator's (or the referenced definition's): a constant verdict is returned only for
    # an absent value under `strict`
    for s in rets_s:
        if isinstance(s.expr, ast.Constant) and isinstance(s.expr.value, bool):
            absent = any(x.replace(" ", "") in (f"{D}isNoValue", f"NoValueis{D}") for x in s.facts)
            strict = any("'strict'" in x and not x.startswith("not ") for x in s.facts)
            if s.expr.value is False and absent and strict:
                continue
            ctx.violation("C10.R2", "_validate: the verdict is the type validator's", vf.where(s.node), f"_validate: returns the constant {s.text} under {sorted(s.facts)[:4]}", "a datum is accepted or rejected without (or whatever) the validator of its type says: values the writers accept (e.g. the last representable date, a time of day) are rejected, or values they reject accepted")
    ctx.holds("C10.R2", "_validate: constant verdicts only for an absent value under strict (checked per path)", vf.where())
    # the union validator tries every branch: in the loop that is not selected by a (name, value) hint, no path
    # from one branch to the next avoids the validation of that branch
    vu = V.funcs("union")[0]
    ucfg = cfg_of(vu)
    hints = {n.targets[0].elts[0].id for n in walk_local(vu.node) if isinstance(n, ast.Assign) and isinstance(n.targets[0], ast.Tuple) and len(n.targets[0].elts) == 2 and isinstance(n.targets[0].elts[0], ast.Name) and isinstance(n.value, ast.Name)}
    tried = 0
    for loop in [n for n in walk_local(vu.node) if isinstance(n, ast.For)]:
        vcs = [c for st in loop.body for c in ast.walk(st) if isinstance(c, ast.Call) and isinstance(c.func, ast.Name) and c.func.id == "_validate"]
        if not vcs:
            continue
        inside = {id(x) for st in loop.body for x in ast.walk(st)}
        hinted = any(t.kind == "test" and id(t.ast) in inside and names_in(t.ast) & hints for c in vcs for (t, lab) in ucfg.guards_of(ucfg.node_of(c)))
        if hinted:
            continue
        tried += 1
        it = ucfg.node_of(loop.iter)
        starts = [m for (m, lab) in it.succ if lab == "body"]
        vn = [ucfg.node_of(c) for c in vcs]
        ok = all(m in vn or ucfg.must_pass(m, it, vn, skip_labels=("exc",)) for m in starts)
        ctx.check("C10.R2", f"{vu.qualname}: every branch of the union is tried", ok, vu.where(loop), f"{vu.qualname}: a path through the branch loop reaches the next branch without validating this one", "a branch is skipped on the strength of something other than its own validator (the python type of the datum, a cache, ...): values that conform to it through a logical-type conversion or a subclass are rejected, while the writers, which try every branch, accept them")
    if tried == 0:
        ctx.unrecognised("C10.R2", f"{vu.qualname}: every branch of the union is tried", vu.where(), "no loop over the branches with an unhinted _validate call found")
    for kind in ("array", "map", "record"):
        f = V.funcs(kind)[0]
        calls = [n for n in walk_local(f.node) if isinstance(n, ast.Call) and isinstance(n.func, ast.Name) and n.func.id == "_validate"]
        # include calls inside generator expressions
        calls = [n for n in ast.walk(f.node) if isinstance(n, ast.Call) and isinstance(n.func, ast.Name) and n.func.id == "_validate"]
        if not calls:
            ctx.violation("C10.R2", f"{f.qualname}: elements are validated", f.where(), f"{f.qualname}: no _validate call", "elements of a container are not validated")
            continue
        for c in calls:
            ok, why = conj_discipline(a, f, c)
            ctx.check("C10.R2", f"{f.qualname}: every element's verdict is and-combined", ok, f.where(c), f"{f.qualname}: {why}", "the verdict of one element can be lost (overwritten or ignored): a container with a bad element validates True")
        # no accepting path bypasses the elements: a returned value that can be True consults _validate (or the
        # container is known to be empty on that path)
        dn = f.pos_params[0]
        for s in summaries(cfg_of(f), max_paths=2000):
            if s.kind != "return" or s.expr is None:
                continue
            if isinstance(s.expr, ast.Constant) and not s.expr.value:
                continue
            if "_validate(" in s.text:
                continue
            if any(x in s.facts for x in (f"not {dn}", f"len({dn}) == 0", f"not len({dn})")):
                continue
            verdict_names_ = {t.id for n in walk_local(f.node) if isinstance(n, ast.Assign) and any(isinstance(c, ast.Call) and isinstance(c.func, ast.Name) and c.func.id == "_validate" for c in ast.walk(n.value)) for t in n.targets if isinstance(t, ast.Name)}
            if names_in(s.expr) & verdict_names_ or any(isinstance(x, ast.Name) and x.id not in (dn,) and x.id in {t.id for n in walk_local(f.node) if isinstance(n, (ast.Assign, ast.AugAssign)) for t in (n.targets if isinstance(n, ast.Assign) else [n.target]) if isinstance(t, ast.Name)} for x in ast.walk(s.expr)):
                continue  # a flag / collected verdicts: covered by the and-combination discipline above
            ctx.violation("C10.R2", f"{f.qualname}: no accepting path bypasses the elements", f.where(s.node), f"{f.qualname}: returns `{s.text[:80]}` under {sorted(s.facts)[:4]}", "a container is accepted without its elements being validated: data the writers reject (or encode as something else) validates True")
        ctx.holds("C10.R2", f"{f.qualname}: accepting paths consult the element verdicts (checked per path)", f.where())
    vm = p.func("_validation_py:validate_many")
    cfg = cfg_of(vm)
    rets = [n for n in walk_local(vm.node) if isinstance(n, ast.Return)]
    raises = [n for n in walk_local(vm.node) if isinstance(n, ast.Raise) and n.exc is not None and "ValidationError" in norm(n.exc)]
    vcalls = [n for n in ast.walk(vm.node) if isinstance(n, ast.Call) and isinstance(n.func, ast.Name) and n.func.id == "_validate"]
    verdict = conjunction_of_verdicts(vm, cfg, rets, vcalls)
    if verdict[0] is None:
        ctx.unrecognised("C10.R2", "validate_many", vm.where(), f"result `{[norm(r.value) for r in rets]}`: {verdict[1]}")
    ok = verdict[0] is True and len(raises) == 1
    if ok:
        facts = true_facts(cfg, cfg.node_of(raises[0]))
        rfacts = true_facts(cfg, cfg.node_of(rets[0]))
        ok = "raise_errors" in facts and bool(truthy_texts("errors") & facts) and "raise_errors" not in rfacts
    ctx.check("C10.R2", "validate_many: collected errors re-raised when asked, else all(results)", ok, vm.where(), f"validate_many: {[norm(r.value) for r in rets]}", "validate_many must raise the collected errors when raise_errors is set and otherwise return the conjunction")

    # ---- R8 the python types each validator accepts ---------------------------------------------------------------
    ctx.rule("C10.R8", "each type validator accepts exactly the python types of the documented mapping (isinstance sets read off the accepting paths)", floor=8)
    for kind, (pos_want, neg_want) in sorted(VALIDATOR_TYPES.items()):
        if kind not in V.entries:
            continue
        if len(V.funcs(kind)) != 1:
            ctx.unrecognised("C10.R8", f"VALIDATORS[{kind}]", V.mod.relpath + ":VALIDATORS", "the table entry is not a single function of the package (a callable object or an expression): its accepted types are not read off")
            continue
        f = V.funcs(kind)[0]
        dn = f.pos_params[0]
        pos, neg = set(), set()
        seen = False
        for s in summaries(cfg_of(f), max_paths=400):
            if s.kind != "return" or s.expr is None or (isinstance(s.expr, ast.Constant) and not s.expr.value):
                continue
            conj = list(s.expr.values) if isinstance(s.expr, ast.BoolOp) and isinstance(s.expr.op, ast.And) else [s.expr]
            for fct in s.facts:
                try:
                    conj.append(ast.parse(fct, mode="eval").body)
                except SyntaxError:
                    pass
            for c in conj:
                negated = isinstance(c, ast.UnaryOp) and isinstance(c.op, ast.Not)
                call = c.operand if negated else c
                if isinstance(call, ast.Call) and isinstance(call.func, ast.Name) and call.func.id == "isinstance" and len(call.args) == 2 and norm(call.args[0]) == dn:
                    seen = True
                    ts = {norm(e) for e in (call.args[1].elts if isinstance(call.args[1], ast.Tuple) else [call.args[1]])}
                    (neg if negated else pos).update(ts)
        inst = f"VALIDATORS[{kind}] -> {f.qualname}: accepts instances of {sorted(pos_want)}" + (f" except {sorted(neg_want)}" if neg_want else "")
        if not seen:
            ctx.unrecognised("C10.R8", inst, f.where(), "no isinstance test of the datum on an accepting path")
            continue
        # int is a numbers.Integral, float / int are numbers.Real: the abstract class alone says the same
        norm_set = lambda s_: {x for x in s_ if not (x == "int" and "numbers.Integral" in s_) and not (x in ("int", "float") and "numbers.Real" in s_)}
        ok = norm_set(pos) == norm_set(pos_want) and neg >= neg_want and not (neg - neg_want - {"bool"})
        ctx.check("C10.R8", inst, ok, f.where(), f"{f.qualname}: isinstance of {sorted(pos)} and not of {sorted(neg)}", "validate accepts (or rejects) python types other than the documented ones: the writers, which index, measure and iterate these values, fail on what validate accepted, or validate rejects what they write")

    # ---- R3 gate before bytes -------------------------------------------------------------------
    ctx.rule("C10.R3", "Writer.write / JSONWriter.write: the validating call (raise_errors=True) dominates the encoding call when the gate is on; the gate is installed unconditionally", floor=3)
    for cid in ("_write_py:Writer", "_write_py:JSONWriter"):
        ci = p.cls(cid)
        wr = ci.methods["write"]
        cfg = cfg_of(wr)
        enc = [n for n in walk_local(wr.node) if isinstance(n, ast.Call) and isinstance(n.func, ast.Name) and n.func.id == "write_data"]
        val = [n for n in walk_local(wr.node) if isinstance(n, ast.Call) and norm(n.func) == "self.validate_fn"]
        if len(enc) != 1 or len(val) != 1:
            ctx.violation("C10.R3", f"{wr.qualname}: gate present", wr.where(), f"{wr.qualname}: {len(val)} validate_fn call(s), {len(enc)} write_data call(s)", "the writer does not validate before encoding")
            continue
        tests = [t for t in cfg.nodes if t.kind == "test" and norm(t.ast) == "self.validate_fn"]
        en, vn = cfg.node_of(enc[0]), cfg.node_of(val[0])
        ok = len(tests) == 1 and cfg.edge_dominates(tests[0], "true", vn) and all(vn is m or cfg.must_pass(m, en, [vn]) for (m, lab) in tests[0].succ if lab == "true") and cfg.dominates(tests[0], en)
        ctx.check("C10.R3", f"{wr.qualname}: validation precedes encoding on the enabled path", ok, wr.where(val[0]), f"{wr.qualname}: validate_fn / write_data order", "with validation enabled a record can reach the encoder (and emit bytes) before it was validated")
        args = val[0].args
        ok = len(args) >= 5 and isinstance(args[4], ast.Constant) and args[4].value is True and norm(args[0]) == wr.pos_params[1] and norm(args[1]) == "self.schema" and norm(args[2]) == "self._named_schemas"
        ctx.check("C10.R3", f"{wr.qualname}: gate validates this record against this schema with raise_errors=True", ok, wr.where(val[0]), f"{wr.qualname}: {norm(val[0])}", "the gate must raise on a non-conforming record (raise_errors=True) for the writer's own schema")
    gi = p.cls("_write_py:GenericWriter").methods["__init__"]
    cfg = cfg_of(gi)
    asg = [n for n in walk_local(gi.node) if isinstance(n, ast.Assign) and any(norm(t) == "self.validate_fn" for t in n.targets)]
    vflag = "validator"
    if len(asg) == 1:
        ok = not [g for g in cfg.guards_of(cfg.node_of(asg[0]))] and norm(asg[0].value) in (f"_validate if {vflag} else None",)
    else:
        # if validator: self.validate_fn = _validate else: self.validate_fn = None  (no other guard)
        on = [x for x in asg if norm(x.value) == "_validate"]
        off = [x for x in asg if norm(x.value) == "None"]
        ok = len(asg) == 2 and len(on) == 1 and len(off) == 1 and true_facts(cfg, cfg.node_of(on[0])) == {vflag} and true_facts(cfg, cfg.node_of(off[0])) == {f"not {vflag}"}
    ctx.check("C10.R3", "GenericWriter.__init__: validate_fn installed unconditionally from the validator flag", ok, gi.where(asg[0]) if asg else gi.where(), f"GenericWriter.__init__: {[norm(x) for x in asg]} guards={[norm(t.ast) for t, _ in cfg.guards_of(cfg.node_of(asg[0]))] if asg else []}", "the validation gate is not installed on some construction path (e.g. appending with schema=None) although validator=True")

    # ---- R4 strict decision table ------------------------------------------------------------------
    ctx.rule("C10.R4", "missing-field decision table of write_record and of the validator over {strict, strict_allow_default} x {default} x {nullable}", floor=8)
    wrf = W.funcs("record")[0]
    miss = [n for n in walk_local(wrf.node) if isinstance(n, ast.If) and norm(n.test) in ("name not in datum",)]
    if len(miss) != 1:
        ctx.unrecognised("C10.R4", "write_record", wrf.where(), "missing-field test `name not in datum` not found")
    else:
        body = miss[0].body
        A = {"s": "options.get('strict')", "a": "options.get('strict_allow_default')", "nd": "'default' not in field", "nn": "'null' not in field_type"}
        # the "accepts null" atom by role: the comparison or call in the block that looks at the field's type (what it
        # answers for which type is C10.R11's decision table)
        nn_positive = None
        for t_ in ast.walk(ast.Module(body=list(body), type_ignores=[])):
            if isinstance(t_, ast.Call) and isinstance(t_.func, ast.Name) and len(t_.args) == 1 and norm(t_.args[0]) == "field_type" and p.resolve_func(wrf.mod, t_.func) is not None:
                nn_positive = norm(t_)
        for s, sa_, d, n_ in itertools.product([0, 1], repeat=4):
            atoms = {A["s"]: bool(s), A["a"]: bool(sa_), A["nd"]: not d, A["nn"]: not n_}
            if nn_positive is not None:
                atoms[nn_positive] = bool(n_)
            out = guards.run_chain(body, {}, atoms)
            if out[0] == "unknown":
                ctx.unrecognised("C10.R4", f"write_record cell strict={s} sad={sa_} default={d} nullable={n_}", wrf.where(miss[0]), f"guard `{norm(out[1])}` not a formula over the four atoms")
                continue
            rejected = out[0] == "raise"
            want = expected_writer_cell(s, sa_, d, n_)
            inst = f"write_record missing field: strict={s} strict_allow_default={sa_} default={d} nullable={n_}"
            if want is None:
                ctx.note("C10.R4", f"{inst}: {'rejected' if rejected else 'accepted'} (cell left open by the property)")
                ctx.holds("C10.R4", inst + " [open cell, reported]", wrf.where(miss[0]))
            else:
                ctx.check("C10.R4", inst, rejected == want, wrf.where(miss[0]), f"write_record: strict={s} sad={sa_} default={d} nullable={n_} -> {'rejected' if rejected else 'accepted'}", f"a record lacking this field must be {'rejected' if want else 'accepted'} in this mode")
    # validator side
    strict_paths = [s for s in summaries(cfg_of(vf)) if {f"{vf.pos_params[0]} is NoValue", f"{vf.pos_params[5]}.get('strict')"} <= s.facts]
    ok = bool(strict_paths) and all((s.kind == "return" and s.text == "False") or (s.kind == "raise" and s.text.startswith("ValidationError(")) for s in strict_paths)
    ctx.check("C10.R4", "_validate: a missing value in strict mode is False, whatever the field's type", ok, vf.where(), "_validate: strict missing-value arm", "in strict mode a record lacking a field without default must be rejected even when the field accepts null")
    vr = V.funcs("record")[0]
    passed = [c for c in ast.walk(vr.node) if isinstance(c, ast.Call) and isinstance(c.func, ast.Name) and c.func.id == "_validate"]
    got_vals = [bind_args(vf, c).get(vf.pos_params[0]) for c in passed]
    dn_ = vr.pos_params[0]
    ok = len(passed) == 1 and got_vals[0] is not None and bool(re.fullmatch(re.escape(dn_) + r"\.get\((\w+)\['name'\], \1\.get\('default', NoValue\)\)", norm(got_vals[0])))
    ctx.check("C10.R4", "_validate_record: an absent field is validated as its default, else as NoValue", ok, vr.where(), f"_validate_record: value passed = {[norm(v) for v in got_vals if v is not None]}", "absent fields must validate through their default, and be distinguishable (NoValue) when there is none")
    Dp, Sp = vf.pos_params[0], vf.pos_params[1]
    nov = [s for s in summaries(cfg_of(vf)) if s.kind == "return" and f"{Dp} is NoValue" in s.facts and (s.text.startswith("VALIDATORS") or s.text.startswith("_validate("))]
    def _first_arg(t):
        try:
            c = ast.parse(t, mode="eval").body
            return norm(c.args[0]) if isinstance(c, ast.Call) and c.args else None
        except SyntaxError:
            return None
    ok = bool(nov) and all((_first_arg(s.text) == "None") or ((_first_arg(s.text) or "").endswith(f"(None, {Sp})")) for s in nov)
    ctx.check("C10.R4", "_validate: not strict and no default -> validated as None (accepted iff the type accepts null)", ok, vf.where(), "_validate: NoValue -> None", "outside strict mode a missing field without default must be accepted exactly when its type accepts null")

    # ---- R5 escape census -----------------------------------------------------------------------------
    ctx.rule("C10.R5", "explicit raises reachable from _validate other than ValidationError: frozen accepted table", floor=3)
    accepted = {
        ("_validation_py:_validate", "UnknownType"): "schema error, not a datum verdict",
        ("_validation_py:_validate", "ValidationError"): "the verdict",
        ("_validation_py:_validate_union", "ValidationError"): "collected branch errors",
        ("_schema_py:schema_name", "SchemaParseException"): "schema without a name: schema error",
        ("_logical_writers_py:prepare_bytes_decimal", "ValueError"): "decimal not representable: specified by C16 (reported as a note)",
        ("_logical_writers_py:prepare_fixed_decimal", "ValueError"): "decimal not representable: specified by C16 (reported as a note)",
        ("_validate_common:ValidationError.__init__", "-"): "",
    }
    reach = a.cg.reachable([vf])
    for f in reach:
        for n in walk_local(f.node):
            if isinstance(n, ast.Raise) and n.exc is not None:
                cls_ = norm(n.exc.func) if isinstance(n.exc, ast.Call) else norm(n.exc)
                key = (f.id, cls_)
                if key in accepted:
                    ctx.holds("C10.R5", f"{f.id}: raise {cls_} [{accepted[key]}]", f.where(n))
                elif f.mod.short == "_validation_py":
                    ctx.violation("C10.R5", f"{f.id}: raise {cls_}", f.where(n), f"{f.qualname}: {norm(n)[:80]}", "validate() must answer True/False (or raise ValidationError when asked); another exception escapes it for non-conforming data")
                else:
                    ctx.note("C10.R5", f"raise {cls_} in {f.id} is reachable from _validate (outside the validation module: census only)")

    # ---- R6 = C09.R1 -------------------------------------------------------------------------------------
    ctx.borrow("C09", {"C09.R1": "C10.R6"}, "everything validate accepts the writers must encode and vice versa: the (name, value) hint vocabularies and the guard enabling tuple notation must be the same function on both sides")

    # ---- shared ----
    # ---- R11 absent fields: the writer refuses exactly what validate refuses -----------------------------------------
    ctx.rule("C10.R11", "write_record on an absent field without default: accepted exactly when the field's type accepts null (a 'null' type or a union with a null branch, in string or dict form), as _validate decides it; decision table over representative field types evaluated by the rule's own evaluator", floor=6)
    from sa import guards as _g11

    wr11 = a.writers.funcs("record")[0]
    loops11 = [n for n in walk_local(wr11.node) if isinstance(n, ast.For) and "['fields']" in norm(n.iter) and isinstance(n.target, ast.Name)]
    if len(loops11) != 1:
        ctx.unrecognised("C10.R11", "write_record", wr11.where(), "expected one loop over schema['fields']")
    else:
        lp11 = loops11[0]
        F11 = lp11.target.id
        D11 = wr11.pos_params[1]
        O11 = wr11.pos_params[5] if len(wr11.pos_params) > 5 else "options"
        # the statements of the loop body up to (not including) the first statement that encodes (calls write_data)
        body11 = []
        for st in lp11.body:
            if any(isinstance(c, ast.Call) and isinstance(c.func, ast.Name) and c.func.id == "write_data" for c in ast.walk(st)):
                break
            body11.append(st)
        mods11 = [wr11.mod] + [m for m in p.modules.values() if m is not wr11.mod]
        _g11.HOOK["call"] = _g11.program_call_evaluator(p, mods11)
        _g11.HOOK["value"] = _g11.program_call_evaluator(p, mods11, want_value=True)
        try:
            table11 = [
                ("'null'", "null", False), ("'int'", "int", True), ("['null', 'int']", ["null", "int"], False), ("['int', 'string']", ["int", "string"], True),
                ("{'type': 'null'}", {"type": "null"}, False), ("[{'type': 'null'}, 'int']", [{"type": "null"}, "int"], False), ("{'type': 'int'}", {"type": "int"}, True),
                ("a reference 'nullable.Rec'", "nullable.Rec", True),
            ]
            for label, ft, want_raise in table11:
                env = {F11: {"name": "x", "type": ft}, D11: {}, O11: {}}
                r = _g11.run_chain(list(body11), env, {}, effects=[])
                inst = f"write_record: absent field of type {label} without default is {'refused' if want_raise else 'written as null'}"
                if r[0] == "unknown":
                    ctx.unrecognised("C10.R11", inst, wr11.where(lp11), f"`{norm(r[1])[:80]}` could not be evaluated")
                else:
                    got = r[0] == "raise"
                    ctx.check("C10.R11", inst, got == want_raise, wr11.where(r[1]) if got and r[1] is not None else wr11.where(lp11), f"write_record: an absent field of type {label} is {'refused' if got else 'accepted'}", "validate accepts a record that leaves out a field whose type accepts null (whatever the spelling of the null branch) and rejects one that leaves out any other field without default: the writer must do the same, or a record validate accepts cannot be written (or one it rejects is written as garbage)")
        finally:
            _g11.HOOK["call"] = _g11.HOOK["value"] = None

    ctx.borrow("C16", {"C16.R8": "C10.R10"}, "validate runs the logical preparer before the per-type validator, for every candidate branch of a union: a preparer that raises for a value it does not convert turns a plain 'does not match this branch' into an exception")
    ctx.borrow("C02", {"C02.R5": "C10.R9"}, "what validate accepts is what the writer must encode: the record validator judges `datum.get(name, default)`; a writer that substitutes the default on any other condition than an absent key encodes a value validate never saw")
    ctx.borrow("C09", {"C09.R5": "C10.R12"}, "a record whose '-type' hint names another type does not conform: the record validator compares the hint with the full name, unconditionally (an option that is absent on some construction path switches the comparison off, and writers with validation enabled accept what validate rejects)")
    ctx.borrow("C09", {"C09.R2": "C10.R7"}, "validate must reject a (name, value) hint naming no branch exactly as the writer does")


def expected_writer_cell(s, sa_, d, n_):
    """True = rejected, False = accepted, None = left open by the property"""
    if s:
        if not d:
            return True  # strict, no default: rejected even when nullable
        return None  # strict with a default present: open
    if sa_:
        if not d:
            return True  # strict_allow_default only forgives fields with a default
        return False
    if not d and not n_:
        return True
    return False


# the documented Python mapping (property text; fastavro documentation "validation"): accepted / excluded classes
VALIDATOR_TYPES = {
    "boolean": ({"bool"}, set()),
    "string": ({"str"}, set()),
    "bytes": ({"bytes", "bytearray"}, set()),
    "int": ({"int", "numbers.Integral"}, {"bool"}),
    "long": ({"int", "numbers.Integral"}, {"bool"}),
    "float": ({"int", "float", "numbers.Real"}, {"bool"}),
    "fixed": ({"bytes"}, set()),
    "array": ({"Sequence", "array.array"}, {"str"}),
    "map": ({"Mapping"}, set()),
    "record": ({"Mapping"}, set()),
}


def conjunction_of_verdicts(f, cfg, rets, vcalls):
    """(True | False | None, why): the single returned value is the conjunction of every verdict in `vcalls`.
    Accepted idioms: all(L) with every verdict appended to the fresh list L; a flag initialised True and only
    ever set to False under `not verdict` (or and-ed with the verdict)."""
    if len(rets) != 1 or rets[0].value is None or not vcalls:
        return None, "expected one return and at least one verdict"
    R = rets[0].value
    pm = {}
    for n in ast.walk(f.node):
        for c in ast.iter_child_nodes(n):
            pm[id(c)] = n

    def verdict_names(call):
        """names holding the verdict of this call (assigned directly from it)"""
        par = pm.get(id(call))
        if isinstance(par, ast.Assign) and par.value is call and len(par.targets) == 1 and isinstance(par.targets[0], ast.Name):
            return {par.targets[0].id}
        return set()

    if isinstance(R, ast.Call) and isinstance(R.func, ast.Name) and R.func.id in ("all", "any") and len(R.args) == 1 and isinstance(R.args[0], ast.Name):
        if R.func.id == "any":
            return False, "any() of the verdicts: one valid record makes the whole batch valid"
        L = R.args[0].id
        stores = [n for n in walk_local(f.node) if isinstance(n, ast.Assign) and any(isinstance(t, ast.Name) and t.id == L for t in n.targets)]
        if len(stores) != 1 or not (isinstance(stores[0].value, ast.List) and not stores[0].value.elts):
            return None, f"{L} is not a fresh list assigned once"
        for n in walk_local(f.node):
            if isinstance(n, ast.Call) and isinstance(n.func, ast.Attribute) and isinstance(n.func.value, ast.Name) and n.func.value.id == L and n.func.attr not in ("append",):
                return False, f"{L}.{n.func.attr}() changes the collected verdicts"
            if isinstance(n, (ast.Delete, ast.AugAssign)) and L in names_in(n):
                return False, f"{L} is modified other than by append"
        for c in vcalls:
            par = pm.get(id(c))
            appended = isinstance(par, ast.Call) and isinstance(par.func, ast.Attribute) and par.func.attr == "append" and norm(par.func.value) == L
            if not appended:
                vs = verdict_names(c)
                appended = any(isinstance(n, ast.Call) and isinstance(n.func, ast.Attribute) and n.func.attr == "append" and norm(n.func.value) == L and len(n.args) == 1 and isinstance(n.args[0], ast.Name) and n.args[0].id in vs for n in walk_local(f.node))
            if not appended:
                return False, "a verdict is not collected"
        return True, "all() of the collected verdicts"
    if isinstance(R, ast.Name):
        F = R.id
        stores = [n for n in walk_local(f.node) if isinstance(n, (ast.Assign, ast.AugAssign)) and any(isinstance(t, ast.Name) and t.id == F for t in (n.targets if isinstance(n, ast.Assign) else [n.target]))]
        if not stores:
            return None, f"{F} is never assigned"
        vnames = set()
        for c in vcalls:
            vs = verdict_names(c)
            if not vs:
                # the verdict tested in place: `if not _validate(..): flag = False` -- the call text stands for it
                vs = {norm(c)}
            vnames |= vs
        init = [s for s in stores if isinstance(s, ast.Assign) and isinstance(s.value, ast.Constant) and s.value.value is True]
        if len(init) != 1 or any(id(init[0]) in {id(x) for l in walk_local(f.node) if isinstance(l, (ast.For, ast.While)) for x in ast.walk(l)} for _ in [0]):
            return None, f"{F} is not initialised to True once outside the loop"
        used = set()
        for s in stores:
            if s is init[0]:
                continue
            if isinstance(s, ast.Assign) and isinstance(s.value, ast.Constant) and s.value.value is False:
                facts = true_facts(cfg, cfg.node_of(s))
                hit = {v for v in vnames if f"not {v}" in facts}
                if not hit:
                    return False, f"{F} = False is not guarded by a failed verdict"
                used |= hit
            elif isinstance(s, ast.Assign) and isinstance(s.value, ast.BoolOp) and isinstance(s.value.op, ast.And) and F in names_in(s.value) and names_in(s.value) & vnames:
                used |= names_in(s.value) & vnames
            elif isinstance(s, ast.AugAssign) and isinstance(s.op, ast.BitAnd) and names_in(s.value) & vnames:
                used |= names_in(s.value) & vnames
            else:
                return False, f"`{norm(s)}` can make the result forget a failed verdict"
        if used != vnames:
            return False, "a verdict does not reach the result"
        return True, "flag cleared on every failed verdict"
    if isinstance(R, ast.Constant):
        return False, "constant result"
    return None, "unknown way of combining the verdicts"


def conj_discipline(a, f, call):
    """the verdict of this _validate call is and-combined into the function's result"""
    pm = a.parents(f.mod)
    q, child = pm.get(id(call)), call
    chain = []
    while q is not None and not isinstance(q, ast.stmt):
        chain.append(q)
        child, q = q, pm.get(id(q))
    # idiom 1: element of a generator inside all(...), itself an operand of `and` (or the whole) of a returned expression
    kinds = [type(x).__name__ for x in chain]
    if "GeneratorExp" in kinds or "ListComp" in kinds:
        i = kinds.index("GeneratorExp") if "GeneratorExp" in kinds else kinds.index("ListComp")
        comp = chain[i]
        if comp.elt is not call and not (isinstance(comp.elt, ast.Call) and comp.elt is call):
            return False, "the verdict is not the comprehension's element"
        if i + 1 < len(chain) and isinstance(chain[i + 1], ast.Call) and isinstance(chain[i + 1].func, ast.Name) and chain[i + 1].func.id == "all":
            rest = chain[i + 2 :]
            if all(isinstance(x, ast.BoolOp) and isinstance(x.op, ast.And) for x in rest) and isinstance(q, ast.Return):
                return True, "all(...) conjunct of the returned expression"
            return False, f"all(...) is not an and-conjunct of the returned value ({[type(x).__name__ for x in rest]})"
        return False, "comprehension of verdicts is not passed to all()"
    # idiom 2: `if not _validate(...): return False`
    if isinstance(q, ast.If) and isinstance(q.test, ast.UnaryOp) and isinstance(q.test.op, ast.Not) and q.test.operand is call:
        if any(isinstance(s, ast.Return) and isinstance(s.value, ast.Constant) and s.value.value is False for s in q.body):
            return True, "early return False"
    # idiom 3: result = result and _validate(...)
    if isinstance(q, ast.Assign) and isinstance(q.value, ast.BoolOp) and isinstance(q.value.op, ast.And) and any(v is call for v in q.value.values) and len(q.targets) == 1 and any(isinstance(v, ast.Name) and v.id == norm(q.targets[0]) for v in q.value.values):
        return True, "accumulated with and"
    if isinstance(q, ast.Return) and (q.value is call or (isinstance(q.value, ast.BoolOp) and isinstance(q.value.op, ast.And))):
        return True, "returned directly"
    return False, f"`{norm(q)[:70]}` does not and-combine the verdict"
