"""C20 generate_one / generate_many — structural obligations."""
import ast

from sa.loader import AnalysisError, norm, walk_local
from sa.cfg import cfg_of
from sa.spec import logical as spec
from .common import true_facts, assigned_values, analysis, names_in, str_consts_compared

PROP = "C20"
TECHNIQUE = "exhaustiveness of the type-directed generator against the writers' table (tri-state over lookup tables); interval containment of every random.randint draw per path summary (base type and logical type from the path facts, constant-folded bounds incl. keyed tables) in the base interval and the logical reader's domain; CFG count rule; parse-before-generate with the threaded name table"
LEVEL_TEXT = (
    "Static analysis of the data generator: gen_data has an arm for every kind the writers encode plus the by-name fallback through "
    "the name table the parse filled; every logical type whose reader restricts the stored domain is special-cased; each "
    "random.randint(a, b) with bounds folded from the source lies inside the validator's interval for the base type and inside the "
    "domain on which the logical reader returns a value (so a generated time can never be 24:00:00, a date never year 10000); one value "
    "is yielded per iteration of range(count) and generate_one takes the first of generate_many(schema, 1)."
)
LEVEL_NOTE = "Not decided: that every generated value validates and round-trips for every random state (needs the values). Trusted: spec/logical.py domains derived from datetime.min/max."
ASSUMPTIONS = ["random.randint(a, b) is inclusive of both bounds (stdlib fact)"]


def interval_of(e, fold):
    """(lo, hi) bounding the value of a numeric expression built from constants, random.random / uniform / randint,
    + - * / ** and unary minus; None when it cannot be bounded.  Pure interval arithmetic on the syntax tree."""
    inf = float("inf")

    def mul(a, b):
        try:
            return a * b
        except OverflowError:
            return inf if (a > 0) == (b > 0) else -inf

    def go(x):
        if isinstance(x, ast.Constant) and isinstance(x.value, (int, float)) and not isinstance(x.value, bool):
            return (x.value, x.value)
        if isinstance(x, ast.UnaryOp) and isinstance(x.op, ast.USub):
            r = go(x.operand)
            return None if r is None else (-r[1], -r[0])
        if isinstance(x, ast.UnaryOp) and isinstance(x.op, ast.UAdd):
            return go(x.operand)
        if isinstance(x, ast.Call):
            fn = norm(x.func)
            if fn in ("random.random", "random"):
                return (0.0, 1.0)
            if fn in ("random.uniform", "uniform", "random.randint", "randint", "random.triangular") and len(x.args) >= 2:
                a, b = go(x.args[0]), go(x.args[1])
                if a is None or b is None:
                    return None
                return (min(a[0], b[0]), max(a[1], b[1]))
            if fn in ("float", "int", "abs", "round", "math.floor", "math.ceil") and len(x.args) >= 1:
                r = go(x.args[0])
                if r is None:
                    return None
                if fn == "abs":
                    return (0 if r[0] <= 0 <= r[1] else min(abs(r[0]), abs(r[1])), max(abs(r[0]), abs(r[1])))
                return (r[0] - 1, r[1] + 1) if fn in ("round", "math.floor", "math.ceil", "int") else r
            return None
        if isinstance(x, ast.BinOp):
            a, b = go(x.left), go(x.right)
            if a is None or b is None:
                return None
            if isinstance(x.op, ast.Add):
                return (a[0] + b[0], a[1] + b[1])
            if isinstance(x.op, ast.Sub):
                return (a[0] - b[1], a[1] - b[0])
            if isinstance(x.op, ast.Mult):
                c = [mul(p_, q_) for p_ in a for q_ in b]
                return (min(c), max(c))
            if isinstance(x.op, ast.Div):
                if b[0] <= 0 <= b[1]:
                    return None
                c = [p_ / q_ for p_ in a for q_ in b]
                return (min(c), max(c))
            if isinstance(x.op, ast.Pow):
                # constant base > 0: monotone in the exponent
                if a[0] == a[1] and a[0] > 0:
                    vals = []
                    for q_ in b:
                        try:
                            vals.append(float(a[0]) ** q_)
                        except OverflowError:
                            vals.append(inf)
                    return (min(vals), max(vals))
                return None
            return None
        v = fold(x)
        if isinstance(v, (int, float)) and not isinstance(v, bool):
            return (v, v)
        return None

    return go(e)


_INT_CALLS = {"random.randint", "random.getrandbits", "random.randrange", "int", "len", "ord", "round"}
_FLOAT_CALLS = {"random.random", "random.uniform", "random.gauss", "random.triangular", "random.expovariate", "random.normalvariate", "float"}
_STR_CALLS = {"str", "chr", "repr"}
_BYTES_CALLS = {"bytes", "random.randbytes", "os.urandom", "bytearray"}


def pytype_of(e, p, mod, depth):
    """the set of Python type names an expression can evaluate to, or None when unknown (no execution: builtins and
    `random` functions by their documented result type, package helpers by their return statements)"""
    if isinstance(e, ast.Constant):
        return {type(e.value).__name__}
    if isinstance(e, (ast.Compare,)) or (isinstance(e, ast.UnaryOp) and isinstance(e.op, ast.Not)):
        return {"bool"}
    if isinstance(e, ast.JoinedStr):
        return {"str"}
    if isinstance(e, (ast.List, ast.ListComp)):
        return {"list"}
    if isinstance(e, (ast.Dict, ast.DictComp)):
        return {"dict"}
    if isinstance(e, ast.Tuple):
        return {"tuple"}
    if isinstance(e, (ast.Set, ast.SetComp)):
        return {"set"}
    if isinstance(e, ast.IfExp):
        a_, b_ = pytype_of(e.body, p, mod, depth), pytype_of(e.orelse, p, mod, depth)
        return None if a_ is None or b_ is None else a_ | b_
    if isinstance(e, ast.BoolOp):
        parts = [pytype_of(v, p, mod, depth) for v in e.values]
        return None if any(x is None for x in parts) else set().union(*parts)
    if isinstance(e, ast.UnaryOp) and isinstance(e.op, (ast.USub, ast.UAdd, ast.Invert)):
        t = pytype_of(e.operand, p, mod, depth)
        return None if t is None else ({"int"} if t == {"bool"} else t)
    if isinstance(e, ast.BinOp):
        l, r = pytype_of(e.left, p, mod, depth), pytype_of(e.right, p, mod, depth)
        if l is None or r is None:
            return None
        num = {"int", "float", "bool"}
        if l <= num and r <= num:
            if isinstance(e.op, ast.Div) or "float" in l | r:
                return {"float"}
            return {"int"}
        if l == r and l <= {"str", "bytes", "list", "tuple"} and isinstance(e.op, ast.Add):
            return l
        if isinstance(e.op, ast.Mult) and (l <= {"str", "bytes", "list"} and r <= {"int"}):
            return l
        return None
    if isinstance(e, ast.Call):
        fn = norm(e.func)
        if fn == "bool":
            return {"bool"}
        if fn in _INT_CALLS:
            return {"int"}
        if fn in _FLOAT_CALLS:
            return {"float"}
        if fn in _STR_CALLS:
            return {"str"}
        if fn in _BYTES_CALLS:
            return {"bytes"} if fn != "bytearray" else {"bytearray"}
        if fn in ("list", "sorted"):
            return {"list"}
        if fn == "dict":
            return {"dict"}
        if fn in ("random.choice",) and len(e.args) == 1 and isinstance(e.args[0], (ast.List, ast.Tuple)):
            parts = [pytype_of(v, p, mod, depth) for v in e.args[0].elts]
            return None if not parts or any(x is None for x in parts) else set().union(*parts)
        if isinstance(e.func, ast.Attribute):
            if e.func.attr in ("hex", "decode", "format", "lower", "upper", "strip", "isoformat") or (e.func.attr == "join" and isinstance(e.func.value, ast.Constant) and isinstance(e.func.value.value, str)):
                return {"str"}
            if e.func.attr in ("encode", "to_bytes") or (e.func.attr == "join" and isinstance(e.func.value, ast.Constant) and isinstance(e.func.value.value, bytes)):
                return {"bytes"}
            if e.func.attr in ("bit_length", "count", "index", "find"):
                return {"int"}
        if isinstance(e.func, ast.Name) and depth > 0:
            f = p.resolve_func(mod, e.func)
            if f is not None and f.cls is None:
                rets = [n.value for n in walk_local(f.node) if isinstance(n, ast.Return)]
                if rets and all(r is not None for r in rets) and not any(isinstance(n, (ast.Yield, ast.YieldFrom)) for n in walk_local(f.node)):
                    parts = [pytype_of(r, p, f.mod, depth - 1) for r in rets]
                    return None if any(x is None for x in parts) else set().union(*parts)
        return None
    return None


def run(ctx):
    a = analysis(ctx.program)
    p = a.p
    g = p.func("utils:gen_data")
    umod = g.mod

    ctx.rule("C20.R1", "gen_data handles every kind the writers handle, the by-name fallback, and special-cases every logical type with a restricted domain", floor=18)
    kinds = str_consts_compared(g.node, "record_type")
    for k in sorted(a.writers.keys()):
        ctx.check("C20.R1", f"kind {k} generated", k in kinds, g.where(), f"gen_data lacks {k}", f"a schema containing {k} would fall into the by-name arm and raise KeyError")
    last = [n for n in walk_local(g.node) if isinstance(n, ast.Return) and isinstance(n.value, ast.Call) and norm(n.value.func) == "gen_data" and "named_schemas[" in norm(n.value.args[0])]
    ctx.check("C20.R1", "by-name references are generated from named_schemas[name]", len(last) == 1, g.where(), "gen_data: by-name arm", "references to named types cannot be generated")
    lts = str_consts_compared(g.node, "logical_type")
    # keys of tables looked up in gen_data (a table-driven special-casing)
    table_keys = set()
    for n in ast.walk(g.node):
        tbl = None
        if isinstance(n, ast.Call) and isinstance(n.func, ast.Attribute) and n.func.attr == "get" and n.args:
            tbl = n.func.value
        elif isinstance(n, ast.Subscript) and not isinstance(n.slice, ast.Constant):
            tbl = n.value
        elif isinstance(n, ast.Compare) and len(n.ops) == 1 and isinstance(n.ops[0], (ast.In, ast.NotIn)):
            tbl = n.comparators[0]
        if tbl is not None:
            folded = p.try_fold(umod, tbl, None)
            if isinstance(folded, dict):
                table_keys |= {k for k in folded if isinstance(k, str)}
    for lt in sorted(spec.RESTRICTED):
        inst = f"logical type {lt} is special-cased"
        if lt in lts or lt in table_keys:
            ctx.holds("C20.R1", inst, g.where())
        elif table_keys:
            ctx.unrecognised("C20.R1", inst, g.where(), f"gen_data uses lookup tables with keys {sorted(table_keys)[:6]}..; {lt} is not among them and is not compared literally")
        else:
            ctx.violation("C20.R1", inst, g.where(), f"gen_data lacks {lt}", f"values drawn from the whole base type do not fit the {lt} reader's domain")

    ctx.rule("C20.R2", "every randint(a, b) lies inside the base type's interval and the logical reader's domain", floor=8)
    cfg = cfg_of(g)
    n_r = 0
    import re as _re
    from sa.pathsum import summaries

    def lits(facts, what):
        """literals the path facts pin `what` (record type / logical type) to"""
        out = set()
        for x in facts:
            m = _re.fullmatch(r"(?:%s) == '([\w\-]+)'" % what, x)
            if m:
                out.add(m.group(1))
            m = _re.fullmatch(r"(?:%s) in \((.*)\)" % what, x)
            if m:
                out |= set(_re.findall(r"'([\w\-]+)'", m.group(1)))
        return out

    RT = r"record_type|extract_record_type\(\w+\)"
    LT = r"logical_type|extract_logical_type\(\w+\)"
    seen_calls = set()
    for s_ in summaries(cfg, max_paths=5000):
        if s_.kind != "return" or "randint" not in s_.text:
            continue
        try:
            tree = ast.parse(s_.text, mode="eval").body
        except SyntaxError:
            continue
        bases, lt_lits = lits(s_.facts, RT), lits(s_.facts, LT)
        for n in ast.walk(tree):
            if not (isinstance(n, ast.Call) and norm(n.func) == "random.randint"):
                continue
            pairs = None
            if len(n.args) == 2 and not any(isinstance(x, ast.Starred) for x in n.args):
                pairs = [(n.args[0], n.args[1])]
            elif len(n.args) == 1 and isinstance(n.args[0], ast.Starred):
                v = n.args[0].value
                tbl = v.func.value if isinstance(v, ast.Call) and isinstance(v.func, ast.Attribute) and v.func.attr == "get" else (v.value if isinstance(v, ast.Subscript) else None)
                folded = p.try_fold(umod, tbl, None) if tbl is not None else p.try_fold(umod, v, None)
                if isinstance(folded, dict) and all(isinstance(x, (tuple, list)) and len(x) == 2 for x in folded.values()):
                    pairs = [(ast.Constant(value=x[0]), ast.Constant(value=x[1])) for x in folded.values()]
                elif isinstance(folded, (tuple, list)) and len(folded) == 2:
                    pairs = [(ast.Constant(value=folded[0]), ast.Constant(value=folded[1]))]
            keyed = None
            if pairs is not None and all(isinstance(x, ast.Name) for x in pairs[0]):
                # (lo, hi) = TABLE.get(<logical type>, <default pair>): every entry is a draw for its key
                lo_n, hi_n = pairs[0][0].id, pairs[0][1].id
                for st in walk_local(g.node):
                    if isinstance(st, ast.Assign) and len(st.targets) == 1 and isinstance(st.targets[0], ast.Tuple) and [norm(x) for x in st.targets[0].elts] == [lo_n, hi_n] and true_facts(cfg, cfg.node_of(st)) <= s_.facts | {x for x in true_facts(cfg, cfg.node_of(st))}:
                        v = st.value
                        tbl = v.func.value if isinstance(v, ast.Call) and isinstance(v.func, ast.Attribute) and v.func.attr == "get" else (v.value if isinstance(v, ast.Subscript) else None)
                        folded = p.try_fold(umod, tbl, None) if tbl is not None else None
                        if isinstance(folded, dict) and all(isinstance(x, (tuple, list)) and len(x) == 2 for x in folded.values()):
                            # only the table reached under this path's base type
                            fcts = true_facts(cfg, cfg.node_of(st))
                            bs_here = lits(fcts, RT)
                            if bases and bs_here and not (bases & bs_here):
                                continue
                            keyed = [(ast.Constant(value=x[0]), ast.Constant(value=x[1]), k) for k, x in folded.items()]
                            if isinstance(v, ast.Call) and len(v.args) > 1:
                                dflt = p.try_fold(umod, v.args[1], None)
                                if isinstance(dflt, (tuple, list)) and len(dflt) == 2:
                                    keyed.append((ast.Constant(value=dflt[0]), ast.Constant(value=dflt[1]), None))
            key = (norm(n), tuple(sorted(bases)), tuple(sorted(lt_lits)))
            if key in seen_calls:
                continue
            seen_calls.add(key)
            n_r += len(keyed) if keyed is not None else 1
            base = next(iter(bases)) if len(bases) == 1 else None
            inst = f"gen_data: {norm(n)[:70]} under {'|'.join(sorted(bases)) or '?'}{'/' + '|'.join(sorted(lt_lits)) if lt_lits else ''}"
            if pairs is None:
                ctx.unrecognised("C20.R2", inst, g.where(), "bounds of randint are not two expressions or a foldable table of pairs")
                continue
            for entry in (keyed if keyed is not None else [(x, y, "<path>") for x, y in pairs]):
                a0, a1, ltk = entry
                lts_here = lt_lits if ltk == "<path>" else ({ltk} if ltk else set())
                lo, hi = p.try_fold(umod, a0, "<x>"), p.try_fold(umod, a1, "<x>")
                if lo == "<x>" or hi == "<x>":
                    if "len(" in norm(n):
                        ctx.holds("C20.R2", inst + " [index into a sequence: 0 .. len-1]", g.where()) if norm(a0) == "0" and norm(a1).endswith(") - 1") else ctx.violation("C20.R2", inst, g.where(), f"gen_data: {norm(n)}", "an index drawn outside 0 .. len-1")
                    else:
                        ctx.unrecognised("C20.R2", inst, g.where(), "bounds do not fold to constants")
                    continue
                ok = lo <= hi
                why = f"empty interval [{lo}, {hi}]"
                for bs in (bases or {None}):
                    if bs in ("int", "long"):
                        blo, bhi = spec.INT if bs == "int" else spec.LONG
                        if not (blo <= lo and hi <= bhi):
                            ok, why = False, f"[{lo}, {hi}] is not inside the {bs} range [{blo}, {bhi}]"
                    if bs == "boolean" and (lo, hi) != (0, 1):
                        ok, why = False, f"boolean drawn from [{lo}, {hi}]"
                for lt in lts_here:
                    d = spec.DOMAIN.get(lt)
                    if d is not None and not (d[0] <= lo and hi <= d[1]):
                        ok, why = False, f"[{lo}, {hi}] is not inside the domain [{d[0]}, {d[1]}] on which the {lt} reader returns a value (randint includes its upper bound)"
                ctx.check("C20.R2", inst, ok, g.where(), f"gen_data: {norm(n)[:60]} = [{lo}, {hi}]", why)
    if n_r < 6:
        raise AnalysisError(f"only {n_r} randint draws found on the return paths of gen_data")

    # float / double draws: interval of the returned expression (interval arithmetic on the syntax tree) inside the
    # finite range of the IEEE type the encoder packs it into
    FLOAT_MAX = {"float": 3.4028234663852886e38, "double": 1.7976931348623157e308}
    n_f = 0
    seen_f = set()
    for s_ in summaries(cfg, max_paths=5000):
        if s_.kind != "return" or s_.expr is None:
            continue
        bases = lits(s_.facts, RT) & set(FLOAT_MAX)
        if not bases or lits(s_.facts, LT):
            continue
        for bs in sorted(bases):
            if (bs, s_.text) in seen_f:
                continue
            seen_f.add((bs, s_.text))
            n_f += 1
            inst = f"gen_data: {bs} value `{s_.text[:70]}`"
            iv = interval_of(s_.expr, lambda e: p.try_fold(umod, e, None))
            if iv is None:
                ctx.unrecognised("C20.R2", inst, g.where(s_.node), "the range of the generated value cannot be bounded by interval arithmetic")
                continue
            ok = -FLOAT_MAX[bs] <= iv[0] and iv[1] <= FLOAT_MAX[bs]
            ctx.check("C20.R2", inst + f" stays within the finite {bs} range", ok, g.where(s_.node), f"gen_data: {bs} drawn from [{iv[0]!r}, {iv[1]!r}]", f"the value can exceed the largest finite {bs} ({FLOAT_MAX[bs]!r}): the encoder's struct.pack raises OverflowError (float) or stores an infinity")
    if n_f < 2:
        raise AnalysisError(f"only {n_f} float / double return paths found in gen_data")

    # the Python type of what is generated per kind (no logical type): what validate / the encoder accept for that kind
    EXPECT = {"null": {"NoneType"}, "boolean": {"bool"}, "int": {"int"}, "long": {"int"}, "float": {"float", "int"}, "double": {"float", "int"}, "string": {"str"}, "bytes": {"bytes"}, "fixed": {"bytes"}, "enum": {"str"}, "array": {"list"}, "map": {"dict"}, "record": {"dict"}, "error": {"dict"}}
    n_t = 0
    seen_t = set()
    for s_ in summaries(cfg, max_paths=5000):
        if s_.kind != "return" or s_.expr is None:
            continue
        bases = lits(s_.facts, RT) & set(EXPECT)
        if len(bases) != 1 or lits(s_.facts, LT):
            continue
        bs = next(iter(bases))
        if (bs, s_.text) in seen_t:
            continue
        seen_t.add((bs, s_.text))
        ts = pytype_of(s_.expr, p, umod, 2)
        if ts is None:
            continue
        n_t += 1
        ok = ts <= EXPECT[bs]
        ctx.check("C20.R2", f"gen_data: a {bs} is generated as {'/'.join(sorted(EXPECT[bs]))}", ok, g.where(s_.node), f"gen_data: {bs} value `{s_.text[:60]}` has type {'/'.join(sorted(ts))}", f"validate (and writer(validator=True)) accept only {'/'.join(sorted(EXPECT[bs]))} for {bs}: the generated datum does not conform to the schema it was generated from")
    if n_t < 4:
        ctx.unrecognised("C20.R2", "types of generated values", g.where(), f"the Python type of only {n_t} generated values could be inferred")

    ctx.rule("C20.R3", "one value yielded per iteration of range(count); generate_one = next(generate_many(schema, 1))", floor=2)
    gm = p.func("utils:generate_many")
    loops = [n for n in walk_local(gm.node) if isinstance(n, ast.For)]
    ok = len(loops) == 1 and norm(loops[0].iter) == f"range({gm.pos_params[1]})" and len(loops[0].body) == 1 and isinstance(loops[0].body[0], ast.Expr) and isinstance(loops[0].body[0].value, ast.Yield) and sum(1 for n in ast.walk(gm.node) if isinstance(n, (ast.Yield, ast.YieldFrom))) == 1
    ctx.check("C20.R3", "generate_many: exactly one yield, inside `for _ in range(count)`", ok, gm.where(), "generate_many: loop", "the number of values yielded is not count")
    go = p.func("utils:generate_one")
    rets = [norm(n.value) for n in walk_local(go.node) if isinstance(n, ast.Return)]
    ctx.check("C20.R3", "generate_one returns next(generate_many(schema, 1))", rets == [f"next(generate_many({go.pos_params[0]}, 1))"], go.where(), f"generate_one: {rets}", "generate_one must yield exactly one value of the schema")

    ctx.rule("C20.R4", "parse before generate; the generator receives the parsed schema and the name table that parse filled", floor=1)
    pc = [n for n in walk_local(gm.node) if isinstance(n, ast.Call) and isinstance(n.func, ast.Name) and n.func.id == "parse_schema"]
    gc = [n for n in ast.walk(gm.node) if isinstance(n, ast.Call) and isinstance(n.func, ast.Name) and n.func.id == "gen_data"]
    ok = len(pc) == 1 and len(gc) == 1 and len(pc[0].args) == 2 and norm(pc[0].args[0]) == gm.pos_params[0]
    table = norm(pc[0].args[1]) if ok else None
    par = a.parent(gm.mod, pc[0]) if pc else None
    var = norm(par.targets[0]) if isinstance(par, ast.Assign) else None
    ok = ok and [norm(x) for x in gc[0].args] == [var, table] and any(isinstance(n, (ast.Assign, ast.AnnAssign)) and norm(n.target if isinstance(n, ast.AnnAssign) else n.targets[0]) == table and norm(n.value) == "{}" for n in walk_local(gm.node))
    ctx.check("C20.R4", "gen_data(parse_schema(schema, T), T) with T a fresh dict", ok, gm.where(), f"generate_many: {[norm(c) for c in pc + gc]}", "references (incl. recursive ones) under a top-level array, map or union of non-records cannot be resolved when the table is taken from the parsed schema's private copy")

    ctx.rule("C20.R5", "generated values never come from a schema's `default` attribute (defaults are written in JSON form: a bytes or fixed default is a str, a record default a dict of JSON forms)", floor=1)
    reads = []
    for fn in [g] + [x for x in g.mod.all_funcs if x is not g and any(isinstance(c, ast.Call) and isinstance(c.func, ast.Name) and c.func.id == x.name for c in ast.walk(g.node))]:
        for n in ast.walk(fn.node):
            if isinstance(n, ast.Subscript) and isinstance(n.ctx, ast.Load) and isinstance(n.slice, ast.Constant) and n.slice.value == "default":
                reads.append((fn, n))
            elif isinstance(n, ast.Call) and isinstance(n.func, ast.Attribute) and n.func.attr in ("get", "pop") and n.args and isinstance(n.args[0], ast.Constant) and n.args[0].value == "default":
                reads.append((fn, n))
    ctx.check("C20.R5", "gen_data reads no `default` attribute", not reads, reads[0][0].where(reads[0][1]) if reads else g.where(), f"{reads[0][0].qualname}: {norm(reads[0][1])}" if reads else "", "a default taken from the schema is in JSON form, not in the Python data form the writers and validate expect (bytes / fixed / decimal / nested records differ): the generated value does not conform")


    ctx.rule("C20.R6", "attributes the specification makes optional are read with a fallback; the branch of a union is drawn from the union as given", floor=2)
    OPTIONAL = {"scale", "namespace", "aliases", "doc", "default", "order", "logicalType"}
    helpers = [g] + [x for x in g.mod.all_funcs if x is not g and any(isinstance(c, ast.Call) and isinstance(c.func, ast.Name) and c.func.id == x.name for c in ast.walk(g.node))]
    bare = [(fn, n) for fn in helpers for n in ast.walk(fn.node) if isinstance(n, ast.Subscript) and isinstance(n.ctx, ast.Load) and isinstance(n.slice, ast.Constant) and n.slice.value in OPTIONAL]
    ctx.check("C20.R6", "no bare subscript read of an optional schema attribute in the generator", not bare, bare[0][0].where(bare[0][1]) if bare else g.where(), f"{bare[0][0].qualname}: {norm(bare[0][1])}" if bare else "", "a valid schema may omit the attribute (e.g. a decimal without scale): generation raises KeyError for it")
    # union arm: the list a branch index is drawn over and indexed into is the schema parameter itself
    draws = [c for c in ast.walk(g.node) if isinstance(c, ast.Call) and norm(c.func) in ("random.randint", "random.randrange", "random.choice") and "len(" in norm(c) or (isinstance(c, ast.Call) and norm(c.func) == "random.choice")]
    checked = 0
    for c in draws:
        facts = true_facts(cfg, cfg.node_of(c))
        if not any("'union'" in x for x in facts):
            continue
        seqs = [x for x in ast.walk(c) if isinstance(x, ast.Call) and isinstance(x.func, ast.Name) and x.func.id == "len" and x.args] if norm(c.func) != "random.choice" else None
        subj = (seqs[0].args[0] if seqs else None) if seqs is not None else (c.args[0] if c.args else None)
        if subj is None:
            continue
        checked += 1
        if isinstance(subj, ast.Name):
            from .common import value_sources

            srcs = value_sources(a, g, subj)
            plain = bool(srcs) and all(k == "param" or (k == "expr" and isinstance(v, ast.Call) and norm(v.func) in ("cast", "typing.cast", "list", "tuple") and any(isinstance(y, ast.Name) and y.id == g.pos_params[0] for y in v.args)) for k, v in srcs)
        else:
            plain = norm(subj) == g.pos_params[0]
        ctx.check("C20.R6", "a union's branch is drawn over all its branches", plain, g.where(c), f"gen_data: branch drawn over `{norm(subj)}` = {[k for k, _ in value_sources(a, g, subj)] if isinstance(subj, ast.Name) else ''}", "leaving branches out (e.g. never 'null') makes a recursive type generate without end, and some conforming shapes are never produced")
    if checked == 0:
        ctx.unrecognised("C20.R6", "union arm of gen_data", g.where(), "no random draw over the branches of a union found")

    # ---- R7 nested values come from gen_data applied to their own sub-schema ----------------------------------------
    ctx.rule("C20.R7", "items of an array, values of a map and fields of a record are generated by gen_data from their own schema (the logical-type cases apply at every depth)", floor=2)
    S7 = g.pos_params[0]
    n7 = 0

    def via_gen_data(e, key):
        """the expression is gen_data(<schema>[key] or a name holding it, ..), possibly wrapped in a lambda / called name"""
        if isinstance(e, ast.Call) and isinstance(e.func, ast.Name) and e.func.id == g.name and e.args:
            a0 = e.args[0]
            txt = norm(a0)
            if key is None or f"['{key}']" in txt:
                return True
            if isinstance(a0, ast.Name):
                return any(f"['{key}']" in norm(v) for v in assigned_values(g.node, a0.id))
            return False
        return False

    def producers(e, key, depth=3):
        """(ok, offending text): where the element expression `e` can come from"""
        if via_gen_data(e, key):
            return True, ""
        if isinstance(e, ast.Call) and isinstance(e.func, ast.Name) and not e.args and not e.keywords and depth > 0:
            vals = assigned_values(g.node, e.func.id)
            if vals:
                for v in vals:
                    if isinstance(v, ast.Lambda) and not v.args.args:
                        ok_, why_ = producers(v.body, key, depth - 1)
                    elif isinstance(v, ast.Name):
                        ok_, why_ = producers(ast.Call(func=v, args=[], keywords=[]), key, depth - 1)
                    else:
                        ok_, why_ = False, norm(v)[:70]
                    if not ok_:
                        return False, why_ or norm(v)[:70]
                return True, ""
        return False, norm(e)[:70]

    for kind, key, where_elt in (("array", "items", "elt"), ("map", "values", "value"), ("record", "type", "value")):
        for n in walk_local(g.node):
            if not isinstance(n, ast.Return) or n.value is None:
                continue
            facts = true_facts(cfg, cfg.node_of(n))
            if not any(f"'{kind}'" in x and ("==" in x or " in (" in x) for x in facts):
                continue
            v = n.value
            if kind == "array" and isinstance(v, ast.ListComp):
                elt = v.elt
            elif kind in ("map", "record") and isinstance(v, ast.DictComp):
                elt = v.value
            else:
                continue
            n7 += 1
            ok_, why_ = producers(elt, key)
            ctx.check("C20.R7", f"gen_data {kind}: every nested value is gen_data(<its schema>)", ok_, g.where(n), f"gen_data {kind} arm: a nested value can be `{why_}`", "a nested value is produced without gen_data seeing its schema (e.g. chosen by the base type alone): a logical type annotation on the item is ignored and the value lies outside the domain its reader accepts (a date far outside date.min..date.max), so the generated datum cannot be read back")
    if n7 < 2:
        ctx.unrecognised("C20.R7", "nested generation", g.where(), f"only {n7} container arms with a comprehension over generated values found")

    # ---- R8 decimals are generated without the ambient decimal context --------------------------------------------
    ctx.rule("C20.R8", "the generator calls no context-dependent Decimal method without an explicit context (the ambient context has 28 digits: wider declared precisions round or raise InvalidOperation)", floor=1)
    from .c16 import CONTEXT_DEPENDENT, _has_context

    seen8 = 0
    bad8 = []
    for fn in helpers:
        for n in ast.walk(fn.node):
            if isinstance(n, ast.Call) and isinstance(n.func, ast.Attribute) and n.func.attr in CONTEXT_DEPENDENT - {"max", "min"}:
                seen8 += 1
                if not _has_context(n):
                    bad8.append((fn, n))
    for fn, n in bad8:
        ctx.violation("C20.R8", f"{fn.qualname}: {n.func.attr}() with an explicit context", fn.where(n), f"{fn.qualname}: {norm(n)[:90]}", f"{n.func.attr}() works under the thread's ambient decimal context (28 significant digits by default): for a schema whose precision is larger the generator raises decimal.InvalidOperation (or returns a rounded value) instead of a conforming datum")
    if not bad8:
        ctx.holds("C20.R8", f"{len(helpers)} generator functions examined, {seen8} context-dependent Decimal calls, all with a context", g.where())

    ctx.borrow("C16", {"C16.R8": "C20.R9"}, "a generated datum is valid only if validate and the writers can judge it: they run the preparer of every candidate union branch on the generated value, so a preparer that raises for a value of another branch's type makes generated data of schemas with such unions unusable")
    ctx.borrow("C04", {"C04.R3": "C20.R10"}, "generate_many hands out a one-shot iterator: the documented idiom writer(fo, schema, generate_many(schema, n)) stores all n records only if writer iterates its records argument exactly once, from the first record", only=lambda o: ":writer:" in o["where"] or o["where"].endswith(":writer"))

