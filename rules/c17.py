"""C17 No state leaks; inputs intact — decided by the effect analysis (sa/effects.py)."""
import ast

from sa.loader import AnalysisError, norm, walk_local
from sa.effects import Effects, _mutable_display
from .common import analysis

PROP = "C17"
TECHNIQUE = "whole-program effect (mutation / ownership) analysis: summary-based points-to with allocation sites and per-call-site instantiation, from public-API parameters, module-level objects, mutable defaults and class attributes to every mutation primitive, one run per entry-point group; census of global/nonlocal, caching decorators and function-attribute stores"
LEVEL_TEXT = (
    "Static non-interference argument: labels are attached to every object a public entry point receives (schema, data, named-schema "
    "dictionary), to every mutable module-level object, mutable default argument and class-level attribute, and propagated through "
    "assignments, containers, instance fields, calls and returns to a fixpoint; then every mutation primitive in the package (store / "
    "delete through subscript or attribute, container-mutating method call) is checked: it may only touch fresh objects, the "
    "instance itself, repository-loaded objects, and the top level of the caller's named-schema dictionary. If no API-reachable code "
    "writes shared state and no call mutates an argument, no history of calls can change a result - which no finite test sequence can show."
)
LEVEL_NOTE = (
    "Decides the property modulo the trusted base: may-alias over-approximation (flow- and context-insensitive, one level of field "
    "sensitivity), user-supplied callables (custom repository, custom encoder/decoder classes, user logical-type functions) are external, "
    "C-level state of the stdlib is not modelled. `metadata` and `options` arguments are reported as notes (the statement restricts itself to schema and data objects)."
)
ASSUMPTIONS = [
    "container-mutating method names are the frozen list sa/effects.MUTATORS; stdlib functions do not mutate their arguments except those methods",
    "user-supplied callables are external",
]

# Appendix B of DESIGN.md: roles of public entry-point parameters (frozen by reading)
ROLES = {
    "_write_py:writer": {"schema": "SCHEMA", "records": "DATA", "metadata": "OTHER"},
    "_write_py:Writer.__init__": {"schema": "SCHEMA", "metadata": "OTHER", "options": "OTHER"},
    "_write_py:Writer.write": {"record": "DATA"},
    "_write_py:Writer.write_block": {"block": "OTHER"},
    "_write_py:schemaless_writer": {"schema": "SCHEMA", "record": "DATA"},
    "json_write:json_writer": {"schema": "SCHEMA", "records": "DATA"},
    "_read_py:reader.__init__": {"reader_schema": "SCHEMA"},
    "_read_py:block_reader.__init__": {"reader_schema": "SCHEMA"},
    "_read_py:schemaless_reader": {"writer_schema": "SCHEMA", "reader_schema": "SCHEMA"},
    "json_read:json_reader": {"schema": "SCHEMA", "reader_schema": "SCHEMA"},
    "_validation_py:validate": {"datum": "DATA", "schema": "SCHEMA"},
    "_validation_py:validate_many": {"records": "DATA", "schema": "SCHEMA"},
    "_schema_py:parse_schema": {"schema": "SCHEMA", "named_schemas": "NAMED"},
    "_schema_py:expand_schema": {"schema": "SCHEMA"},
    "_schema_py:fullname": {"schema": "SCHEMA"},
    "_schema_py:to_parsing_canonical_form": {"schema": "SCHEMA"},
    "_schema_py:load_schema": {"named_schemas": "NAMED", "_injected_schemas": "OTHER"},
    "utils:generate_one": {"schema": "SCHEMA"},
    "utils:generate_many": {"schema": "SCHEMA"},
    "utils:anonymize_schema": {"schema": "SCHEMA"},
}
# functions allowed to insert at the top level of the caller-supplied named-schema dictionary
NAMED_FILLERS = {"_schema_py:parse_schema", "_schema_py:_parse_schema"}

# Named exception to the may-alias over-approximation (one symbol, with the reason):
# `_parse_schema` returns the *definition* stored in the name table only in its `expand=True`
# arm (`if expand and "name" in named_schemas[schema]`).  The analysis is path-insensitive, so
# without this entry every caller of parse_schema - including load_schema, whose results
# _inject_schema edits in place - would appear to receive objects from inside the caller's name
# table.  Only expand_schema passes expand=True and it hands the result straight back to the user.
# The guard of that return is checked below (R6) to still be the `expand` flag.
SKIP_RETURNS = {("_schema_py:_parse_schema", "return named_schemas[schema]")}

_eff_cache = {}


# Entry-point groups: the property compares each API call with the same call in a fresh
# interpreter, so objects handed to one call are roots for the code reachable from that call.
# Analysing per group (and only the functions reachable from its entries) keeps a parsed
# dictionary allocated for load_schema distinct from one allocated for validate().
GROUPS = {
    "write": ["_write_py:writer", "_write_py:Writer.__init__", "_write_py:Writer.write", "_write_py:Writer.write_block", "_write_py:Writer.flush", "_write_py:schemaless_writer", "json_write:json_writer"],
    "read": ["_read_py:reader.__init__", "_read_py:block_reader.__init__", "_read_py:schemaless_reader", "json_read:json_reader", "_read_py:file_reader.__iter__", "_read_py:file_reader.__next__", "_read_py:Block.__iter__", "_read_py:is_avro"],
    "validate": ["_validation_py:validate", "_validation_py:validate_many"],
    "schema": ["_schema_py:parse_schema", "_schema_py:expand_schema", "_schema_py:fullname", "_schema_py:to_parsing_canonical_form", "_schema_py:fingerprint"],
    "load": ["_schema_py:load_schema", "_schema_py:load_schema_ordered"],
    "utils": ["utils:generate_one", "utils:generate_many", "utils:anonymize_schema"],
}


def import_time_only(p):
    """ids of private module-level functions every reference to which stands in module-level code (outside any
    function body): a call at import time, a decorator of a module-level definition"""
    out = set()
    for m in p.modules.values():
        inside = set()
        for n in ast.walk(m.tree):
            if isinstance(n, (ast.FunctionDef, ast.AsyncFunctionDef, ast.Lambda)):
                for st in (n.body if isinstance(n.body, list) else [n.body]):
                    for x in ast.walk(st):
                        inside.add(id(x))
        for st in m.tree.body:
            if not (isinstance(st, ast.FunctionDef) and st.name.startswith("_") and not st.name.startswith("__")):
                continue
            refs = [x for x in ast.walk(m.tree) if isinstance(x, ast.Name) and x.id == st.name and isinstance(x.ctx, ast.Load)]
            if not refs or any(id(x) in inside for x in refs):
                continue
            elsewhere = any(isinstance(x, ast.ImportFrom) and any(al.name == st.name for al in x.names) for m2 in p.modules.values() if m2 is not m for x in ast.walk(m2.tree)) or any(isinstance(x, ast.Attribute) and x.attr == st.name for m2 in p.modules.values() for x in ast.walk(m2.tree))
            if elsewhere:
                continue
            fi = next((f for f in m.all_funcs if f.node is st), None)
            if fi is not None:
                out.add(fi.id)
    return out


class GroupedEffects:
    """one Effects run per entry-point group + one run over the functions no group reaches"""

    def __init__(self, a):
        p = a.p
        self.runs = {}
        covered = set()
        for g, entries in GROUPS.items():
            roots = [p.func(fid) for fid in entries]
            reach = a.cg.reachable(roots)
            # generator bodies and methods of instantiated classes are reached through the call graph;
            # dunder protocol of classes constructed in the group
            extra = []
            for f in list(reach):
                for cs in a.cg.sites.get(f.id, []):
                    if cs.ctor_of is not None:
                        for m in set(cs.ctor_of.methods.values()):
                            if m.node.name in ("__iter__", "__next__", "__eq__", "__ne__", "__str__") and m not in reach:
                                extra.append(m)
            reach = a.cg.reachable(list(reach) + extra)
            roles = {fid: ROLES[fid] for fid in entries if fid in ROLES}
            self.runs[g] = Effects(p, a.cg, roles, skip_returns=SKIP_RETURNS, funcs=reach)
            covered |= {f.id for f in reach}
        rest = [f for f in p.all_functions() if f.id not in covered]
        # private functions that only module-level code refers to (registration helpers, decorators applied at
        # definition time) run once, under the import lock, before any operation: not part of any operation
        import_only = import_time_only(p)
        self.import_time_only = sorted(f.id for f in rest if f.id in import_only or any(f.id.startswith(x + ".") for x in import_only))
        rest = [f for f in rest if f.id not in self.import_time_only]
        self.uncovered = rest
        if rest:
            self.runs["uncovered"] = Effects(p, a.cg, {}, skip_returns=SKIP_RETURNS, funcs=rest)
        # merged view
        self.events = []
        for g, e in self.runs.items():
            for ev in e.events:
                ev = dict(ev)
                ev["group"] = g
                ev["roots"] = e.event_roots(ev)
                self.events.append(ev)
        self.iterations = max(e.iterations for e in self.runs.values())
        self.skipped_returns_seen = set()
        for e in self.runs.values():
            self.skipped_returns_seen |= e.skipped_returns_seen
        self._glob = {}
        for e in self.runs.values():
            self._glob.update(e._glob)

    def n_objects(self):
        return sum(len(e.heap) for e in self.runs.values())


def effects(a):
    e = _eff_cache.get(id(a))
    if e is None:
        _eff_cache.clear()
        e = _eff_cache[id(a)] = GroupedEffects(a)
    return e


def role_of(obj):
    """(ROLE, 'func.param', deep?) for a formal of a public entry point, else None"""
    if obj[:2] not in ("F:", "FI"):
        return None
    deep = obj.startswith("FI")
    rest = obj[3:] if deep else obj[2:]
    fid, pn = rest.rsplit(".", 1)
    role = ROLES.get(fid, {}).get(pn)
    if role is None:
        return None
    return role, rest, deep


# Second named exception (one symbol, with the reason).  A parsed top-level schema carries a
# back-reference `__named_schemas` to the (caller's) name table.  `_inject_schema`, the only
# function that edits schema dictionaries in place, walks only `items`, `values`, `fields[*].type`
# and list elements, so it never reaches that back-reference - but the analysis summarises "anything
# inside its parameter" without access paths and would report the name table as reachable.  The
# exception applies only while the census below confirms which keys the walker follows.
WALKER = "_schema_py:_inject_schema"
WALKER_KEYS = {"items", "values", "fields", "type", "name"}


def walker_follows_only_schema_keys(p):
    f = p.func(WALKER)
    for n in walk_local(f.node):
        if isinstance(n, ast.Subscript) and isinstance(n.ctx, ast.Load):
            if not (isinstance(n.slice, ast.Constant) and (n.slice.value in WALKER_KEYS or isinstance(n.slice.value, int))):
                return False
        if isinstance(n, ast.Call) and isinstance(n.func, ast.Attribute):
            if n.func.attr in ("values", "items", "popitem", "copy"):
                return False
            if n.func.attr in ("get", "pop") and not (n.args and isinstance(n.args[0], ast.Constant) and n.args[0].value in WALKER_KEYS):
                return False
        if isinstance(n, (ast.DictComp,)):
            return False
    return True


def classify(ev, roots, walker_ok=False):
    """-> list of (rule, object, text) for the protected objects a mutation may touch"""
    out = []
    f = ev["func"]
    for o in sorted(roots):
        r = role_of(o)
        if r is not None:
            role, name, deep = r
            if role in ("SCHEMA", "DATA"):
                out.append(("R1", o, f"mutates {'an object inside ' if deep else ''}the caller's {role.lower()} argument {name}"))
            elif role == "NAMED" and f.id == WALKER and walker_ok:
                continue
            elif role == "NAMED" and (deep or f.id not in NAMED_FILLERS):
                out.append(("R1", o, f"mutates {'a definition stored in ' if deep else ''}the caller's named-schema dictionary {name} outside the sanctioned top-level insertions of parse_schema"))
        elif o.startswith("G:") or o.startswith("GI:"):
            out.append(("R2", o, f"writes module-level state {o.split(':', 1)[1]}{' (inside it)' if o.startswith('GI') else ''} from function code"))
        elif o.startswith("D:") or o.startswith("DI:"):
            out.append(("R3", o, f"mutates the mutable default argument {o.split(':', 1)[1]}"))
        elif o.startswith("K:") or o.startswith("KI:"):
            out.append(("R5", o, f"mutates the class-level attribute {o.split(':', 1)[1]} shared by all instances"))
    return out


def run(ctx, prop="C17"):
    a = analysis(ctx.program)
    p = a.p
    eff = effects(a)
    P = prop
    ctx.extra["named_exceptions"] = {"skip_returns": sorted(map(list, SKIP_RETURNS)), "walker": WALKER, "skip_returns_seen": sorted(map(list, eff.skipped_returns_seen))}
    if not SKIP_RETURNS <= eff.skipped_returns_seen:
        raise AnalysisError(f"named exception {sorted(SKIP_RETURNS - eff.skipped_returns_seen)} no longer matches a return statement: re-derive it")
    # the excepted return must still be guarded by the `expand` flag
    ps = p.func("_schema_py:_parse_schema")
    from sa.cfg import cfg_of
    cfg = cfg_of(ps)
    for n in walk_local(ps.node):
        if isinstance(n, ast.Return) and norm(n) == "return named_schemas[schema]":
            g = [norm(t.ast) for (t, lab) in cfg.guards_of(cfg.node_of(n)) if lab == "true"]
            if not any(x.startswith("expand and") or x == "expand" for x in g):
                raise AnalysisError("the excepted return of _parse_schema is no longer guarded by `expand`")

    ctx.rule(f"{P}.R1", "no mutation of an object reachable from a SCHEMA or DATA parameter of a public function; NAMED receives top-level insertions only, in parse_schema/_parse_schema", floor=60)
    ctx.rule(f"{P}.R2", "no write to a module-level object from function code", floor=1)
    ctx.rule(f"{P}.R3", "no mutable default argument is mutated (directly, through a callee, or after being stored on an instance)", floor=10)
    n_events = 0
    touched_roots = set()
    walker_ok = walker_follows_only_schema_keys(p)
    reported = set()
    ctx.check(f"{P}.R6", "_inject_schema follows only the keys items / values / fields / type / name (premise of the back-reference exception)", walker_ok, p.func(WALKER).where(), "_inject_schema: loads a key outside the schema grammar or iterates dictionary values", "the in-place walker can reach objects outside the schema tree (e.g. the __named_schemas back-reference to the caller's name table)")
    for ev in eff.events:
        f = ev["func"]
        n_events += 1
        inst = f"{f.qualname}: {ev['how']} on `{ev['target']}`"
        roots = ev["roots"]
        touched_roots |= roots
        hits = classify(ev, roots, walker_ok)
        notes = [role_of(o) for o in roots if role_of(o) is not None and role_of(o)[0] == "OTHER"]
        if not hits:
            kinds = sorted({o.split(":")[0] for o in roots}) or ["instance field"]
            ctx.holds(f"{P}.R1", inst, f.where(ev["node"]), "touches only " + "/".join(kinds) + " objects (fresh allocation, instance-owned, repository-loaded or unprotected)")
            for r in notes[:1]:
                ctx.note(f"{P}.R1", f"{f.where(ev['node'])}: {inst} may mutate the caller's {r[1]} (metadata/options-like argument; outside the statement's schema/data objects)")
            continue
        seen = set()
        for (r, o, text) in hits:
            if r in seen:
                continue
            seen.add(r)
            others = sorted({x[1] for x in hits if x[0] == r} - {o})
            if others:
                text += f" (and {len(others)} more root(s), e.g. {others[0]})"
            if (r, f.id, norm(ev["node"])) in reported:
                continue
            reported.add((r, f.id, norm(ev["node"])))
            ctx.violation(f"{P}.{r}", inst, f.where(ev["node"]), f"{f.qualname}: {norm(ev['node'])[:90]}", f"{text}; reached (entry group '{ev['group']}') through {_how(eff.runs[ev['group']], ev, o)}")
    ctx.extra["mutation_sites"] = n_events
    ctx.extra["effect_fixpoint_rounds"] = eff.iterations
    ctx.extra["abstract_objects"] = eff.n_objects()
    ctx.extra["entry_groups"] = {g: len(e.funcs) for g, e in eff.runs.items()}
    ctx.extra["functions_reached_by_no_entry_group"] = [f.id for f in eff.uncovered]
    for f in p.all_functions():
        for pn, d in f.param_defaults().items():
            if _mutable_display(d):
                lab = f"D:{f.id}.{pn}"
                if lab not in touched_roots and "DI:" + lab[2:] not in touched_roots:
                    ctx.holds(f"{P}.R3", f"mutable default {f.id}({pn}={norm(d)}) is never mutated", f.where())
    globs = set()
    for key, v in eff._glob.items():
        globs |= v
    for lab in sorted(globs):
        if lab not in touched_roots and "GI:" + lab[2:] not in touched_roots:
            ctx.holds(f"{P}.R2", f"module-level object {lab[2:]} is never written from function code", "")

    # ---- R4 per-call tables are fresh at every entry point -------------------------------------
    ctx.rule(f"{P}.R4", "per-call name tables and name sets are fresh objects at every entry point (never module-level, never a default)", floor=6)

    def fresh_table(e, mod, depth):
        """an expression that builds a new, empty name table every time it is evaluated"""
        if norm(e) in ("{}", "dict()"):
            return True
        if isinstance(e, ast.Dict) and all(k is not None and isinstance(k, ast.Constant) for k in e.keys):
            return all(norm(v) in ("{}", "dict()") for v in e.values)
        if isinstance(e, ast.Call) and isinstance(e.func, ast.Name) and not e.args and not e.keywords and depth > 0:
            g = p.resolve_func(mod, e.func)
            if g is not None and g.cls is None:
                rets_ = [n for n in walk_local(g.node) if isinstance(n, ast.Return)]
                return bool(rets_) and all(r.value is not None and fresh_table(r.value, g.mod, depth - 1) for r in rets_)
        return False
    ps = p.func("_schema_py:_parse_schema")
    for cs in a.cg.callers.get(ps.id, []):
        if cs.caller.id == ps.id or cs.caller.name == "parse_field":
            continue
        from sa.callgraph import bind_args

        b = bind_args(ps, cs.node)
        names_arg = b.get("names")
        ok = isinstance(names_arg, ast.Call) and norm(names_arg) == "set()"
        ctx.check(f"{P}.R4", f"{cs.caller.qualname}: per-parse name set is a fresh set()", ok, cs.caller.where(cs.node), f"{cs.caller.qualname}: names={norm(names_arg) if names_arg is not None else '?'}", "the redefinition check uses a set that outlives the parse: a later parse of a schema reusing the same type names would be rejected (or an earlier one leak)")
    for fid in ("_write_py:schemaless_writer", "_validation_py:validate", "_validation_py:validate_many", "utils:generate_many", "utils:anonymize_schema", "_read_py:schemaless_reader", "_write_py:GenericWriter.__init__", "_read_py:file_reader.__init__", "_schema_py:load_schema_ordered"):
        f = p.func(fid)
        tables = [n for n in walk_local(f.node) if isinstance(n, (ast.Assign, ast.AnnAssign)) and "named_schemas" in norm(n.targets[0] if isinstance(n, ast.Assign) else n.target) and n.value is not None]
        ok = bool(tables) and all(fresh_table(n.value, f.mod, 1) for n in tables[:1])
        ctx.check(f"{P}.R4", f"{f.qualname}: name table created fresh per call", ok, f.where(tables[0]) if tables else f.where(), f"{f.qualname}: {[norm(n) for n in tables][:2]}", "a name table shared across calls leaks definitions between schemas that reuse the same type names")
    dn = p.maybe_func("_read_py:_default_named_schemas")
    if dn is not None:
        rets = [n for n in walk_local(dn.node) if isinstance(n, ast.Return)]
        ctx.check(f"{P}.R4", "_default_named_schemas returns a fresh dict of fresh dicts", len(rets) == 1 and norm(rets[0].value) == "{'writer': {}, 'reader': {}}", dn.where(), f"_default_named_schemas: {[norm(r.value) for r in rets]}", "reader name tables must be fresh per reader")
    else:
        # folded into its callers: the two reader entry points build the pair of tables themselves
        for fid in ("_read_py:schemaless_reader", "_read_py:file_reader.__init__"):
            f = p.func(fid)
            tables = [n for n in walk_local(f.node) if isinstance(n, (ast.Assign, ast.AnnAssign)) and "named_schemas" in norm(n.targets[0] if isinstance(n, ast.Assign) else n.target) and n.value is not None]
            ok = bool(tables) and norm(tables[0].value) in ("{'writer': {}, 'reader': {}}", "{'reader': {}, 'writer': {}}")
            ctx.check(f"{P}.R4", f"{f.qualname}: the reader's name tables are a fresh dict of fresh dicts", ok, f.where(tables[0]) if tables else f.where(), f"{f.qualname}: {[norm(n) for n in tables][:2]}", "reader name tables must be fresh per reader")

    # ---- R5 no hidden state --------------------------------------------------------------------
    ctx.rule(f"{P}.R5", "no mutable class-level attribute is mutated, no caching decorator, no global/nonlocal, no function-attribute store, no module-level cache written from functions", floor=3)
    bad = []
    for m in p.modules.values():
        for n in ast.walk(m.tree):
            if isinstance(n, (ast.Global, ast.Nonlocal)):
                bad.append((m, n, f"{type(n).__name__.lower()} {', '.join(n.names)}"))
            if isinstance(n, (ast.FunctionDef, ast.ClassDef)):
                for d in n.decorator_list:
                    if any(x in norm(d) for x in ("cache", "lru_cache", "memo", "singledispatch")):
                        bad.append((m, n, f"caching decorator @{norm(d)}"))
    ctx.check(f"{P}.R5", "no global / nonlocal statement, no caching decorator", not bad, bad[0][0].relpath + f":{bad[0][1].lineno}" if bad else "", f"{bad[0][2]}" if bad else "", "state that outlives a call (rebound module variable or memoised result) makes results depend on the history of calls")
    fattr = []
    for f in p.all_functions():
        for n in walk_local(f.node):
            if isinstance(n, ast.Assign):
                for t in n.targets:
                    if isinstance(t, ast.Attribute) and isinstance(t.value, ast.Name):
                        r = p.resolve(f.mod, t.value.id) if a_is_global(f, t.value.id, eff) else None
                        if r is not None and r[0] in ("func", "class", "module"):
                            fattr.append((f, n))
    ctx.check(f"{P}.R5", "no store to an attribute of a function, class or module object from function code", not fattr, fattr[0][0].where(fattr[0][1]) if fattr else "", f"{fattr[0][0].qualname}: {norm(fattr[0][1])}" if fattr else "", "attributes of functions/classes/modules are process-wide state")
    n_cls = 0
    for ci in p.all_classes():
        for attr, v in ci.class_attrs.items():
            if _mutable_display(v):
                n_cls += 1
    ctx.holds(f"{P}.R5", f"{n_cls} mutable class-level attribute(s); mutations of them are reported by the effect analysis", "")

    # ---- R6 _inject_schema edits only repository-loaded / parse-result objects -----------------
    ctx.rule(f"{P}.R6", "_inject_schema's in-place edits apply only to objects loaded from a repository or produced by a parse", floor=2)
    inj = p.func("_schema_py:_inject_schema")
    evs = [ev for ev in eff.events if ev["func"].id == inj.id]
    if not evs:
        raise AnalysisError("_inject_schema has no mutation site (anchor moved)")
    for ev in evs:
        roots = ev["roots"]
        api = [o for o in roots if role_of(o) is not None and role_of(o)[0] in ("SCHEMA", "DATA")]
        ctx.check(f"{P}.R6", f"_inject_schema: {ev['how']} on `{ev['target']}` never reaches a caller's object", not api, inj.where(ev["node"]), f"_inject_schema: {norm(ev['node'])[:80]}", f"the in-place edit can reach {api[:2]}")
    if P == "C17":
        # ---- R8 values that differ between interpreters --------------------------------------------------------------
        ctx.rule("C17.R8", "no function of the package computes a value from a per-interpreter quantity: the salted built-in hash() (outside __hash__ methods), the process id", floor=100)
        # id() is left out: it is the usual key of a visited-set in a recursive walk, where only equality of addresses of
        # live objects matters; hash() inside a __hash__ method only places the object in a table
        per_process = {"hash", "os.getpid", "getpid", "object.__hash__"}
        for m_ in a.p.modules.values():
            for f_ in m_.all_funcs:
                hits = [cs for cs in a.cg.sites.get(f_.id, []) if cs.external in per_process and f_.node.name != "__hash__"]
                if hits:
                    for cs in hits:
                        ctx.violation("C17.R8", f"{f_.qualname}: no per-interpreter quantity", f_.where(cs.node), f"{f_.qualname}: {norm(cs.node)[:80]}", f"`{cs.external}(..)` differs from one interpreter to the next (hash salt, addresses, pid): the same call gives another result in a fresh interpreter", positive=True)
                else:
                    ctx.holds("C17.R8", f"{f_.qualname}: no per-interpreter quantity", f_.where())
        ctx.borrow("C07", {"C07.R1": "C17.R9"}, "a call that fails midway must leave nothing behind that changes what later calls produce: the bytes of a half-written record left in the writer's pending block become part of the next block")
        ctx.borrow("C18", {"C18.R4": "C17.R7"}, "a changed interpreter- or process-wide setting is state kept across calls: the next operation, of any caller, runs under it")


def a_is_global(f, name, eff):
    return next(iter(eff.runs.values())).var_key(f, name) is None


def _how(eff, ev, root):
    """which formal of the mutating function stands for `root`, and who passes it"""
    f = ev["func"]
    via = []
    for o in ev["objs"]:
        if root in eff.expand(o):
            via.append(o)
    txt = ", ".join(sorted(via)[:2]) or root
    callers = []
    for o in via:
        if o[:2] in ("F:", "FI"):
            base = "F:" + o[(3 if o.startswith("FI") else 2):]
            for act in sorted(eff.actuals.get(base, ()))[:3]:
                callers.append(act)
    return txt + (f" <- passed {sorted(set(callers))[:3]}" if callers else "")
