"""Shared analysis context and helpers for the rule files."""
import ast
import re

from sa.loader import AnalysisError, norm, walk_local
from sa.callgraph import CallGraph
from sa.tables import load_table
from sa.shapes import Shaper, consumption, has_unknown, flat
from sa.cfg import cfg_of

W_NAMES = ["C", "X", "S", "N", "F", "O"]  # writers: encoder, datum, schema, named_schemas, fname, options
R_NAMES = ["C", "S", "N", "RS", "O"]  # readers: decoder, writer_schema, named_schemas, reader_schema, options
K_NAMES = ["C", "S", "N"]  # skips

_cache = {}


class Analysis:
    def __init__(self, program):
        self.p = program
        self.cg = CallGraph(program)
        self._tables = {}
        self._shapes = {}
        self._parents = {}

    def table(self, modshort, name):
        key = (modshort, name)
        if key not in self._tables:
            self._tables[key] = load_table(self.p, self.p.module(modshort), name)
        return self._tables[key]

    @property
    def writers(self):
        return self.table("_write_py", "WRITERS")

    @property
    def readers(self):
        return self.table("_read_py", "READERS")

    @property
    def skips(self):
        return self.table("_read_py", "SKIPS")

    @property
    def validators(self):
        return self.table("_validation_py", "VALIDATORS")

    @property
    def block_writers(self):
        return self.table("_write_py", "BLOCK_WRITERS")

    @property
    def block_readers(self):
        return self.table("_read_py", "BLOCK_READERS")

    @property
    def logical_writers(self):
        return self.table("_logical_writers_py", "LOGICAL_WRITERS")

    @property
    def logical_readers(self):
        return self.table("_logical_readers_py", "LOGICAL_READERS")

    def shape(self, f, side, names=None, codec_param=None):
        key = (f.id, side, tuple(names or ()), codec_param)
        if key not in self._shapes:
            self._shapes[key] = Shaper(self.p, self.cg, side).shape(f, names, codec_param)
        return self._shapes[key]

    def parents(self, mod):
        if mod.name not in self._parents:
            pm = {}
            for n in ast.walk(mod.tree):
                for c in ast.iter_child_nodes(n):
                    pm[id(c)] = n
            self._parents[mod.name] = pm
        return self._parents[mod.name]

    def parent(self, mod, node):
        return self.parents(mod).get(id(node))


def analysis(program):
    a = _cache.get(id(program))
    if a is None or a.p is not program:
        a = Analysis(program)
        _cache.clear()
        _cache[id(program)] = a
    return a


def norm_guard(text):
    """canonical rendering of the emptiness guards the package may use"""
    text = re.sub(r"if\(len\((\w+)\) > 0\)\{", r"if nonempty(\1){", text)
    text = re.sub(r"if\(len\((\w+)\) != 0\)\{", r"if nonempty(\1){", text)
    text = re.sub(r"if\(len\((\w+)\) >= 1\)\{", r"if nonempty(\1){", text)
    text = re.sub(r"iflen\((\w+)\)\{", r"if nonempty(\1){", text)
    text = re.sub(r"if(\w+)\{(V\(len\(\1\)\))", r"if nonempty(\1){\2", text)
    text = text.replace("}else{}", "}")
    return text


def renumber(text):
    """renumber n<k> token names in order of appearance (after substitutions)"""
    ren = {}

    def sub(m):
        k = m.group(0)
        if k not in ren:
            ren[k] = f"n{len(ren) + 1}"
        return ren[k]

    return re.sub(r"\bn\d+\b", sub, text)


def tokens(term, kinds=("V", "P", "R", "D", "T")):
    return [t for t in flat(term) if t[0] in kinds]


def find_calls(fnode, name=None, attr=None):
    out = []
    for n in walk_local(fnode):
        if isinstance(n, ast.Call):
            if name is not None and isinstance(n.func, ast.Name) and n.func.id == name:
                out.append(n)
            elif attr is not None and isinstance(n.func, ast.Attribute) and n.func.attr == attr:
                out.append(n)
    return out


def str_consts_compared(fnode, varname):
    """string literals an `if varname == "lit"` / `varname in (..)` dispatch compares against"""
    out = set()
    for n in walk_local(fnode):
        if isinstance(n, ast.Compare) and isinstance(n.left, ast.Name) and n.left.id == varname:
            for op, c in zip(n.ops, n.comparators):
                if isinstance(op, ast.Eq) and isinstance(c, ast.Constant) and isinstance(c.value, str):
                    out.add(c.value)
                elif isinstance(op, ast.In) and isinstance(c, (ast.Tuple, ast.List, ast.Set)):
                    for e in c.elts:
                        if isinstance(e, ast.Constant) and isinstance(e.value, str):
                            out.add(e.value)
    return out


def calls_in(node):
    return [n for n in ast.walk(node) if isinstance(n, ast.Call)]


def is_name(node, ident):
    return isinstance(node, ast.Name) and node.id == ident


def names_in(node):
    return {n.id for n in ast.walk(node) if isinstance(n, ast.Name)}


def ends_in_raise(stmts):
    """every path through the statement list ends in `raise` (syntactic)"""
    if not stmts:
        return False
    last = stmts[-1]
    if isinstance(last, ast.Raise):
        return True
    if isinstance(last, ast.If):
        return ends_in_raise(last.body) and ends_in_raise(last.orelse)
    return False
