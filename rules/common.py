"""Shared analysis context and helpers for the rule files."""
import ast
import re

from sa.loader import AnalysisError, norm, walk_local
from sa.callgraph import CallGraph
from sa.tables import load_table
from sa.shapes import Shaper, consumption, has_unknown, flat
from sa.cfg import cfg_of

W_NAMES = ["C", "X", "S", "N", "F", "O"]  # writers: encoder, datum, schema, named_schemas, fname, options
R_NAMES = ["C", "S", "N", "RS", "O"]  # readers: decoder, writer_schema, named_schemas, reader_schema, options
K_NAMES = ["C", "S", "N"]  # skips

_cache = {}


class Analysis:
    def __init__(self, program):
        self.p = program
        self.cg = CallGraph(program)
        self._tables = {}
        self._shapes = {}
        self._parents = {}

    def table(self, modshort, name):
        key = (modshort, name)
        if key not in self._tables:
            self._tables[key] = load_table(self.p, self.p.module(modshort), name)
        return self._tables[key]

    @property
    def writers(self):
        return self.table("_write_py", "WRITERS")

    @property
    def readers(self):
        return self.table("_read_py", "READERS")

    @property
    def skips(self):
        return self.table("_read_py", "SKIPS")

    @property
    def validators(self):
        return self.table("_validation_py", "VALIDATORS")

    @property
    def block_writers(self):
        return self.table("_write_py", "BLOCK_WRITERS")

    @property
    def block_readers(self):
        return self.table("_read_py", "BLOCK_READERS")

    @property
    def logical_writers(self):
        return self.table("_logical_writers_py", "LOGICAL_WRITERS")

    @property
    def logical_readers(self):
        return self.table("_logical_readers_py", "LOGICAL_READERS")

    def shape(self, f, side, names=None, codec_param=None):
        key = (f.id, side, tuple(names or ()), codec_param)
        if key not in self._shapes:
            self._shapes[key] = Shaper(self.p, self.cg, side).shape(f, names, codec_param)
        return self._shapes[key]

    def parents(self, mod):
        if mod.name not in self._parents:
            pm = {}
            for n in ast.walk(mod.tree):
                for c in ast.iter_child_nodes(n):
                    pm[id(c)] = n
            self._parents[mod.name] = pm
        return self._parents[mod.name]

    def parent(self, mod, node):
        return self.parents(mod).get(id(node))


def analysis(program):
    a = _cache.get(id(program))
    if a is None or a.p is not program:
        a = Analysis(program)
        _cache.clear()
        _cache[id(program)] = a
    return a


def norm_guard(text):
    """canonical rendering of the emptiness guards the package may use"""
    text = re.sub(r"if\(len\((\w+)\) > 0\)\{", r"if nonempty(\1){", text)
    text = re.sub(r"if\(len\((\w+)\) != 0\)\{", r"if nonempty(\1){", text)
    text = re.sub(r"if\(len\((\w+)\) >= 1\)\{", r"if nonempty(\1){", text)
    text = re.sub(r"iflen\((\w+)\)\{", r"if nonempty(\1){", text)
    text = re.sub(r"if(\w+)\{(V\(len\(\1\)\))", r"if nonempty(\1){\2", text)
    text = text.replace("}else{}", "}")
    return text


def renumber(text):
    """renumber n<k> token names in order of appearance (after substitutions)"""
    ren = {}

    def sub(m):
        k = m.group(0)
        if k not in ren:
            ren[k] = f"n{len(ren) + 1}"
        return ren[k]

    return re.sub(r"\bn\d+\b", sub, text)


def tokens(term, kinds=("V", "P", "R", "D", "T")):
    return [t for t in flat(term) if t[0] in kinds]


def find_calls(fnode, name=None, attr=None):
    out = []
    for n in walk_local(fnode):
        if isinstance(n, ast.Call):
            if name is not None and isinstance(n.func, ast.Name) and n.func.id == name:
                out.append(n)
            elif attr is not None and isinstance(n.func, ast.Attribute) and n.func.attr == attr:
                out.append(n)
    return out


def str_consts_compared(fnode, varname):
    """string literals an `if varname == "lit"` / `varname in (..)` dispatch compares against"""
    out = set()
    for n in walk_local(fnode):
        if isinstance(n, ast.Compare) and isinstance(n.left, ast.Name) and n.left.id == varname:
            for op, c in zip(n.ops, n.comparators):
                if isinstance(op, ast.Eq) and isinstance(c, ast.Constant) and isinstance(c.value, str):
                    out.add(c.value)
                elif isinstance(op, ast.In) and isinstance(c, (ast.Tuple, ast.List, ast.Set)):
                    for e in c.elts:
                        if isinstance(e, ast.Constant) and isinstance(e.value, str):
                            out.add(e.value)
    return out


def calls_in(node):
    return [n for n in ast.walk(node) if isinstance(n, ast.Call)]


def is_name(node, ident):
    return isinstance(node, ast.Name) and node.id == ident


def names_in(node):
    return {n.id for n in ast.walk(node) if isinstance(n, ast.Name)}


def ends_in_raise(stmts):
    """every path through the statement list ends in `raise` (syntactic)"""
    if not stmts:
        return False
    last = stmts[-1]
    if isinstance(last, ast.Raise):
        return True
    if isinstance(last, ast.If):
        return ends_in_raise(last.body) and ends_in_raise(last.orelse)
    return False


# ----------------------------------------------------------------------------- robustness helpers

def literals_tested(test, var):
    """string literals `var` is compared with in `test`: var == 'a', var in ('a', 'b'), or-combinations.
    Returns None when the test is not purely such a comparison of `var`."""
    out = set()
    parts = test.values if isinstance(test, ast.BoolOp) and isinstance(test.op, ast.Or) else [test]
    for t in parts:
        if isinstance(t, ast.Compare) and len(t.ops) == 1 and norm(t.left) == var:
            c = t.comparators[0]
            if isinstance(t.ops[0], ast.Eq) and isinstance(c, ast.Constant) and isinstance(c.value, str):
                out.add(c.value)
                continue
            if isinstance(t.ops[0], ast.In) and isinstance(c, (ast.Tuple, ast.List, ast.Set)) and all(isinstance(e, ast.Constant) for e in c.elts):
                out |= {e.value for e in c.elts}
                continue
            if isinstance(t.ops[0], ast.In) and isinstance(c, ast.Name):
                out.add("<" + c.id + ">")
                continue
        return None
    return out


def dispatch_arms(fnode, var):
    """{frozenset(literals): If node} for every `if <var> == lit / in (...)` test in a function"""
    out = {}
    for n in walk_local(fnode):
        if isinstance(n, ast.If):
            lits = literals_tested(n.test, var)
            if lits:
                out.setdefault(frozenset(lits), n)
    return out


def arm_for(arms, literal):
    for lits, node in arms.items():
        if literal in lits:
            return node
    return None


def isinstance_types(fnode, subject=None):
    """class names tested by isinstance(subject, X) / isinstance(subject, (X, Y)) anywhere in the function"""
    out = set()
    for n in walk_local(fnode):
        if isinstance(n, ast.Call) and isinstance(n.func, ast.Name) and n.func.id == "isinstance" and len(n.args) == 2:
            if subject is not None and norm(n.args[0]) != subject:
                continue
            t = n.args[1]
            for e in (t.elts if isinstance(t, ast.Tuple) else [t]):
                out.add(norm(e))
    return out


def true_facts(cfg, node):
    """normalised texts of conditions known TRUE when `node` executes (from dominating guard edges,
    negations pushed inward, conjunctions split)"""
    from sa.canon import negate, ExprCanon
    import copy

    out = set()
    for (t, lab) in cfg.guards_of(node):
        if t.kind != "test" or lab not in ("true", "false"):
            continue
        e = copy.deepcopy(t.ast)
        if lab == "false":
            e = ExprCanon().visit(ast.fix_missing_locations(ast.Expression(body=negate(e)))).body
        todo = [e]
        while todo:
            x = todo.pop()
            if isinstance(x, ast.BoolOp) and isinstance(x.op, ast.And):
                todo.extend(x.values)
            else:
                out.add(norm(x))
    return out


def assigned_values(fnode, name):
    """value expressions assigned to local `name` (plain assignments)"""
    out = []
    for n in walk_local(fnode):
        if isinstance(n, ast.Assign):
            for t in n.targets:
                if isinstance(t, ast.Name) and t.id == name:
                    out.append(n.value)
        elif isinstance(n, ast.AnnAssign) and isinstance(n.target, ast.Name) and n.target.id == name and n.value is not None:
            out.append(n.value)
    return out


def resolve_local(fnode, expr, depth=3):
    """follow a chain of single-assignment locals: the expression a Name ultimately stands for"""
    while depth > 0 and isinstance(expr, ast.Name):
        vals = assigned_values(fnode, expr.id)
        if len(vals) != 1:
            break
        expr = vals[0]
        depth -= 1
    return expr


def calls_to(a, f, callee_names):
    """Call nodes in f (incl. nested expressions) whose resolved target is a package function with one of the names"""
    out = []
    for n in ast.walk(f.node):
        if isinstance(n, ast.Call):
            cs = a.cg.by_node.get(id(n))
            if cs is not None and any(t.node.name in callee_names for t in cs.targets):
                out.append(n)
            elif isinstance(n.func, ast.Name) and n.func.id in callee_names and cs is None:
                out.append(n)
    return out


def table_calls(a, f, table):
    """Call nodes in f dispatched through the given Table (fn = T.get(k); fn(...))"""
    ids = {x.id for x in table.all_funcs()}
    out = []
    for n in ast.walk(f.node):
        if isinstance(n, ast.Call):
            cs = a.cg.by_node.get(id(n))
            if cs is not None and cs.kind in ("table", "stored") and cs.targets and {t.id for t in cs.targets} <= ids:
                out.append(n)
    return out


def eq_texts(a, b):
    """both spellings of the symmetric test a == b"""
    return {f"{a} == {b}", f"{b} == {a}"}


def ne_texts(a, b):
    return {f"{a} != {b}", f"{b} != {a}"}


def conjuncts(test):
    """normalised conjunct texts of a test (a single conjunct when it is not a conjunction)"""
    return {norm(v) for v in (test.values if isinstance(test, ast.BoolOp) and isinstance(test.op, ast.And) else [test])}


_MIRROR = {"<": ">", ">": "<", "<=": ">=", ">=": "<=", "==": "==", "!=": "!="}


def cmp_texts(a, op, b):
    """both spellings of a comparison: a >= b  /  b <= a"""
    return {f"{a} {op} {b}", f"{b} {_MIRROR[op]} {a}"}


def ifexp_alternatives(e):
    """the expression with every conditional expression resolved either way (tests dropped)"""
    import copy

    order = list(ast.walk(e))
    for idx, n in enumerate(order):
        if isinstance(n, ast.IfExp):
            res = []
            for which in ("body", "orelse"):
                dup = copy.deepcopy(e)
                target = list(ast.walk(dup))[idx]
                pick = getattr(target, which)
                if target is dup:
                    res += ifexp_alternatives(pick)
                    continue

                class R(ast.NodeTransformer):
                    def visit(self, node):
                        if node is target:
                            return pick
                        return super().visit(node)

                res += ifexp_alternatives(R().visit(dup))
            return res
    return [e]


def element_sources(fnode, listvar):
    """expressions whose values become elements of the local list `listvar`: display elements, comprehension
    element, arguments of .append; conditional expressions resolved either way and single-assignment
    temporaries followed.  Returns (texts, loop variables of the comprehension / loop feeding it)"""
    raw = []
    for n in walk_local(fnode):
        if isinstance(n, ast.Assign) and any(isinstance(t, ast.Name) and t.id == listvar for t in n.targets):
            if isinstance(n.value, ast.List):
                raw += list(n.value.elts)
            elif isinstance(n.value, ast.ListComp):
                raw.append(n.value.elt)
            else:
                raw.append(n.value)
        elif isinstance(n, ast.Call) and isinstance(n.func, ast.Attribute) and n.func.attr == "append" and isinstance(n.func.value, ast.Name) and n.func.value.id == listvar and len(n.args) == 1:
            raw.append(n.args[0])
    out = set()
    todo = list(raw)
    seen = 0
    while todo and seen < 64:
        seen += 1
        e = todo.pop()
        for alt in ifexp_alternatives(e):
            if isinstance(alt, ast.Name):
                vals = assigned_values(fnode, alt.id)
                if vals and alt.id != listvar:
                    todo.extend(vals)
                    continue
            out.add(norm(alt))
    return out


def truthy_texts(x):
    """spellings of `x is non-empty` the canonical form keeps apart (x a container of unknown static type)"""
    return {x, f"len({x})"}


def value_sources(a, f, name_node, depth=4):
    """Where the value read at `name_node` (a Name load in f) can come from, following plain copies:
    a list of (kind, node) with kind in
      'param'            the function's parameter itself
      'unpack', (call, i) element i of a tuple-unpacking assignment from `call`
      'expr', value      the value expression of a plain assignment
      'other', node      loop variable, with-target, ...
    computed from reaching definitions (sa/refnorm.reaching_definitions), so it is independent of how many
    temporaries or renamings lie between the producer and the use."""
    from sa.refnorm import reaching_definitions

    key = ("reach", f.id)
    cache = a.__dict__.setdefault("_reach_cache", {})
    if key not in cache:
        cache[key] = reaching_definitions(f.node)
    reach = cache[key]
    pm = a.parents(f.mod)
    out = []
    seen = set()
    todo = [(name_node, depth)]
    while todo:
        n, d = todo.pop()
        for dnode in reach.get(id(n), []):
            if id(dnode) in seen:
                continue
            seen.add(id(dnode))
            if isinstance(dnode, ast.arg):
                out.append(("param", dnode))
                continue
            par = pm.get(id(dnode))
            if isinstance(par, ast.Tuple):
                asg = pm.get(id(par))
                if isinstance(asg, ast.Assign) and len(asg.targets) == 1 and asg.targets[0] is par:
                    idx = next(i for i, e in enumerate(par.elts) if e is dnode)
                    if isinstance(asg.value, ast.Tuple) and len(asg.value.elts) == len(par.elts):
                        v = asg.value.elts[idx]
                        if isinstance(v, ast.Name) and d > 0:
                            todo.append((v, d - 1))
                        else:
                            out.append(("expr", v))
                    else:
                        out.append(("unpack", (asg.value, idx)))
                    continue
            if isinstance(par, (ast.Assign, ast.AnnAssign)) and getattr(par, "value", None) is not None and (par.targets[0] if isinstance(par, ast.Assign) else par.target) is dnode:
                v = par.value
                if isinstance(v, ast.Name) and d > 0:
                    todo.append((v, d - 1))
                else:
                    out.append(("expr", v))
                continue
            out.append(("other", dnode))
    return out


def namespace_from_schema_name(a, f, ns_expr, schema_param, ns_param, sn_name="schema_name"):
    """the expression passed as namespace is element 0 of schema_name(<schema_param>, <the function's own namespace
    parameter>) on every path (reaching definitions)"""
    if not isinstance(ns_expr, ast.Name):
        return False
    srcs = value_sources(a, f, ns_expr)
    if not srcs:
        return False
    for kind, what in srcs:
        if kind == "unpack" and isinstance(what[0], ast.Call) and norm(what[0].func) == sn_name and what[1] == 0 and len(what[0].args) >= 2 and norm(what[0].args[0]) == schema_param and isinstance(what[0].args[1], ast.Name):
            inner = value_sources(a, f, what[0].args[1])
            if inner and all(k == "param" for k, n_ in inner):
                continue
            # the enclosing namespace may be a local copy of the parameter (namespace = ns)
            if inner and all(k == "param" or (k == "expr" and isinstance(w, ast.Name)) for k, w in inner):
                continue
        return False
    return True


def tree_order(root):
    """{id(node): position} in pre-order of the syntax tree (program order of evaluation for statements; line
    numbers are not reliable after normalisation, which copies and moves statements)"""
    order = {}
    todo = [root]
    while todo:
        n = todo.pop()
        order[id(n)] = len(order)
        todo.extend(reversed(list(ast.iter_child_nodes(n))))
    return order

