"""C01 Binary round trip — structural obligations (DESIGN 5, C01)."""
import ast

from sa.loader import AnalysisError, norm, walk_local
from sa.shapes import consumption, has_unknown
from sa.spec import avro_wire as spec
from .common import analysis, W_NAMES, R_NAMES, K_NAMES, norm_guard, renumber, str_consts_compared, tokens

PROP = "C01"
TECHNIQUE = "dispatch-table symmetry + wire-shape (token term) agreement writer/reader/skipper against the spec grammar; stream-access census; shared provenance rules of C02 (length / index / branch / default sources)"
LEVEL_TEXT = (
    "Static analysis: for every Avro type the token term the writer emits, the term the reader consumes and the term the "
    "skipper consumes are extracted from the syntax tree and compared with each other and with the frozen specification "
    "grammar; table key sets, record field order, by-name fallback and the set of operations applied to the input stream "
    "are checked on every run. This decides structural necessary conditions of the round trip for all schemas at once, "
    "which is what a sampled round-trip test cannot; equality of decoded values is not decided."
)
LEVEL_NOTE = (
    "Not decided: equality of the decoded value with the datum, varint / IEEE arithmetic, float32 rounding, normalisation of "
    "defaults (runtime values). Trusted: the declared varint primitive pair BinaryEncoder.write_int / BinaryDecoder.read_long, "
    "the spec table sa/spec/avro_wire.py, CPython ast."
)
ASSUMPTIONS = ["varint primitive pair (write_int/read_long) encodes/decodes inverse of each other (arithmetic not analysed)"]


def parser_kinds(a):
    """type names the schema parser accepts for data schemas"""
    ps = a.p.func("_schema_py:_parse_schema")
    kinds = set(str_consts_compared(ps.node, "schema_type"))
    prim = a.p.try_fold(ps.mod, ast.Name(id="PRIMITIVES", ctx=ast.Load()))
    if not prim:
        raise AnalysisError("PRIMITIVES does not fold to a set")
    kinds |= set(prim)
    # list schemas are unions
    if any(isinstance(n, ast.Call) and isinstance(n.func, ast.Name) and n.func.id == "isinstance" and len(n.args) == 2 and norm(n.args[1]) == "list" for n in walk_local(ps.node)):
        kinds.add("union")
    return kinds


def wshape(a, f):
    return a.shape(f, "w", W_NAMES)


def expected_writer(kind):
    k = spec.KIND_ALIAS.get(kind, kind)
    if k in spec.STRAIGHT:
        return spec.STRAIGHT[k]
    return {"bytes": spec.PREFIXED_W, "string": spec.PREFIXED_W, "fixed": spec.FIXED_W, "union": spec.UNION_W, "record": spec.RECORD}.get(k)


def expected_reader(kind):
    k = spec.KIND_ALIAS.get(kind, kind)
    if k in spec.STRAIGHT:
        return spec.STRAIGHT[k]
    return {"bytes": spec.PREFIXED_R, "string": spec.PREFIXED_R, "fixed": spec.FIXED_R, "union": spec.UNION_R, "record": spec.RECORD}.get(k)


def blocks_reader(item):
    return renumber(spec.BLOCKS_R.replace("ITEM", item).replace("nK", "n90").replace("nL", "n99"))


def check_shapes(ctx, a, rule, side_rules=("w", "r", "s")):
    """writer <= spec, spec <= reader, reader ~ skip for every table key (shared by C01.R2, C02.R1, C03.R1/R2)"""
    W, R, S = a.writers, a.readers, a.skips
    for kind in sorted(W.keys() | R.keys() | S.keys()):
        base = spec.KIND_ALIAS.get(kind, kind)
        for side, T, names in (("w", W, W_NAMES), ("r", R, R_NAMES), ("s", S, K_NAMES)):
            if side not in side_rules or kind not in T.entries:
                continue
            fs = T.funcs(kind)
            if len(fs) != 1:
                ctx.unrecognised(rule, f"{T.name}[{kind}]", T.mod.relpath, "entry does not resolve to exactly one function")
                continue
            f = fs[0]
            term = a.shape(f, "w" if side == "w" else "r", names)
            unk = has_unknown(term)
            inst = f"{T.name}[{kind}] -> {f.qualname}"
            if unk:
                ctx.unrecognised(rule, inst, f.where(), f"constructs not modelled by the shape extractor: {unk}")
                continue
            if base in ("array", "map"):
                got = norm_guard(consumption(term, keep_src=True))
                if side == "w":
                    want = spec.ARRAY_W if base == "array" else spec.MAP_W
                    got = got.replace("each(X.items())[0]", "K")
                else:
                    want = blocks_reader(spec.ARRAY_ITEM_R if base == "array" else spec.MAP_ITEM_R)
                    got = renumber(got.replace("{$1:=abs($1) ", "{$1:=-$1 "))
            else:
                got = consumption(term, keep_src=False).replace("}else{}", "}")
                want = expected_writer(kind) if side == "w" else expected_reader(kind)
            if want is None:
                ctx.unrecognised(rule, inst, f.where(), f"no specification term for kind {kind}")
                continue
            ctx.check(
                rule,
                inst,
                got == want,
                f.where(),
                construct=f"{f.qualname}: {got}",
                detail=f"{'emits' if side == 'w' else 'consumes'} `{got}` but the specification term for {base} is `{want}`",
            )


def run(ctx):
    a = analysis(ctx.program)
    W, R, S = a.writers, a.readers, a.skips

    # ---- R1 table totality / symmetry ---------------------------------------
    ctx.rule("C01.R1", "parser-accepted kinds <= keys(WRITERS) <= keys(READERS) = keys(SKIPS); aliases share one function", floor=20)
    kinds = parser_kinds(a)
    tmod = W.mod
    for k in sorted(kinds):
        ctx.check("C01.R1", f"parser kind {k} in WRITERS", k in W.keys(), tmod.relpath + ":WRITERS", f"WRITERS lacks {k}", f"_parse_schema accepts type {k!r} but WRITERS has no entry for it")
    for k in sorted(W.keys()):
        ctx.check("C01.R1", f"WRITERS[{k}] has a reader", k in R.keys(), R.mod.relpath + ":READERS", f"READERS lacks {k}", f"WRITERS can emit {k!r} but READERS has no entry")
    for k in sorted(R.keys() | S.keys()):
        ctx.check("C01.R1", f"READERS/SKIPS agree on {k}", k in R.keys() and k in S.keys(), R.mod.relpath + ":SKIPS", f"READERS/SKIPS differ on {k}", f"key {k!r} is not in both READERS and SKIPS")
    for alias, base in sorted(spec.KIND_ALIAS.items()):
        for T in (W, R, S):
            if alias in T.entries:
                ctx.check("C01.R1", f"{T.name}[{alias}] is {T.name}[{base}]", T.funcs(alias) == T.funcs(base), T.mod.relpath + ":" + T.name, f"{T.name}[{alias}] differs from {T.name}[{base}]", f"{alias} must be encoded exactly like {base}")

    # ---- R2 writer <= reader per type (through the spec term) -----------------
    ctx.rule("C01.R2", "per type: writer term and reader term are both instances of the specification term, with equal sub-schema paths", floor=30)
    check_shapes(ctx, a, "C01.R2", ("w", "r"))

    # ---- R3 record order: covered by the RECORD term (for[S['fields']]) ------
    ctx.rule("C01.R3", "write_record / read_record / skip_record iterate schema['fields'] of the same schema in list order", floor=3)
    for T, names, side in ((W, W_NAMES, "w"), (R, R_NAMES, "r"), (S, K_NAMES, "r")):
        f = T.funcs("record")[0]
        got = consumption(a.shape(f, side, names), keep_src=False).replace("}else{}", "}")
        ctx.check("C01.R3", f"{T.name}[record] field order", got == spec.RECORD, f.where(), f"{f.qualname}: {got}", f"fields are visited as `{got}`, not in the order of schema['fields']")

    # ---- R4 by-name fallback on both sides -----------------------------------
    ctx.rule("C01.R4", "write_data / read_data / skip_data: one table branch and one by-name branch recursing on named_schemas[...][type]", floor=3)
    want = {
        "_write_py:write_data": ("w", W_NAMES, "N[extract_record_type(S)]", W),
        "_read_py:read_data": ("r", R_NAMES, "N['writer'][extract_record_type(S)]", R),
        "_read_py:skip_data": ("r", K_NAMES, "N['writer'][extract_record_type(S)]", S),
    }
    for fid, (side, names, by_name, table) in want.items():
        f = a.p.func(fid)
        term = a.shape(f, side, names)
        ts, ds = tokens(term, ("T",)), tokens(term, ("D",))
        ids = {x.id for x in table.all_funcs()}
        if len(ts) != 1 or len(ds) != 1 or not set(ts[0][3]) <= ids:
            ctx.unrecognised("C01.R4", fid, f.where(), f"expected one call through {table.name} and one recursive call, found {len(ts)} / {len(ds)}")
            continue
        ctx.check("C01.R4", f"{fid}: unknown type names are resolved through {by_name}", ds[0][2] == by_name, f.where(), f"{f.qualname}: by-name arm recurses on {ds[0][2]}", f"a reference to a named type must be resolved as {by_name}; here it is `{ds[0][2]}`")
        ctx.check("C01.R4", f"{fid}: table branch and by-name branch are alternatives", _exclusive(term, ts[0], ds[0]), f.where(), f"{f.qualname}: table call and by-name recursion on one path", "both the table function and the by-name recursion can run for one value")
        args = ts[0][2]
        ctx.check("C01.R4", f"{fid} table call arguments", args[0] == "C" and "S" in args, f.where(), f"{f.qualname}: {ts[0][1]}({', '.join(args)})", "table function is not called with the dispatcher's own codec object and schema")

    # ---- R5 exact consumption: stream touched only by read(n) -----------------
    ctx.rule("C01.R5", "reachable from schemaless_reader, the input stream is touched only by fo.read(n) inside BinaryDecoder", floor=5)
    entry = a.p.func("_read_py:schemaless_reader")
    dec = a.p.cls("io.binary_decoder:BinaryDecoder")
    reach = a.cg.reachable([entry])
    n_reads = 0
    for f in reach:
        pm = a.parents(f.mod)
        for n in walk_local(f.node):
            if isinstance(n, ast.Attribute) and n.attr == "fo" and isinstance(n.ctx, ast.Load):
                par = pm.get(id(n))
                in_fstring = False
                q = par
                while q is not None and not isinstance(q, (ast.stmt,)):
                    if isinstance(q, ast.JoinedStr):
                        in_fstring = True
                    q = pm.get(id(q))
                if in_fstring:
                    continue
                ok = (
                    isinstance(par, ast.Attribute)
                    and par.attr == "read"
                    and isinstance(pm.get(id(par)), ast.Call)
                    and len(pm.get(id(par)).args) == 1
                    and not pm.get(id(par)).keywords
                    and f.cls is not None
                    and dec in a.p.mro(f.cls)
                )
                n_reads += 1
                ctx.check("C01.R5", f"stream use in {f.qualname}", ok, f.where(n), f"{f.qualname}: {norm(pm.get(id(par)) if isinstance(par, ast.Attribute) else par)}", "the input stream is used other than by read(n) inside BinaryDecoder (seek/peek/unsized read would break exact consumption)")
    # the user's stream parameter itself must only be wrapped in the decoder
    for n in walk_local(entry.node):
        if isinstance(n, ast.Name) and n.id == entry.pos_params[0] and isinstance(n.ctx, ast.Load):
            par = a.parent(entry.mod, n)
            ok = isinstance(par, ast.Call) and a.p.resolve_expr(entry.mod, par.func) == ("class", dec)
            ctx.check("C01.R5", "schemaless_reader wraps fo in BinaryDecoder only", ok, entry.where(n), f"schemaless_reader: {norm(par)}", "the input stream is used directly by schemaless_reader")

    # ---- R14 the int / long writers refuse no value of the type ------------------------------------------------------
    ctx.rule("C01.R14", "the writers of int and long raise for no value inside the type's range (evaluated on the boundary values with the rule's own evaluator; nothing is run)", floor=2)
    from sa import guards as _g

    for kind, (lo, hi) in (("int", (-2 ** 31, 2 ** 31 - 1)), ("long", (-2 ** 63, 2 ** 63 - 1))):
        for f in a.writers.funcs(kind):
            if len(f.pos_params) < 2:
                ctx.unrecognised("C01.R14", f"{f.qualname}", f.where(), "the writer does not take (encoder, datum, ..)")
                continue
            raises = [n for n in walk_local(f.node) if isinstance(n, ast.Raise)]
            if not raises:
                ctx.holds("C01.R14", f"{f.qualname} ({kind}): raises nothing of its own", f.where())
                continue
            D = f.pos_params[1]
            for rep in sorted({lo, lo + 1, -1, 0, 1, hi - 1, hi} if kind == "int" else {lo, lo + 1, -2 ** 31 - 1, -1, 0, 1, 2 ** 31, hi - 1, hi}):
                env = {D: rep}
                for pn in f.pos_params[2:]:
                    if pn == "fname" or pn.endswith("name"):
                        env[pn] = ""
                r = _g.run_chain([st for st in f.node.body], env, effects=[])
                inst = f"{f.qualname} ({kind}): {rep} is written"
                if r[0] == "raise":
                    ctx.violation("C01.R14", inst, f.where(r[1]), f"{f.qualname}: `{norm(r[1])[:70]}` is reached for datum = {rep}", f"{rep} is a legal {kind} (the range is [{lo}, {hi}], both ends included): a datum that conforms to the schema cannot be encoded")
                elif r[0] == "unknown":
                    ctx.unrecognised("C01.R14", inst, f.where(), f"`{norm(r[1])[:80]}` could not be evaluated for datum = {rep}")
                else:
                    ctx.holds("C01.R14", inst, f.where())

    # .. and the binary encoder's own primitives refuse none either (floats: the infinities and NaN are values of the type)
    encB14 = a.p.cls("io.binary_encoder:BinaryEncoder")
    reps14 = {
        "write_int": [-2 ** 31, -1, 0, 1, 2 ** 31 - 1],
        "write_long": [-2 ** 63, -2 ** 31 - 1, 0, 2 ** 31, 2 ** 63 - 1],
        "write_float": [0.0, -0.0, 1.5, 3.4028234663852886e38, -3.4028234663852886e38, float("inf"), float("-inf")],
        "write_double": [0.0, 1.5, 1.7976931348623157e308, float("inf"), float("-inf")],
        "write_boolean": [True, False],
    }
    for mname, reps in reps14.items():
        m14 = a.p.find_method(encB14, mname) if encB14 is not None else None
        if m14 is None or len(m14.pos_params) < 2:
            continue
        raises = [n for n in walk_local(m14.node) if isinstance(n, ast.Raise)]
        if not raises:
            ctx.holds("C01.R14", f"{m14.qualname}: raises nothing of its own", m14.where())
            continue
        D = m14.pos_params[1]
        consts14 = {}
        for st in m14.mod.tree.body:
            if isinstance(st, ast.Assign) and len(st.targets) == 1 and isinstance(st.targets[0], ast.Name):
                fv = a.p.try_fold(m14.mod, st.value, None)
                if isinstance(fv, (int, float)) and not isinstance(fv, bool):
                    consts14[st.targets[0].id] = fv
        for rep in reps:
            env = dict(consts14)
            env[D] = rep
            r = _g.run_chain(list(m14.node.body), env, effects=[])
            inst = f"{m14.qualname}: {rep!r} is written"
            if r[0] == "raise":
                ctx.violation("C01.R14", inst, m14.where(r[1]), f"{m14.qualname}: `{norm(r[1])[:70]}` is reached for datum = {rep!r}", f"{rep!r} is a value of the type (the infinities are IEEE-754 values with an encoding of their own; the range ends are included): a datum that conforms to the schema cannot be encoded")
            elif r[0] == "unknown":
                ctx.unrecognised("C01.R14", inst, m14.where(), f"`{norm(r[1])[:80]}` could not be evaluated for datum = {rep!r}")
            else:
                ctx.holds("C01.R14", inst, m14.where())

    # ---- shared: what is encoded is the datum's own value under the branch / length / index the reader decodes ----
    ctx.borrow("C16", {"C16.R4": "C01.R10", "C16.R5": "C01.R11", "C16.R6": "C01.R12"}, "values of logical types are data like any other: a preparer that stores a different number (rounded to the decimal context, truncated to the fixed size) breaks the round trip of the datum")
    ctx.borrow("C17", {"C17.R2": "C01.R16"}, "the bytes one schemaless_writer call emits are the encoding of its own datum: a buffer or encoder kept at module level between calls lets one call's output contain another's (overlapping calls, re-entrant calls from a records generator)", only=lambda o: any(k in o["where"] for k in ("schemaless_writer", "schemaless_reader", "write_data", "read_data")))
    ctx.borrow("C09", {"C09.R3": "C01.R13"}, "a datum that conforms to a union must be encodable: the search has to be able to select every conforming branch (record branches that share no field name with the datum included), in schema order")
    ctx.borrow("C02", {"C02.R2": "C01.R6", "C02.R3": "C01.R7", "C02.R4": "C01.R8", "C02.R5": "C01.R9", "C02.R9": "C01.R15"}, "a round trip returns the datum only if the writer encodes the datum's own value: the length prefix of the very bytes written, the index of the very symbol / validated branch, the default only for an absent key")


def _exclusive(term, t, d):
    """tokens t and d lie in different branches of one `if`"""
    from sa.shapes import flat as _f

    def has(seq, tok):
        return any(x is tok for x in _f(seq))

    def walk(seq):
        for it in seq:
            if it[0] == "if":
                a_t, a_d, b_t, b_d = has(it[2], t), has(it[2], d), has(it[3], t), has(it[3], d)
                if (a_t and b_d and not a_d and not b_t) or (b_t and a_d and not b_d and not a_t):
                    return True
                if walk(it[2]) or walk(it[3]):
                    return True
            elif it[0] in ("for", "while"):
                if walk(it[2]):
                    return True
        return False

    return walk(term)
