"""C04 Container round trip, self-describing, sequential I/O only — structural obligations."""
import ast
import re

from sa.loader import AnalysisError, norm, walk_local
from sa.shapes import consumption, has_unknown, flat, Shaper
from sa.cfg import cfg_of
from sa.spec import avro_wire as spec
from .common import analysis, tokens, names_in, cmp_texts, value_sources, true_facts, assigned_values
from .c05 import generators, gen_shape, block_loop, block_writer_shape, block_reader_shape, compress_exprs, raw_var_sources, _enclosing

PROP = "C04"
TECHNIQUE = "who-may-call-what census on user streams with control-dependence (CFG guards); header metadata dataflow; Writer typestate (ordering by dominance on dump/write/flush); codec table symmetry with inverse-pair and framing agreement"
LEVEL_TEXT = (
    "Static analysis: every method call on a user-supplied stream in the package is classified (input: read only; output: write, "
    "flush in Writer.flush, the seekable()->tell()->readable() probe, seek only under the append test) and anything else is a "
    "violation; the header metadata must receive avro.schema and avro.codec by plain stores before write_header; dump / write / "
    "flush / writer() must perform count -> payload -> sync -> reset, encode -> count -> threshold, and reach the flushes on the "
    "stated conditions; BLOCK_WRITERS and BLOCK_READERS must have the same keys, agreeing framing and inverse compression calls. "
    "These are necessary conditions for the round trip under every codec / block size / stream kind, decided for all paths."
)
LEVEL_NOTE = (
    "Not decided: that the records read back equal the records written for every codec and sync interval; canonical-form equality of the "
    "reported schema (runtime values). Trusted: stdlib stream API semantics, inverse codec pairs table."
)
ASSUMPTIONS = ["BytesIO.truncate does not move the stream position; seek(0) rewinds (stdlib facts)"]

INPUT_RECV = {"self.fo", "decoder.fo", "fo", "fp"}
OUTPUT_RECV = {"self._fo", "encoder._fo", "self.encoder._fo", "file_like"}
INTERNAL_RECV = {"self.io._fo", "tmp", "fo_buffer"}
STREAM_METHODS = {"read", "write", "seek", "tell", "flush", "close", "truncate", "getvalue", "seekable", "readable", "writable", "readline", "readinto", "readlines", "peek", "read1", "writelines", "fileno", "detach"}


def guard_texts(cfg, node):
    return [(norm(t.ast), lab) for (t, lab) in cfg.guards_of(node)]


def short_circuit_guarded(a, f, call, pred_attr):
    """is `call` in the right operand of an `and` whose earlier operand calls .<pred_attr>() on the same receiver?"""
    recv = norm(call.func.value)
    pm = a.parents(f.mod)
    q, child = pm.get(id(call)), call
    while q is not None and not isinstance(q, ast.stmt):
        if isinstance(q, ast.BoolOp) and isinstance(q.op, ast.And):
            idx = next(i for i, v in enumerate(q.values) if any(x is child for x in ast.walk(v)))
            for v in q.values[:idx]:
                for c in ast.walk(v):
                    if isinstance(c, ast.Call) and isinstance(c.func, ast.Attribute) and c.func.attr == pred_attr and norm(c.func.value) == recv:
                        return True
        if isinstance(q, ast.BoolOp) and isinstance(q.op, ast.Or):
            # `not x.pred() or <call>`: the later operand is evaluated only when x.pred() answered true
            idx = next(i for i, v in enumerate(q.values) if any(x is child for x in ast.walk(v)))
            for v in q.values[:idx]:
                if isinstance(v, ast.UnaryOp) and isinstance(v.op, ast.Not) and isinstance(v.operand, ast.Call) and isinstance(v.operand.func, ast.Attribute) and v.operand.func.attr == pred_attr and norm(v.operand.func.value) == recv:
                    return True
        child, q = q, pm.get(id(q))
    return False


def run(ctx):
    a = analysis(ctx.program)
    p = a.p
    W = p.cls("_write_py:Writer")
    GW = p.cls("_write_py:GenericWriter")

    # ---- R1 stream discipline ------------------------------------------------------------
    ctx.rule("C04.R1", "who may call what on user streams (input: read; output: write/flush/probe/append-seek); everything else on internal buffers", floor=25)
    n_sites = 0
    for f in p.all_functions():
        if f.mod.short in ("__main__",):
            continue
        cfg = None
        for n in walk_local(f.node):
            if not (isinstance(n, ast.Call) and isinstance(n.func, ast.Attribute) and n.func.attr in STREAM_METHODS):
                continue
            recv = norm(n.func.value)
            meth = n.func.attr
            cls = None
            if recv in INPUT_RECV and f.mod.short in ("_read_py", "io.binary_decoder"):
                cls = "input"
            elif recv in OUTPUT_RECV and f.mod.short in ("_write_py", "io.binary_encoder", "_write_common"):
                cls = "output"
            elif recv in INTERNAL_RECV:
                cls = "internal"
            else:
                continue
            n_sites += 1
            inst = f"{f.qualname}: {recv}.{meth}()"
            if cls == "internal":
                ctx.holds("C04.R1", inst + " [internal buffer]", f.where(n))
                continue
            if cls == "input":
                if meth == "read" and len(n.args) == 1:
                    ctx.holds("C04.R1", inst + " [input: sized read]", f.where(n))
                elif meth == "tell" and f.id == generators(a)["blocks"][0].id:
                    ctx.holds("C04.R1", inst + " [block reader reports offsets; not claimed sequential]", f.where(n))
                elif meth == "close" and isinstance(n.func.value, ast.Name) and (lambda srcs: any(k == "expr" and isinstance(v, ast.Call) and norm(v.func) in ("open", "io.open") for k, v in srcs))(value_sources(a, f, n.func.value)):
                    ctx.holds("C04.R1", inst + " [closes the file this function opened itself (when it did)]", f.where(n))
                else:
                    ctx.violation("C04.R1", inst, f.where(n), f"{f.qualname}: {norm(n)}", "the container reader must pull bytes only through sized read() calls on its input (pipes and sockets): this call needs a seekable/peekable stream or reads without a size")
                continue
            # output
            cfg = cfg or cfg_of(f)
            node = cfg.node_of(n)
            guards = guard_texts(cfg, node)
            if meth == "write":
                ctx.holds("C04.R1", inst + " [output: write]", f.where(n))
            elif meth == "flush" and f.cls is W and f.name == "flush":
                ctx.holds("C04.R1", inst + " [output: flush in Writer.flush]", f.where(n))
            elif meth == "seekable" and f.name == "_is_appendable":
                ctx.holds("C04.R1", inst + " [append probe]", f.where(n))
            elif meth in ("tell", "readable") and f.name == "_is_appendable":
                ok = short_circuit_guarded(a, f, n, "seekable") or any(".seekable()" in g and lab == "true" for g, lab in guards) or any(g == f"{recv}.seekable()" for g in true_facts(cfg, node))
                ctx.check("C04.R1", inst + " only after seekable() answered true", ok, f.where(n), f"{f.qualname}: {norm(n)} without seekable()", "tell()/readable() is called on an output that may be a pipe or socket: a new file must need only write and flush on a non-seekable output")
            elif meth == "seek" and f.cls is W and f.name == "__init__":
                ok = any("_is_appendable(" in g and lab == "true" for g, lab in guards)
                ctx.check("C04.R1", inst + " only in the append arm", ok, f.where(n), f"{f.qualname}: {norm(n)} outside the append test", "seek on the user's output outside the arm guarded by _is_appendable(...)")
            else:
                ctx.violation("C04.R1", inst, f.where(n), f"{f.qualname}: {norm(n)}", "writing a new container file must need only write and flush on the output stream")
    # a stream method taken as a value (`getattr(fo, 'tell', None)`, `t = fo.tell`) is going to be called somewhere the
    # table above cannot see: on user streams only write / read may be taken that way
    for f in p.all_functions():
        if f.mod.short not in ("_read_py", "io.binary_decoder", "_write_py", "io.binary_encoder", "_write_common"):
            continue
        callfuncs = {id(n.func) for n in walk_local(f.node) if isinstance(n, ast.Call)}
        for n in walk_local(f.node):
            recv = meth = None
            if isinstance(n, ast.Call) and isinstance(n.func, ast.Name) and n.func.id == "getattr" and len(n.args) >= 2 and isinstance(n.args[1], ast.Constant) and n.args[1].value in STREAM_METHODS:
                recv, meth = norm(n.args[0]), n.args[1].value
            elif isinstance(n, ast.Attribute) and isinstance(n.ctx, ast.Load) and n.attr in STREAM_METHODS and id(n) not in callfuncs:
                recv, meth = norm(n.value), n.attr
            if recv is None:
                continue
            is_in = recv in INPUT_RECV and f.mod.short in ("_read_py", "io.binary_decoder")
            is_out = recv in OUTPUT_RECV and f.mod.short in ("_write_py", "io.binary_encoder", "_write_common")
            if not (is_in or is_out):
                continue
            ok = (is_in and meth == "read") or (is_out and meth == "write")
            ctx.check("C04.R1", f"{f.qualname}: {recv}.{meth} taken as a value", ok, f.where(n), f"{f.qualname}: {norm(n)}", "a positioning / probing method of the user's stream is kept to be called later: a pipe or socket has the method and raises when it is called; a new file must need only write and flush, reading only sized reads")
    if n_sites < 25:
        raise AnalysisError(f"only {n_sites} stream call sites classified (about 40 expected)")
    ctx.extra["stream_call_sites"] = n_sites
    # the reader hands the user's stream only to the decoder
    fr = p.cls("_read_py:file_reader").methods["__init__"]
    uses = [n for n in walk_local(fr.node) if isinstance(n, ast.Name) and n.id == fr.pos_params[1] and isinstance(n.ctx, ast.Load)]
    for u in uses:
        par = a.parent(fr.mod, u)
        ok = (isinstance(par, ast.Call) and (norm(par.func) in ("isinstance", "BinaryDecoder"))) or isinstance(par, ast.Assign)
        ctx.check("C04.R1", "file_reader: user stream only wrapped in a decoder", ok, fr.where(u), f"{fr.qualname}: {norm(par)}", "the reader uses the user's stream other than through the decoder")

    # ---- R2 header content dataflow --------------------------------------------------------
    ctx.rule("C04.R2", "new-file path: metadata['avro.schema'] and metadata['avro.codec'] are stored (plain assignment) before write_header; reader derives codec/metadata/schema from the decoded header", floor=6)
    gi, wi = GW.methods["__init__"], W.methods["__init__"]
    stores = {}
    for f in (gi, wi):
        for n in walk_local(f.node):
            if isinstance(n, ast.Assign) and len(n.targets) == 1 and isinstance(n.targets[0], ast.Subscript) and norm(n.targets[0].value) == "self.metadata" and isinstance(n.targets[0].slice, ast.Constant):
                stores.setdefault(n.targets[0].slice.value, []).append((f, n))
    for key in (spec.SCHEMA_KEY, spec.CODEC_KEY):
        ok = len(stores.get(key, [])) == 1
        where = stores[key][0][0].where(stores[key][0][1]) if ok else wi.where()
        ctx.check("C04.R2", f"self.metadata[{key!r}] is assigned unconditionally-overwriting", ok, where, f"self.metadata[{key!r}] = ... ({len(stores.get(key, []))} plain stores)", f"the header entry {key} must be overwritten with this writer's value (a setdefault/update would let a stale caller-supplied value describe the file)")
    # once a reserved entry is stored nothing may overwrite it: no update / rebinding / computed-key store of the
    # metadata is reachable after the store (in Writer.__init__: after the base constructor, which stores avro.schema)
    def meta_mutations(f):
        out = []
        for n in walk_local(f.node):
            if isinstance(n, ast.Call) and isinstance(n.func, ast.Attribute) and norm(n.func.value) == "self.metadata" and n.func.attr in ("update", "setdefault", "pop", "popitem", "clear", "__setitem__", "__delitem__", "__ior__"):
                out.append(n)
            elif isinstance(n, (ast.Assign, ast.AugAssign, ast.AnnAssign, ast.Delete)):
                tgts = n.targets if isinstance(n, (ast.Assign, ast.Delete)) else [n.target]
                for t in tgts:
                    if norm(t) == "self.metadata":
                        out.append(n)
                    elif isinstance(t, ast.Subscript) and norm(t.value) == "self.metadata" and not (isinstance(t.slice, ast.Constant) and isinstance(n, ast.Assign)):
                        out.append(n)
        return out

    anchors = [(f, n, f"self.metadata[{key!r}]") for key in (spec.SCHEMA_KEY, spec.CODEC_KEY) for (f, n) in stores.get(key, [])]
    for c in walk_local(wi.node):
        if isinstance(c, ast.Call) and norm(c.func) in ("super().__init__", "GenericWriter.__init__"):
            anchors.append((wi, c, "the base constructor (which stores avro.schema)"))
    for f, n, what in anchors:
        cfg = cfg_of(f)
        after = cfg.reachable_from(cfg.node_of(n), skip_labels=("exc",))
        late = [m for m in meta_mutations(f) if m is not n and cfg.node_of(m) in after and not (isinstance(m, ast.Assign) and isinstance(m.targets[0], ast.Subscript) and isinstance(m.targets[0].slice, ast.Constant))]
        late += [m for m in walk_local(f.node) if isinstance(m, ast.Assign) and m is not n and isinstance(m.targets[0], ast.Subscript) and norm(m.targets[0].value) == "self.metadata" and isinstance(m.targets[0].slice, ast.Constant) and m.targets[0].slice.value in (spec.SCHEMA_KEY, spec.CODEC_KEY) and cfg.node_of(m) in after and (f, m) not in [(g, x) for v in stores.values() for (g, x) in v]]
        ctx.check("C04.R2", f"nothing overwrites the header metadata after {what} is stored", not late, f.where(late[0]) if late else f.where(n), f"{f.qualname}: {norm(late[0])[:100]}" if late else "", "a caller-supplied entry named avro.schema / avro.codec (or any later bulk update) replaces the writer's own value: the file describes itself with a schema or codec it was not written with")
    if spec.CODEC_KEY in stores and len(stores[spec.CODEC_KEY]) == 1:
        f, n = stores[spec.CODEC_KEY][0]
        cfg = cfg_of(f)
        wh = [c for c in walk_local(f.node) if isinstance(c, ast.Call) and isinstance(c.func, ast.Name) and c.func.id == "write_header"]
        codec_param = norm(n.value)
        ok = bool(wh) and all(cfg.dominates(cfg.node_of(n), cfg.node_of(c)) for c in wh) and codec_param in f.params
        ctx.check("C04.R2", "avro.codec is the codec argument and is stored before write_header", ok, f.where(n), f"{f.qualname}: {norm(n)}", "the codec stored in the header is not the constructor's codec argument or is stored after the header is written")
        # the block writer on the new-file path is chosen by the same variable
        bw = [x for x in walk_local(f.node) if isinstance(x, ast.Assign) and norm(x.targets[0]) == "self.block_writer"]
        new_arm = [x for x in bw if any("_is_appendable(" in g and lab == "false" for g, lab in guard_texts(cfg, cfg.node_of(x)))]
        ok = bool(new_arm) and all(norm(x.value) == f"BLOCK_WRITERS[{codec_param}]" for x in new_arm)
        ctx.check("C04.R2", "new file: block_writer = BLOCK_WRITERS[codec] with the codec named in the header", ok, f.where(new_arm[0]) if new_arm else f.where(), f"{f.qualname}: {[norm(x) for x in bw]}", "blocks of a new file are compressed with a codec other than the one named in its header")
        for c in wh:
            argt = [norm(x) for x in c.args]
            ctx.check("C04.R2", "write_header(self.encoder, self.metadata, self.sync_marker)", argt == ["self.encoder", "self.metadata", "self.sync_marker"], f.where(c), f"{f.qualname}: {norm(c)}", "the header is not written from this writer's metadata and sync marker onto its output")
    if spec.SCHEMA_KEY in stores and len(stores[spec.SCHEMA_KEY]) == 1:
        f, n = stores[spec.SCHEMA_KEY][0]
        ok = isinstance(n.value, ast.Call) and norm(n.value.func) == "json.dumps"
        ctx.check("C04.R2", "avro.schema is the JSON text of the schema", ok, f.where(n), f"{f.qualname}: {norm(n)}", "the header schema is not json.dumps of the schema")
    # write_header writes every entry it is given (an empty value is a value)
    wh = p.maybe_func("_write_py:write_header")
    if wh is not None and len(wh.pos_params) >= 2:
        mp = wh.pos_params[1]
        comps = [c for n in walk_local(wh.node) if isinstance(n, (ast.DictComp, ast.GeneratorExp, ast.ListComp)) for c in n.generators if norm(c.iter) in (f"{mp}.items()", mp, f"{mp}.keys()")]
        loops = [n for n in walk_local(wh.node) if isinstance(n, ast.For) and norm(n.iter) in (f"{mp}.items()", mp, f"{mp}.keys()")]
        if comps and not loops:
            filt = [norm(i) for c in comps for i in c.ifs]
            ctx.check("C04.R2", "write_header: every metadata entry is written (no filter on the entries)", not filt, wh.where(), f"write_header: entries filtered by {filt}", "an entry the caller supplied (an empty string is a value) is dropped from the header: the reader does not report the metadata that was written")
        elif loops and not comps:
            def stores_in(stmts):
                return any(isinstance(x, (ast.Assign, ast.AugAssign)) and any(isinstance(t, ast.Subscript) for t in (x.targets if isinstance(x, ast.Assign) else [x.target])) for st in stmts for x in ast.walk(st))

            cond = []
            for lp in loops:
                cond += ["continue / break" for n in ast.walk(lp) if isinstance(n, (ast.Continue, ast.Break))][:1]
                cond += [norm(n.test) for n in ast.walk(lp) if isinstance(n, ast.If) and stores_in(n.body) != stores_in(n.orelse)]
            ctx.check("C04.R2", "write_header: every metadata entry is written (no filter on the entries)", not cond, wh.where(), f"write_header: entries filtered by {cond}", "an entry the caller supplied (an empty string is a value) is dropped from the header: the reader does not report the metadata that was written")
        else:
            ctx.unrecognised("C04.R2", "write_header: every metadata entry is written", wh.where(), "the iteration over the metadata entries was not found")
    # ... and the writer keeps every entry the caller supplied: the metadata it stores is not a filtered copy
    gwi = p.maybe_func("_write_py:GenericWriter.__init__")
    if gwi is not None and len(gwi.pos_params) > 2:
        md_p = "metadata" if "metadata" in gwi.params else gwi.pos_params[2]
        for n in walk_local(gwi.node):
            if isinstance(n, ast.Assign) and any(norm(t) == "self.metadata" for t in n.targets):
                filt = [c for c in ast.walk(n.value) if isinstance(c, (ast.DictComp, ast.ListComp, ast.GeneratorExp, ast.SetComp)) and any(g.ifs and md_p in names_in(g.iter) for g in c.generators)]
                ctx.check("C04.R2", "GenericWriter: the metadata stored are all the entries the caller supplied", not filt, gwi.where(n), f"GenericWriter.__init__: {norm(n)[:100]}", "user metadata entries are dropped by a filter before they reach the header: the reader does not report the metadata that were supplied")
    rh = p.func("_read_py:file_reader._read_header")
    want = {
        "self.metadata": lambda t: "self._header['meta']" in t and ".decode()" in t,
        "self._schema": lambda t: t == f"json.loads(self.metadata['{spec.SCHEMA_KEY}'])",
        "self.codec": lambda t: t == f"self.metadata.get('{spec.CODEC_KEY}', 'null')",
        "self.writer_schema": lambda t: t.startswith("parse_schema(self._schema, self._named_schemas['writer']"),
    }
    # locals that mirror a field (`metadata = ...; self.metadata = metadata`, `x = self.x = ...`) are read as the field
    import copy as _copy

    mirror = {}
    for n in walk_local(rh.node):
        if isinstance(n, ast.Assign):
            locs = [t.id for t in n.targets if isinstance(t, ast.Name)]
            flds = [norm(t) for t in n.targets if isinstance(t, ast.Attribute) and norm(t.value) == "self"]
            if isinstance(n.value, ast.Name) and flds and len(assigned_values(rh.node, n.value.id)) == 1:
                mirror[n.value.id] = flds[0]
            for l_ in locs:
                if flds and len(assigned_values(rh.node, l_)) == 1:
                    mirror[l_] = flds[0]
                elif isinstance(n.value, ast.Attribute) and norm(n.value.value) == "self" and len(assigned_values(rh.node, l_)) == 1:
                    mirror[l_] = norm(n.value)

    class _Fields(ast.NodeTransformer):
        def visit_Name(self, n):
            if isinstance(n.ctx, ast.Load) and n.id in mirror:
                return ast.copy_location(ast.parse(mirror[n.id], mode="eval").body, n)
            return n

    def _field_text(v, attr):
        if isinstance(v, ast.Name) and mirror.get(v.id) == attr:
            vs = assigned_values(rh.node, v.id)
            if len(vs) == 1:
                v = vs[0]
        return norm(_Fields().visit(_copy.deepcopy(v)))

    for attr, pred in want.items():
        vals = [_field_text(n.value, attr) for n in walk_local(rh.node) if isinstance(n, ast.Assign) and any(norm(t) == attr for t in n.targets)]
        ctx.check("C04.R2", f"reader: {attr} derived from the decoded header only", len(vals) == 1 and pred(vals[0]), rh.where(), f"_read_header: {attr} = {vals}", f"{attr} is not derived from the file's own header")

    # ---- R3 writer typestate --------------------------------------------------------------
    ctx.rule("C04.R3", "Writer typestate: dump = count, payload(whole pending buffer), sync, reset(truncate+seek 0), count:=0; write = encode, increment, threshold->dump; flush/writer reach the flushes", floor=8)
    dump = W.methods["dump"]
    term = Shaper(p, a.cg, "w").shape(dump, None, extra_env={"self.encoder": "C"})
    ev = [(t[0], t[1]) for t in term if t[0] in ("V", "T", "R", "call", "set")]
    want = [("V", "self.block_count"), ("T", "self.block_writer"), ("R", "self.sync_marker")]
    ok = ev[:3] == want
    rest = ev[3:]
    trunc = [i for i, e in enumerate(rest) if e == ("call", "self.io._fo.truncate(0)")]
    seek = [i for i, e in enumerate(rest) if e[0] == "call" and re.fullmatch(r"self\.io\._fo\.seek\(0(, (SEEK_SET=0|0|SEEK_SET))?\)", e[1])]
    reset = [i for i, e in enumerate(rest) if e == ("set", "self.block_count")]
    ok = ok and len(trunc) == 1 and len(seek) == 1 and len(reset) == 1
    ctx.check("C04.R3", "dump: V(count) payload sync, then truncate(0) and seek(0) of the pending buffer, then block_count = 0", ok, dump.where(), f"Writer.dump: {ev}", "dump must emit count, the whole pending buffer through block_writer, the sync marker, and then reset the buffer (truncate AND seek 0) and the count; a missing step corrupts the next block")
    if ok:
        sets = [t for t in term if t[0] == "set" and t[1] == "self.block_count"]
        ctx.check("C04.R3", "dump: block_count reset to 0", sets[0][2] == "0", dump.where(), f"Writer.dump: block_count := {sets[0][2]}", "block_count must be reset to 0")
    wr = W.methods["write"]
    cfg = cfg_of(wr)
    enc = [n for n in walk_local(wr.node) if isinstance(n, ast.Call) and isinstance(n.func, ast.Name) and n.func.id == "write_data"]
    inc = [n for n in walk_local(wr.node) if isinstance(n, ast.AugAssign) and norm(n.target) == "self.block_count"]
    dcall = [n for n in walk_local(wr.node) if isinstance(n, ast.Call) and norm(n.func) == "self.dump"]
    direct = [n for n in walk_local(wr.node) if isinstance(n, ast.Call) and not (isinstance(n.func, ast.Name) and n.func.id == "write_data") and n.args and norm(n.args[0]) == "self.io" and len(n.args) >= 3]
    if not enc and direct and len(inc) == 1:
        # the record is handed to something else than write_data together with the pending-block encoder: a table writer
        # picked once, which skips what write_data does before the table (logical-type preparation, by-name schemas)
        ctx.violation("C04.R3", "write: the record is encoded through write_data", wr.where(direct[0]), f"Writer.write: {norm(direct[0])[:90]}", "the record is encoded by a function chosen outside write_data: the preparation of logical values (dates, decimals, uuids, timestamps) and the resolution of a by-name top-level schema that write_data performs are bypassed, so a file whose top-level schema carries a logical type cannot be written")
    elif len(enc) != 1 or len(inc) != 1 or len(dcall) != 1:
        ctx.unrecognised("C04.R3", "Writer.write", wr.where(), "expected one write_data call, one block_count increment and one dump call")
    else:
        en, ic, dc = cfg.node_of(enc[0]), cfg.node_of(inc[0]), cfg.node_of(dcall[0])
        ok = norm(enc[0].args[0]) == "self.io" and cfg.dominates(en, ic) and cfg.dominates(ic, dc) and isinstance(inc[0].op, ast.Add) and norm(inc[0].value) == "1"
        ctx.check("C04.R3", "write: encode into the pending buffer, then block_count += 1, then threshold test", ok, wr.where(inc[0]), f"Writer.write: order of {norm(enc[0])[:40]} / {norm(inc[0])} / dump", "the record must be encoded into self.io before the count is incremented by one, and the dump test must follow both")
        g = [gt for gt in guard_texts(cfg, dc) if "sync_interval" in gt[0]]
        okg = len(g) == 1 and g[0][1] == "true" and g[0][0] in cmp_texts("self.io._fo.tell()", ">=", "self.sync_interval")
        ctx.check("C04.R3", "write: dump when pending bytes >= sync_interval", okg, wr.where(dcall[0]), f"Writer.write: dump under {g}", "a block must be emitted as soon as the pending buffer reaches sync_interval bytes")
    fl = p.find_method(W, "flush")
    flush_rule(ctx, a, fl, "C04.R3")
    wf = p.func("_write_py:writer")
    cfg = cfg_of(wf)
    fcalls = [cfg.node_of(n) for n in walk_local(wf.node) if isinstance(n, ast.Call) and isinstance(n.func, ast.Attribute) and n.func.attr == "flush"]
    loops = [n for n in walk_local(wf.node) if isinstance(n, ast.For)]
    ok = bool(fcalls) and bool(loops) and cfg.must_pass(cfg.node_of(loops[0].iter), cfg.exit, fcalls)
    ctx.check("C04.R3", "writer(): output.flush() on every normal exit after the record loop", ok, wf.where(), "writer: flush after loop", "writer() can return without flushing the last block")
    wcalls = [n for l in loops for n in ast.walk(l) if isinstance(n, ast.Call) and isinstance(n.func, ast.Attribute) and n.func.attr == "write"]
    ok = len(loops) == 1 and norm(loops[0].iter) == wf.pos_params[2] and len(wcalls) == 1 and [norm(x) for x in wcalls[0].args] == [norm(loops[0].target)]
    ctx.check("C04.R3", "writer(): every record of the iterable is written once, in order", ok, wf.where(), f"writer: for {norm(loops[0].target) if loops else '?'} in {norm(loops[0].iter) if loops else '?'}", "the record loop does not write each element of `records` exactly once in iteration order")
    # (e) record generator decodes exactly block_count records from the block buffer
    f, call, init = generators(a)["records"]
    term = gen_shape(a, f)
    body = block_loop(term) or []
    vt = [t for t in body if t[0] == "V"]
    st = [t for t in body if t[0] == "set"]
    tt = [t for t in body if t[0] == "T"]
    fr = [t for t in body if t[0] == "for"]
    ok = len(vt) == 1 and len(tt) == 1 and len(fr) == 1 and ((len(st) >= 1 and st[0][2] == vt[0][1] and fr[0][1] == f"range(${st[0][1]})") or fr[0][1] == f"range({vt[0][1]})")
    if ok:
        ds = [t for t in flat(fr[0][2]) if t[0] == "D"]
        ok = len(ds) == 1 and ds[0][1] == "r" and ds[0][2] == "S" and ds[0][3] == "RS" and ds[0][4].startswith("NEWCODEC(")
    ctx.check("C04.R3", "record generator: exactly block_count records decoded from the block's own buffer under (writer, reader) schema", ok, f.where(), f"{f.qualname}: {consumption(term, True)}", "the number of records decoded per block is not the block's count, or they are not decoded from the block payload")

    # ---- R4 codec tables --------------------------------------------------------------------
    ctx.rule("C04.R4", "keys(BLOCK_WRITERS) = keys(BLOCK_READERS); framing agrees; compress/decompress are an inverse pair", floor=10)
    BW, BR = a.block_writers, a.block_readers
    for k in sorted(BW.keys() | BR.keys()):
        ctx.check("C04.R4", f"codec {k} in both tables", k in BW.keys() and k in BR.keys(), BW.mod.relpath + ":BLOCK_WRITERS", f"codec {k} missing on one side", f"codec {k!r} can be written but not read or vice versa")
    for k in sorted(spec.REQUIRED_CODECS):
        ctx.check("C04.R4", f"required codec {k} present", k in BW.keys() and k in BR.keys(), BW.mod.relpath + ":BLOCK_WRITERS", f"required codec {k} missing", "the specification requires null and deflate")
    for k in sorted(BW.keys() & BR.keys()):
        wfs, rfs = BW.funcs(k), BR.funcs(k)
        if not wfs or not rfs:
            continue
        wf_, rf_ = wfs[0], rfs[0]
        wterm = block_writer_shape(a, wf_)
        wt = tokens(wterm)
        payload = wt[1][1] if len(wt) > 1 and wt[1][0] == "R" else None
        exprs = compress_exprs(wf_, payload)
        # displays unpacked on the spot: f(x, *()) is f(x), f(x, *(a,)) is f(x, a)
        import re as _re4
        exprs = [_re4.sub(r"\*\(([^()*]+?),?\)", r"\1", _re4.sub(r",\s*\*\(\)", "", e_)) for e_ in exprs]
        rterm = block_reader_shape(a, rf_)
        rets = [t[1] for t in rterm if t[0] == "ret"]
        wpat, rpat = spec.CODEC_PAIRS.get(k, (None, None))
        ok_w = _match_compress(k, exprs)
        ok_r = len(rets) == 1 and _match_decompress(k, rets[0])
        if not ok_w and any(("*" + nm) in e_ or ("**" + nm) in e_ for e_ in exprs for nm in (set(__import__("re").findall(r"\*\*?([A-Za-z_]\w*)", e_)))):
            # arguments handed over through a local tuple / dict (`f(x, *level_args)`): which arguments reach the call is
            # not visible in the expression
            ctx.unrecognised("C04.R4", f"codec {k}: writer compresses with the specified function", wf_.where(), f"{wf_.qualname}: arguments passed through an unpacked local: {exprs}")
        else:
            ctx.check("C04.R4", f"codec {k}: writer compresses with the specified function", ok_w, wf_.where(), f"{wf_.qualname}: payload = {exprs}", f"payload of codec {k} must be {wpat or 'the block bytes themselves'}")
        ctx.check("C04.R4", f"codec {k}: reader decompresses with the inverse", ok_r, rf_.where(), f"{rf_.qualname}: returns {rets}", f"reader of codec {k} must return BytesIO({rpat or 'the payload'}(payload))")

    # ---- shared ----
    ctx.borrow("C01", {"C01.R2": "C04.R5"}, "records inside blocks are binary-encoded values: a container round trip needs the writer and reader wire shapes to agree for every kind")
    ctx.borrow("C12", {"C12.R3": "C04.R6"}, "a self-describing file needs a header schema that defines every type it names (top-level unions and separately parsed types included)")


def _match_compress(k, exprs):
    if not exprs:
        return False
    pats = {
        "null": [r"B"],
        "deflate": [r"zlib\.compress\(block_bytes(, compression_level)?\)\[2:-1\]", r"zlib\.compress\(B(, L)?\)\[2:-1\]"],
        "bzip2": [r"bz2\.compress\(block_bytes\)", r"bz2\.compress\(B\)"],
        "xz": [r"lzma\.compress\(block_bytes\)", r"lzma\.compress\(B\)"],
        "snappy": [r"snappy_compress\(block_bytes\)", r"snappy_compress\(B\)"],
        "zstandard": [r"zstandard\.ZstdCompressor\((level=compression_level)?\)\.compress\(block_bytes\)", r"zstandard\.ZstdCompressor\((level=L)?\)\.compress\(B\)"],
        "lz4": [r"lz4\.block\.compress\(block_bytes\)", r"lz4\.block\.compress\(B\)"],
    }.get(k)
    if pats is None:
        return False
    return all(any(re.fullmatch(pt, e) for pt in pats) for e in exprs)


def _match_decompress(k, ret):
    pats = {
        "null": r"BytesIO\(t2\)",
        "deflate": r"BytesIO\(zlib\.decompressobj\(-15\)\.decompress\(t2\)\)",
        "bzip2": r"BytesIO\(bz2\.decompress\(t2\)\)",
        "xz": r"BytesIO\(lzma\.decompress\(t2\)\)",
        "snappy": r"BytesIO\(snappy_decompress\(t2\)\)",
        "zstandard": r"BytesIO\(zstandard\.ZstdDecompressor\(\)\.decompressobj\(\)\.decompress\(t2\)\)",
        "lz4": r"BytesIO\(lz4\.block\.decompress\(t2\)\)",
    }.get(k)
    return pats is not None and re.fullmatch(pats, ret) is not None


def flush_rule(ctx, a, fl, rule):
    """flush: dump iff pending bytes or pending records; the stream flush is reached on every normal path"""
    if fl is None:
        ctx.unrecognised(rule, "Writer.flush", "", "the container writer has no flush method of its own or inherited")
        return
    cfg = cfg_of(fl)
    dcall = [n for n in walk_local(fl.node) if isinstance(n, ast.Call) and norm(n.func) == "self.dump"]
    sflush = [n for n in walk_local(fl.node) if isinstance(n, ast.Call) and isinstance(n.func, ast.Attribute) and n.func.attr == "flush" and norm(n.func.value) != "self"]
    # the flush that counts is the output stream's: `<encoder>.flush()` flushes it only if the binary encoder's method does
    enc = a.p.cls("io.binary_encoder:BinaryEncoder") if hasattr(a.p, "cls") else None
    enc_flushes = False
    try:
        ef = enc.methods.get("flush") if enc is not None else None
        enc_flushes = ef is not None and any(isinstance(n, ast.Call) and isinstance(n.func, ast.Attribute) and n.func.attr == "flush" and norm(n.func.value) in ("self._fo", "self.fo") for n in walk_local(ef.node))
    except Exception:
        enc_flushes = False
    real = [n for n in sflush if norm(n.func.value) in OUTPUT_RECV or (norm(n.func.value) in ("self.encoder", "encoder") and enc_flushes)]
    if sflush and not real:
        ctx.violation(rule, "flush: the output stream's flush() is reached on every normal path", fl.where(sflush[0]), f"{fl.qualname}: {norm(sflush[0])} does not flush the output stream", "the only flush called is the encoder's, which does nothing for the binary encoder: after flush() the block is still in the stream's buffer, a reader of the file sees a file without it")
        return
    if len(dcall) != 1 or len(sflush) != 1:
        ctx.unrecognised(rule, "Writer.flush", fl.where(), "expected one dump call and one stream flush")
        return
    g = guard_texts(cfg, cfg.node_of(dcall[0]))
    ok = len(g) == 1 and g[0][1] == "true" and pending_guard(g[0][0])
    ctx.check(rule, "flush: dump when the pending buffer holds bytes OR records (zero-byte records count)", ok, fl.where(dcall[0]), f"Writer.flush: dump under {g}", "flush must emit the pending block when it holds bytes or when block_count > 0 (records that encode to zero bytes would otherwise be lost)")
    ok = cfg.must_pass(cfg.entry, cfg.exit, [cfg.node_of(sflush[0])])
    ctx.check(rule, "flush: the output stream's flush() is reached on every normal path", ok, fl.where(sflush[0]), "Writer.flush: stream flush skipped on some path", "flush() can return without flushing the output stream")


def pending_guard(text):
    return text in (
        "self.io._fo.tell() or self.block_count > 0",
        "self.block_count > 0 or self.io._fo.tell()",
        "self.io._fo.tell() > 0 or self.block_count > 0",
        "self.block_count > 0 or self.io._fo.tell() > 0",
        "self.block_count > 0",
        "self.block_count",
        "self.block_count != 0",
    )
