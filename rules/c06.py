"""C06 Truncated / sync-corrupted files never yield foreign records — handler and path discipline."""
import ast

from sa.loader import AnalysisError, norm, walk_local
from sa.shapes import consumption, has_unknown, flat, Shaper
from sa.cfg import cfg_of, handler_names, exc_ancestors
from .common import analysis, tokens, ends_in_raise
from .c05 import generators, gen_shape, block_reader_shape

PROP = "C06"
TECHNIQUE = "exception-handler inventory over the call graph (which handler may swallow which exception around which stream read); CFG path rules: clean-EOF-only-before-consumption, payload-before-yield dominance, sync comparison on every loop round; who-may-read census of raw stream reads outside the decoder"
LEVEL_TEXT = (
    "Static analysis: every except handler in the package is inventoried with the exceptions it can match, what its try body can "
    "transitively reach on the call graph and whether it completes normally; only the two block-count handlers may end iteration on "
    "EOFError, their try body must be exactly the varint read, that read may raise EOFError only before consuming a byte, the "
    "length-checked payload read dominates the first record of a block and the sync comparison lies on every path round the block "
    "loop. This covers every cut offset and every corrupted marker because it is a statement about all paths, not sampled files."
)
LEVEL_NOTE = (
    "Not decided: that what is yielded is a prefix of what was written as values; behaviour of third-party decompressors on corrupt payloads. "
    "Trusted: builtin exception hierarchy table in sa/cfg.py, call-graph soundness census."
)
ASSUMPTIONS = ["builtin exception hierarchy as tabulated in sa/cfg.EXC_PARENT"]

DANGEROUS = {"EOFError", "ValueError", "StructError", "struct.error", "error", "TypeError", "IndexError", "KeyError", "LookupError", "UnicodeDecodeError", "UnicodeError", "Exception", "BaseException", "OSError", "IOError"}


def stream_readers(a):
    """functions that read the input stream directly: BinaryDecoder methods calling self.fo.read, skip_sync"""
    out = set()
    for f in a.p.all_functions():
        for n in walk_local(f.node):
            if isinstance(n, ast.Call) and isinstance(n.func, ast.Attribute) and n.func.attr in ("read", "readinto", "readline") :
                recv = norm(n.func.value)
                if recv in ("self.fo", "fo", "decoder.fo", "self._fo", "fp"):
                    out.add(f.id)
    return out


def try_body_reaches_read(a, f, trynode, readers):
    for st in trynode.body:
        for n in ast.walk(st):
            if isinstance(n, ast.Call):
                cs = a.cg.by_node.get(id(n))
                if cs is None:
                    continue
                for g in a.cg.reachable(cs.targets):
                    if g.id in readers:
                        return True
            if isinstance(n, ast.Attribute) and n.attr in ("read",) and norm(n.value) in ("self.fo", "fo", "decoder.fo", "fp"):
                return True
    return False


def handler_completes_normally(h):
    return not ends_in_raise(h.body)


def run(ctx):
    a = analysis(ctx.program)
    p = a.p
    gens = generators(a)
    readers = stream_readers(a)
    if not readers:
        raise AnalysisError("no stream-reading function found")
    dec = p.cls("io.binary_decoder:BinaryDecoder")
    vread = p.find_method(dec, "read_long")

    # ---- R1 handler discipline ---------------------------------------------------------
    ctx.rule("C06.R1", "no handler that can match a truncation error around a stream read completes normally, except the two block-count handlers (try body = one varint read, body = return)", floor=10)
    sanctioned = {f.id for (f, call, init) in gens.values()}
    n_handlers = 0
    sanctioned_seen = 0
    inventory = []
    for f in p.all_functions():
        for n in walk_local(f.node):
            if not isinstance(n, ast.Try):
                continue
            reaches = try_body_reaches_read(a, f, n, readers)
            for h in n.handlers:
                n_handlers += 1
                names = handler_names(h) or ["<bare>"]
                can_match = any(nm in DANGEROUS or nm.split(".")[-1] in DANGEROUS or nm == "<bare>" for nm in names)
                normal = handler_completes_normally(h)
                inventory.append({"where": f.where(h), "catches": names, "try_reaches_stream_read": reaches, "completes_normally": normal})
                inst = f"{f.qualname}: except {', '.join(names)}"
                if not (reaches and can_match and normal):
                    ctx.holds("C06.R1", inst, f.where(h), "raises" if not normal else ("no stream read in try body" if not reaches else "cannot match a truncation error"))
                    continue
                # must be one of the two sanctioned block-count handlers
                body_ok = len(n.body) == 1 and isinstance(n.body[0], ast.Assign) and isinstance(n.body[0].value, ast.Call)
                tgt_ok = False
                if body_ok:
                    cs = a.cg.by_node.get(id(n.body[0].value))
                    tgt_ok = cs is not None and vread in cs.targets and all(t.node.name == "read_long" for t in cs.targets) and not n.body[0].value.args
                only_return = len(h.body) == 1 and isinstance(h.body[0], ast.Return) and h.body[0].value is None
                only_eof = names == ["EOFError"]
                ok = f.id in sanctioned and body_ok and tgt_ok and only_return and only_eof and not n.orelse and not n.finalbody
                if ok:
                    sanctioned_seen += 1
                ctx.check("C06.R1", inst, ok, f.where(h), f"{f.qualname}: try {{{'; '.join(norm(s) for s in n.body)[:120]}}} except {', '.join(names)} completes normally", "a handler that can swallow a truncation/corruption error around a stream read lets the reader go on (or end) normally: records after a cut could be dropped or foreign data yielded; only `try: count = decoder.read_long() / except EOFError: return` in the two block generators is allowed")
    ctx.check("C06.R1", "both block generators keep their sanctioned clean-EOF handler", sanctioned_seen == 2, "fastavro/_read_py.py", f"{sanctioned_seen} sanctioned handlers", "expected exactly one `except EOFError: return` around the block-count read in each of the two generators")
    ctx.extra["handler_inventory"] = inventory

    # the module-level imports of the package have handlers too (ImportError): census only
    ctx.extra["handlers_in_functions"] = n_handlers

    # ---- R2 clean EOF only at a boundary ---------------------------------------------
    ctx.rule("C06.R2", "in the varint read, no path to `raise EOFError` passes through more than one stream read (EOFError means nothing was consumed)", floor=1)
    cfg = cfg_of(vread)
    reads = [cfg.node_of(n) for n in walk_local(vread.node) if isinstance(n, ast.Call) and isinstance(n.func, ast.Attribute) and n.func.attr == "read" and norm(n.func.value) == "self.fo"]
    reads = list(dict.fromkeys(reads))
    eofs = [cfg.node_of(n) for n in walk_local(vread.node) if isinstance(n, ast.Raise) and n.exc is not None and "EOFError" in norm(n.exc)]
    if not reads or not eofs:
        raise AnalysisError("varint read has no stream read or no raise EOFError")
    # other calls that could raise EOFError themselves
    callee_eof = [n for n in walk_local(vread.node) if isinstance(n, ast.Call) and a.cg.by_node.get(id(n)) is not None and a.cg.by_node[id(n)].targets]
    for e in eofs:
        bad = False
        for r1 in reads:
            after1 = cfg.reachable_from(r1)
            for r2 in reads:
                if r2 in after1 and (e in cfg.reachable_from(r2) or e is r2):
                    bad = True
        ctx.check("C06.R2", f"{vread.qualname}: raise EOFError reachable after at most one stream read", not bad, vread.where(e.ast), f"{vread.qualname}: {norm(e.ast)} after a second read", "EOFError can be raised after more than one byte was requested: a file cut inside a multi-byte block count would end iteration normally instead of raising")
    ctx.check("C06.R2", f"{vread.qualname}: calls no package function (cannot raise EOFError indirectly)", not callee_eof, vread.where(), f"{vread.qualname}: calls {[norm(c) for c in callee_eof]}", "the varint read delegates to other package code whose EOFError would be indistinguishable from a clean end of file")

    # ---- R3 payload before records ------------------------------------------------------
    ctx.rule("C06.R3", "in both generators the (length-checked) block payload read dominates the first yield; every raw read in a block reader is followed by a length test that raises", floor=9)
    for role, (f, call, init) in sorted(gens.items()):
        cfg = cfg_of(f)
        tcalls = [n for n in walk_local(f.node) if isinstance(n, ast.Call) and a.cg.by_node.get(id(n)) is not None and a.cg.by_node[id(n)].kind == "table" and set(t.id for t in a.cg.by_node[id(n)].targets) & set(x.id for x in a.block_readers.all_funcs())]
        yields = [n for n in walk_local(f.node) if isinstance(n, ast.Yield)]
        if len(tcalls) != 1 or not yields:
            ctx.unrecognised("C06.R3", f.qualname, f.where(), "expected one call through BLOCK_READERS and at least one yield")
            continue
        tn = cfg.node_of(tcalls[0])
        for y in yields:
            ctx.check("C06.R3", f"{f.qualname}: block payload read dominates yield", cfg.dominates(tn, cfg.node_of(y)), f.where(y), f"{f.qualname}: yield before the block payload is read", "a record/block can be yielded before the whole (length-checked) payload of its block was obtained")
    for codec in sorted(a.block_readers.keys()):
        for f in a.block_readers.funcs(codec):
            term = block_reader_shape(a, f)
            items = list(flat(term))
            for i, t in enumerate(items):
                if t[0] == "R" and len(t) == 3:
                    n, tok = t[1], t[2]
                    def checked(u):
                        if u[0] != "if" or f"len({tok})" not in u[1] or n not in u[1]:
                            return False
                        then_, else_ = u[2], (u[3] if len(u) > 3 else [])
                        short_when_true = ("<" in u[1] and "<=" not in u[1]) or "!=" in u[1]
                        short_when_false = "==" in u[1] or ">=" in u[1]
                        arm = then_ if short_when_true else (else_ if short_when_false else None)
                        return bool(arm) and arm[-1][0] == "raise"

                    ok = any(checked(u) for u in items[i + 1 :])
                    ctx.check("C06.R3", f"BLOCK_READERS[{codec}]: read of {n} bytes is length-checked", ok, f.where(), f"{f.qualname}: R[{n}] unchecked", "a short payload read is not detected before the payload is decoded")

    # ---- R4 sync on every round --------------------------------------------------------
    ctx.rule("C06.R4", "every path from the block payload read back to the loop head passes through the sync comparison (16 bytes vs the header's marker, raising on mismatch)", floor=3)
    ss = p.func("_read_py:skip_sync")
    term = Shaper(p, a.cg, "r").shape(ss, ["C.fo", "MARKER"])
    rt = [t for t in flat(term) if t[0] == "R"]
    ok = len(rt) == 1 and rt[0][1].startswith("SYNC_SIZE=") and any(t[0] == "if" and t[1] == f"({rt[0][2]} != MARKER)" and t[2] and t[2][-1][0] == "raise" for t in term)
    ctx.check("C06.R4", "skip_sync reads SYNC_SIZE bytes, compares with the marker and raises on inequality", ok, ss.where(), f"skip_sync: {consumption(term, True)}", "the sync check does not compare exactly SYNC_SIZE bytes with the expected marker or does not raise on mismatch")
    for role, (f, call, init) in sorted(gens.items()):
        cfg = cfg_of(f)
        tcalls = [n for n in walk_local(f.node) if isinstance(n, ast.Call) and a.cg.by_node.get(id(n)) is not None and a.cg.by_node[id(n)].kind == "table"]
        syncs = [n for n in walk_local(f.node) if isinstance(n, ast.Call) and isinstance(n.func, (ast.Name, ast.Attribute)) and p.resolve_func(f.mod, n.func) is ss]
        counts = [n for n in walk_local(f.node) if isinstance(n, ast.Call) and isinstance(n.func, ast.Attribute) and n.func.attr == "read_long"]
        if len(tcalls) != 1 or len(counts) != 1:
            ctx.unrecognised("C06.R4", f.qualname, f.where(), "expected one block read and one count read")
            continue
        if not syncs:
            ctx.violation("C06.R4", f"{f.qualname}: sync comparison present", f.where(), f"{f.qualname}: no skip_sync call", "the block loop never compares the sync marker")
            continue
        tn, cn = cfg.node_of(tcalls[0]), cfg.node_of(counts[0])
        sn = [cfg.node_of(s) for s in syncs]
        ok = cfg.must_pass(tn, cn, sn)
        ctx.check("C06.R4", f"{f.qualname}: sync comparison on every path round the block loop", ok, f.where(syncs[0]), f"{f.qualname}: path from block read to next count read avoiding skip_sync", "a block can be followed by the next one without its trailing sync marker having been compared")
        for s in syncs:
            argt = [norm(x) for x in s.args]
            okm = len(argt) == 2 and argt[0].endswith(".fo") and any(isinstance(n, ast.Assign) and norm(n.targets[0]) == argt[1] and norm(n.value) in ("header['sync']",) for n in walk_local(f.node))
            ctx.check("C06.R4", f"{f.qualname}: marker compared is the header's", okm, f.where(s), f"{f.qualname}: {norm(s)}", "the marker passed to the sync check is not header['sync'] read from the file header")

    # ---- R5 header failure ------------------------------------------------------------
    ctx.rule("C06.R5", "_read_header: the EOFError handler raises", floor=1)
    rh = p.func("_read_py:file_reader._read_header")
    hs = [h for n in walk_local(rh.node) if isinstance(n, ast.Try) for h in n.handlers]
    if not hs:
        ctx.holds("C06.R5", "_read_header has no handler (errors propagate)", rh.where())
    for h in hs:
        ctx.check("C06.R5", f"_read_header: except {', '.join(handler_names(h))} raises", ends_in_raise(h.body), rh.where(h), f"_read_header: except {', '.join(handler_names(h))}", "a failure to read the header is swallowed")

    # ---- shared ----
    ctx.borrow("C03", {"C03.R4": "C06.R6"}, "a truncated file is detected only if every raw read of the decoder raises on a short result")

    ctx.borrow("C01", {"C01.R5": "C06.R7"}, "the short-read rule covers fo.read(n) inside BinaryDecoder only: any other way of obtaining bytes from the input (readinto, iteration, a second reader) escapes it")

    # ---- R8 raw stream reads on the container path ----------------------------------------------------------
    ctx.rule("C06.R8", "outside BinaryDecoder the container reader touches the raw input stream only in is_avro (magic comparison) and skip_sync (marker comparison that raises)", floor=2)
    allowed = {"is_avro": "compares with MAGIC", "skip_sync": "compares with the sync marker and raises"}
    rmod8 = p.module("_read_py")
    # the reading modules: _read_py and the helper modules of the package it takes functions from (a function moved
    # there is still part of the container reader)
    mods8 = [rmod8] + [m for m in p.modules.values() if m is not rmod8 and m.short in ("_read_common",)]
    for f8 in sorted([f for m in mods8 for f in m.all_funcs], key=lambda x: x.id):
        for n8 in walk_local(f8.node):
            if isinstance(n8, ast.Call) and isinstance(n8.func, ast.Attribute) and n8.func.attr in ("read", "readinto", "readline", "read1") and (norm(n8.func.value) in ("fo", "fp", "stream") or norm(n8.func.value).endswith(".fo")):
                inst = f"{f8.qualname}: {norm(n8)[:60]}"
                if f8.name in allowed:
                    ctx.holds("C06.R8", inst + f" ({allowed[f8.name]})", f8.where(n8))
                else:
                    ctx.violation("C06.R8", inst + " is a raw read outside the decoder", f8.where(n8), f"{f8.qualname}: {norm(n8)[:80]}", "bytes taken from the input stream without the decoder's length check: a file cut inside this read is not detected (a short sync marker or header is accepted)")


