"""C03 Decoder accepts every valid encoding; rejects bad indices / short input."""
import ast
import re
import struct

from sa.loader import AnalysisError, norm, walk_local
from sa.shapes import consumption, has_unknown, flat
from sa.cfg import cfg_of
from sa.callgraph import bind_args
from sa.spec import avro_wire as spec
from .common import analysis, R_NAMES, K_NAMES, tokens, names_in, assigned_values
from .c01 import check_shapes

PROP = "C03"
TECHNIQUE = "reader/skipper wire-shape agreement with the spec's general block grammar; taint from wire integers to subscripts with a sign-domain guard evaluator over CFG dominators; short-read discipline per stream read"
LEVEL_TEXT = (
    "Static analysis: the reader's and skipper's token terms must accept the specification's full block grammar (any number "
    "of blocks, negative count followed by a byte size) and be equal to each other type by type; every integer read off the "
    "wire that reaches a subscript must be dominated by a guard that a sign-domain evaluator proves excludes negative values "
    "(the upper side is Python's IndexError), every index read must be range-checked even when skipped, and every stream "
    "read must flow into a consumer that raises on a short result. Universal over encodings because it quantifies over code paths."
)
LEVEL_NOTE = (
    "Not decided: that the decoded value equals what an independent decoder obtains (runtime values, varint arithmetic). "
    "Trusted: spec table, struct.unpack raising struct.error on a short buffer, ord() raising on an empty one, IndexError for indices >= len."
)
ASSUMPTIONS = ["struct.unpack raises struct.error when the buffer is shorter than calcsize(fmt); ord(b'') raises TypeError; list subscripts raise IndexError for index >= len"]


# --------------------------------------------------------------------------- sign-domain evaluator

def eval_neg(e, var):
    """Three-valued truth of guard `e` under the assumption that `var` is a negative integer
    (and len(...) / range() are non-negative).  True / False / None (unknown)."""
    if isinstance(e, ast.BoolOp):
        vals = [eval_neg(v, var) for v in e.values]
        if isinstance(e.op, ast.Or):
            if any(v is True for v in vals):
                return True
            if all(v is False for v in vals):
                return False
            return None
        if any(v is False for v in vals):
            return False
        if all(v is True for v in vals):
            return True
        return None
    if isinstance(e, ast.UnaryOp) and isinstance(e.op, ast.Not):
        v = eval_neg(e.operand, var)
        return None if v is None else (not v)
    if isinstance(e, ast.Compare):
        # chained comparison = conjunction of links
        left = e.left
        res = True
        for op, right in zip(e.ops, e.comparators):
            r = _link(left, op, right, var)
            if r is False:
                return False
            if r is None:
                res = None
            left = right
        return res
    return None


def _sign(e, var):
    """'neg' | 'nonneg' | 'zero' | None"""
    if isinstance(e, ast.Name) and e.id == var:
        return "neg"
    if isinstance(e, ast.Constant) and isinstance(e.value, int) and not isinstance(e.value, bool):
        return "zero" if e.value == 0 else ("nonneg" if e.value > 0 else "negconst")
    if isinstance(e, ast.UnaryOp) and isinstance(e.op, ast.USub) and isinstance(e.operand, ast.Constant) and isinstance(e.operand.value, int):
        return "negconst" if e.operand.value > 0 else "zero"
    if isinstance(e, ast.Call) and isinstance(e.func, ast.Name) and e.func.id == "len":
        return "nonneg"
    return None


def _link(a, op, b, var):
    sa, sb = _sign(a, var), _sign(b, var)
    # var OP nonneg/zero
    if sa == "neg" and sb in ("nonneg", "zero"):
        if isinstance(op, (ast.Lt, ast.LtE, ast.NotEq)):
            return True
        if isinstance(op, (ast.Gt, ast.GtE, ast.Eq)):
            return False
    if sb == "neg" and sa in ("nonneg", "zero"):
        if isinstance(op, (ast.Gt, ast.GtE, ast.NotEq)):
            return True
        if isinstance(op, (ast.Lt, ast.LtE, ast.Eq)):
            return False
    # var <= -1  /  var < -k : unknown in general, except <= -1 and < 0 handled above
    if sa == "neg" and sb == "negconst" and isinstance(b, ast.UnaryOp) and b.operand.value == 1:
        if isinstance(op, ast.LtE):
            return True
        if isinstance(op, ast.Gt):
            return False
    # membership in range(len(..)) / range(n)
    if sa == "neg" and isinstance(b, ast.Call) and isinstance(b.func, ast.Name) and b.func.id == "range" and len(b.args) == 1:
        if isinstance(op, ast.In):
            return False
        if isinstance(op, ast.NotIn):
            return True
    return None


# --------------------------------------------------------------------------- taint

def eval_neg_test(t):
    """the test is `<something> < 0` (the canonical spelling of `0 > x` as well)"""
    return isinstance(t, ast.Compare) and len(t.ops) == 1 and isinstance(t.ops[0], ast.Lt) and isinstance(t.comparators[0], ast.Constant) and t.comparators[0].value == 0 and not isinstance(t.comparators[0].value, bool)


def wire_int_methods(a):
    """BinaryDecoder methods whose whole effect is one varint read that is returned"""
    dec = a.p.cls("io.binary_decoder:BinaryDecoder")
    out = set()
    for name, m in dec.methods.items():
        if m.node.name == "read_long":
            out.add(name)
            continue
        term = a.shape(m, "r", None)
        toks = [t for t in flat(term) if t[0] in ("V", "P", "R", "D", "T", "unk")]
        rets = [t for t in term if t[0] == "ret"]
        if len(toks) == 1 and toks[0][0] == "V" and len(rets) == 1 and rets[0][1] == toks[0][1]:
            out.add(name)
    return out


def tainted_vars(f, is_source, seed=()):
    """names (and which expression nodes) carrying a wire integer inside f (flow-insensitive closure)"""
    tainted = set(seed)
    changed = True

    def expr_tainted(e):
        """the *value* of e is a wire integer (or arithmetic on one).  An element selected by a wire integer
        (`X[i]`) and the result of a non-source call are data, not wire integers: the subscript `X[i]` is a sink
        of its own."""
        if isinstance(e, ast.Subscript):
            return False
        if isinstance(e, ast.Call):
            return is_source(e)
        if isinstance(e, ast.Name):
            return e.id in tainted and isinstance(e.ctx, ast.Load)
        return any(expr_tainted(c) for c in ast.iter_child_nodes(e) if isinstance(c, ast.expr))

    while changed:
        changed = False
        for n in walk_local(f.node):
            if isinstance(n, ast.Assign) and expr_tainted(n.value):
                # arithmetic on a wire int is still a wire int; a call result is not
                if isinstance(n.value, ast.Call) and not is_source(n.value):
                    continue
                if isinstance(n.value, ast.Subscript):
                    continue
                for t in n.targets:
                    if isinstance(t, ast.Name) and t.id not in tainted:
                        tainted.add(t.id)
                        changed = True
    return tainted, expr_tainted


def run(ctx):
    a = analysis(ctx.program)
    R, S = a.readers, a.skips

    ctx.rule("C03.R1", "spec <= reader: every reader term accepts the specification's term (full block grammar for array/map)", floor=17)
    check_shapes(ctx, a, "C03.R1", ("r",))

    ctx.rule("C03.R2", "reader ~ skip: per type the skipper consumes exactly what the reader consumes, same sub-schema path", floor=17)
    check_shapes(ctx, a, "C03.R2", ("s",))
    for kind in sorted(R.keys() & S.keys()):
        rf, sf = R.funcs(kind)[0], S.funcs(kind)[0]
        rt, st = a.shape(rf, "r", R_NAMES), a.shape(sf, "r", K_NAMES)
        if has_unknown(rt) or has_unknown(st):
            ctx.unrecognised("C03.R2", f"READERS[{kind}] ~ SKIPS[{kind}]", sf.where(), f"constructs not modelled by the shape extractor: {has_unknown(rt) + has_unknown(st)}")
            continue
        rc = consumption(rt, keep_src=True).replace("}else{}", "}")
        sc = consumption(st, keep_src=True).replace("}else{}", "}")
        ctx.check("C03.R2", f"READERS[{kind}] ~ SKIPS[{kind}]", rc == sc, sf.where(), f"{sf.qualname}: {sc}", f"skipper consumes `{sc}` but reader consumes `{rc}`")

    # ---- R3 wire index bounds -------------------------------------------------
    ctx.rule("C03.R3", "taint: a wire integer reaching a subscript is dominated by a guard excluding negative values; every index read is range-checked", floor=4)
    srcs = wire_int_methods(a)
    if not {"read_long", "read_enum", "read_index"} <= srcs:
        raise AnalysisError(f"wire integer sources not recognised: {sorted(srcs)}")
    dec = a.p.cls("io.binary_decoder:BinaryDecoder")

    def is_source_in(f):
        def is_source(call):
            cs = a.cg.by_node.get(id(call))
            if cs is None:
                return False
            return any(t.cls is not None and dec in a.p.mro(t.cls) and t.node.name in {dec.methods[s].node.name for s in srcs} and _method_name(call) in srcs for t in cs.targets)

        return is_source

    index_methods = {"read_enum", "read_index"}
    work = []  # (function, seed tainted params)
    seen = set()
    mods = [a.p.module("_read_py")]
    for m in mods:
        for f in m.all_funcs:
            work.append((f, ()))
    n_sources = n_sinks = 0
    while work:
        f, seed = work.pop()
        key = (f.id, tuple(sorted(seed)))
        if key in seen:
            continue
        seen.add(key)
        is_source = is_source_in(f)
        tainted, expr_tainted = tainted_vars(f, is_source, seed)
        cfg = cfg_of(f)
        # sinks
        for n in walk_local(f.node):
            if isinstance(n, ast.Subscript) and isinstance(n.ctx, ast.Load) and expr_tainted(n.slice):
                n_sinks += 1
                var = _single_var(n.slice, tainted)
                node = cfg.node_of(n)
                if var is None:
                    ctx.violation("C03.R3", f"{f.qualname}: subscript {norm(n)}", f.where(n), f"{f.qualname}: {norm(n)}", "a value read off the wire is used as a subscript without being bound to a variable that a guard could check (a negative index wraps around)")
                    continue
                ok = False
                for (t, lab) in cfg.guards_of(node):
                    if t.kind != "test":
                        continue
                    v = eval_neg(t.ast, var)
                    if v is not None and v != (lab == "true"):
                        ok = True
                ctx.check("C03.R3", f"{f.qualname}: subscript {norm(n)} unreachable with {var} < 0", ok, f.where(n), f"{f.qualname}: {norm(n)}", f"wire integer `{var}` reaches the subscript with no dominating guard that excludes negative values; a negative index wraps around to a branch/symbol from the end instead of raising")
            # interprocedural: tainted argument -> callee parameter
            if isinstance(n, ast.Call):
                cs = a.cg.by_node.get(id(n))
                if cs is not None and cs.kind == "direct":
                    for t in cs.targets:
                        if t.mod is not f.mod or t.cls is not None:
                            continue
                        b = bind_args(t, n)
                        ps = tuple(sorted(p for p, arg in b.items() if expr_tainted(arg) and not (isinstance(arg, ast.Call) and not is_source(arg)) ))
                        if ps:
                            work.append((t, ps))
        # every index read (enum / union) must be range-checked in its function, even when skipped
        for n in walk_local(f.node):
            if isinstance(n, ast.Call) and is_source(n) and _method_name(n) in index_methods:
                n_sources += 1
                par = a.parent(f.mod, n)
                var = None
                if isinstance(par, ast.Assign) and len(par.targets) == 1 and isinstance(par.targets[0], ast.Name):
                    var = par.targets[0].id
                checked = False
                wrong_bound = []
                not_raising = []
                if var is not None:
                    for t in cfg.nodes:
                        if t.kind == "test" and var in names_in(t.ast):
                            lo = eval_neg(t.ast, var)
                            has_len = any(isinstance(c, ast.Call) and isinstance(c.func, ast.Name) and c.func.id in ("len", "range") for c in ast.walk(t.ast))
                            if lo is not None and has_len:
                                checked = True
                                # out of range means an error: no path from the failing side of the test returns a value
                                bad_lab = "true" if lo else "false"
                                raise_nodes = [cfg.node_of(r_) for r_ in walk_local(f.node) if isinstance(r_, ast.Raise)]
                                for (m_, lab_) in t.succ:
                                    if lab_ == bad_lab and not (m_ in raise_nodes or cfg.must_pass(m_, cfg.exit, raise_nodes, skip_labels=("exc",))):
                                        not_raising.append(norm(t.ast))
                                # the bound is the number of symbols (enum) / of branches (union: the schema is the list itself)
                                lens = [c.args[0] for c in ast.walk(t.ast) if isinstance(c, ast.Call) and isinstance(c.func, ast.Name) and c.func.id == "len" and len(c.args) == 1]
                                for la in lens:
                                    texts = {norm(la)} | ({norm(v) for v in assigned_values(f.node, la.id)} if isinstance(la, ast.Name) and la.id not in f.pos_params else set())
                                    if _method_name(n) == "read_enum":
                                        good = any(re.fullmatch(r"\w+\['symbols'\]", x) for x in texts)
                                        plain = all(re.fullmatch(r"\w+(\['\w+'\])?", x) for x in texts)
                                    else:
                                        good = isinstance(la, ast.Name) and la.id in f.pos_params or any(x in f.pos_params for x in texts)
                                        plain = all(re.fullmatch(r"\w+(\['\w+'\])?", x) for x in texts)
                                    if not good and plain:
                                        wrong_bound.append(norm(la))
                    # or handed to a helper that checks it (helper analysed with the parameter tainted)
                    for c in walk_local(f.node):
                        if isinstance(c, ast.Call) and any(isinstance(x, ast.Name) and x.id == var for x in c.args):
                            cs = a.cg.by_node.get(id(c))
                            if cs is not None and cs.kind == "direct" and any(t.mod is f.mod and t.cls is None for t in cs.targets):
                                checked = checked or _helper_checks(a, cs.targets[0], bind_args(cs.targets[0], c), var)
                ctx.check("C03.R3", f"{f.qualname}: {norm(n)} is range-checked", checked, f.where(n), f"{f.qualname}: {norm(n)}", "an enum/union index read off the wire is not compared with the number of symbols/branches in this function: an out-of-range index (e.g. in a skipped field) does not raise")
                if checked:
                    ctx.check("C03.R3", f"{f.qualname}: an out-of-range {norm(n)} always raises", not not_raising, f.where(n), f"{f.qualname}: after `{not_raising[0] if not_raising else ''}` fails a path returns normally", "an index outside the schema's range is turned into a value (a default, a clamped index) instead of an error")
                    ctx.check("C03.R3", f"{f.qualname}: {norm(n)} is compared with the number of " + ("symbols" if _method_name(n) == "read_enum" else "branches"), not wrong_bound, f.where(n), f"{f.qualname}: {norm(n)} bound len({', '.join(wrong_bound)})", "the index is compared with the length of something other than the symbol list (enum) / the union itself: an out-of-range index passes or a valid one is refused")
    if n_sinks < 1 or n_sources < 1:
        raise AnalysisError(f"C03.R3 anchors missing: {n_sources} index sources, {n_sinks} subscript sinks")
    ctx.extra["C03.R3"] = {"wire_int_methods": sorted(srcs), "index_sources": n_sources, "subscript_sinks": n_sinks}

    # ---- R5 the byte size of a block decides nothing ------------------------------
    ctx.rule("C03.R5", "the byte size that follows a negative block count is discarded or used only as an amount to skip: no test depends on it (items may take no bytes at all, so no relation between the size and the count holds for every valid encoding)", floor=1)
    n_sizes = 0
    seen_nodes = set()
    for f in list(dec.methods.values()) + list(a.p.module("_read_py").all_funcs):
        if id(f.node) in seen_nodes:
            continue
        seen_nodes.add(id(f.node))
        is_source = is_source_in(f)
        for n in walk_local(f.node):
            if not (isinstance(n, ast.If) and eval_neg_test(n.test)):
                continue
            for st in n.body:
                for c in ast.walk(st):
                    if not (isinstance(c, ast.Call) and (is_source(c) or (f.cls is dec and isinstance(c.func, ast.Attribute) and norm(c.func) == "self.read_long"))):
                        continue
                    n_sizes += 1
                    par = a.parent(f.mod, c)
                    inst = f"{f.qualname}: block byte size {norm(c)}"
                    if isinstance(par, ast.Expr):
                        ctx.holds("C03.R5", inst + " is discarded", f.where(c))
                        continue
                    if isinstance(par, ast.Assign) and len(par.targets) == 1 and isinstance(par.targets[0], ast.Name):
                        sv = par.targets[0].id
                        tests = [t for t in walk_local(f.node) if isinstance(t, (ast.If, ast.While, ast.IfExp, ast.Assert)) and sv in names_in(t.test)]
                        if tests:
                            ctx.violation("C03.R5", inst + " decides nothing", f.where(tests[0]), f"{f.qualname}: `{norm(tests[0].test)}` depends on the block byte size `{sv}`", "a block of items that take no bytes (nulls, empty records) has byte size 0 whatever its count: a test on the size rejects or mis-reads a specification-valid encoding")
                        else:
                            ctx.holds("C03.R5", inst + f" (bound to {sv}) reaches no test", f.where(c))
                        continue
                    if isinstance(par, (ast.Compare, ast.BoolOp, ast.If, ast.While)):
                        ctx.violation("C03.R5", inst + " decides nothing", f.where(c), f"{f.qualname}: {norm(par)[:100]}", "a test on the block byte size rejects or mis-reads a specification-valid encoding")
                    else:
                        ctx.holds("C03.R5", inst + " is an operand, not a test", f.where(c))
    if n_sizes < 1:
        raise AnalysisError("C03.R5: no read of a block byte size (a varint read under `count < 0`) found")

    # ---- R4 short read raises -----------------------------------------------
    ctx.rule("C03.R4", "each fo.read(n) in BinaryDecoder flows into a consumer that raises on a short result", floor=7)
    for name, m in sorted(dec.methods.items()):
        if dec.aliases.get(name):
            continue
        cfg = cfg_of(m)
        for n in walk_local(m.node):
            if not (isinstance(n, ast.Call) and isinstance(n.func, ast.Attribute) and n.func.attr == "read" and norm(n.func.value) == "self.fo"):
                continue
            par = a.parent(m.mod, n)
            inst = f"{m.qualname}: {norm(n)}"
            size = n.args[0] if n.args else None
            if isinstance(par, ast.Call) and isinstance(par.func, ast.Name) and par.func.id == "unpack" and len(par.args) == 2 and par.args[1] is n:
                fmt = a.p.try_fold(m.mod, par.args[0])
                k = a.p.try_fold(m.mod, size) if size is not None else None
                try:
                    need = struct.calcsize(fmt)
                except Exception:
                    need = None
                ctx.check("C03.R4", inst + " -> unpack", need is not None and need == k, m.where(n), f"{m.qualname}: {norm(par)}", f"unpack({fmt!r}) needs {need} bytes but {k} are read: a short or long read is not detected")
            elif isinstance(par, ast.Call) and isinstance(par.func, ast.Name) and par.func.id == "ord":
                ctx.holds("C03.R4", inst + " -> ord() raises on an empty read", m.where(n))
            elif isinstance(par, ast.Assign) and len(par.targets) == 1 and isinstance(par.targets[0], ast.Name):
                v = par.targets[0].id
                rnode = cfg.node_of(par)
                tests = []
                for t in cfg.nodes:
                    if t.kind != "test":
                        continue
                    kind = _short_test(t.ast, v, size)
                    if kind is None:
                        continue
                    raising = [m2 for (m2, lab) in t.succ if lab == kind]
                    if raising and all(cfg.exit not in ({x} | cfg.reachable_from(x)) for x in raising):
                        tests.append(t)
                ok = bool(tests) and cfg.must_pass(rnode, cfg.exit, tests)
                ctx.check("C03.R4", inst + " -> length test that raises", ok, m.where(n), f"{m.qualname}: {norm(par)}", f"the bytes read into `{v}` can reach a normal return without passing a test of their length that raises on a short read")
            else:
                ctx.violation("C03.R4", inst, m.where(n), f"{m.qualname}: {norm(par) if par is not None else norm(n)}", "result of a stream read is used without any short-read detection")
    # struct.error is converted, never swallowed
    rd = a.p.func("_read_py:read_data")
    hs = [h for n in walk_local(rd.node) if isinstance(n, ast.Try) for h in n.handlers if h.type is not None and "StructError" in norm(h.type) or (h.type is not None and "struct.error" in norm(h.type))]
    if not hs:
        ctx.violation("C03.R4", "read_data converts struct.error", rd.where(), "read_data: no struct.error handler", "a short fixed-width read raises struct.error which is not mapped to EOFError")
    for h in hs:
        ctx.check("C03.R4", "read_data: struct.error handler raises", bool(h.body) and isinstance(h.body[-1], ast.Raise), rd.where(h), f"read_data: except {norm(h.type)}", "the struct.error handler does not re-raise: a truncated value would be returned")

    # ---- shared ----
    ctx.borrow("C16", {"C16.R3": "C03.R6"}, "under a schema with a logical type the value the reader returns is the converted one: a reader-side conversion on the wrong epoch or unit returns another value than an independent decoder", only=lambda o: ":read_" in o.get("where", ""))


def _method_name(call):
    return call.func.attr if isinstance(call.func, ast.Attribute) else None


def _single_var(e, tainted):
    if isinstance(e, ast.Name) and e.id in tainted:
        return e.id
    return None


def _helper_checks(a, helper, binding, var):
    """does `helper`, called with `var` bound to one of its parameters, range-check that parameter?"""
    pname = None
    for p, arg in binding.items():
        if isinstance(arg, ast.Name) and arg.id == var:
            pname = p
    if pname is None:
        return False
    for n in walk_local(helper.node):
        if isinstance(n, (ast.If, ast.While)) :
            lo = eval_neg(n.test, pname)
            has_len = any(isinstance(c, ast.Call) and isinstance(c.func, ast.Name) and c.func.id in ("len", "range") for c in ast.walk(n.test))
            if lo is not None and has_len:
                return True
    return False


def _short_test(e, v, size):
    """which out-edge ('true'/'false') of test `e` is taken on a short read into v; None if e is not such a test"""
    if isinstance(e, ast.UnaryOp) and isinstance(e.op, ast.Not) and isinstance(e.operand, ast.Name) and e.operand.id == v:
        return "true"
    if isinstance(e, ast.Name) and e.id == v:
        return "false"
    if isinstance(e, ast.Compare) and len(e.ops) == 1:
        l, r = e.left, e.comparators[0]
        if isinstance(l, ast.Call) and isinstance(l.func, ast.Name) and l.func.id == "len" and len(l.args) == 1 and isinstance(l.args[0], ast.Name) and l.args[0].id == v:
            if size is not None and norm(r) == norm(size):
                if isinstance(e.ops[0], (ast.NotEq, ast.Lt)):
                    return "true"
                if isinstance(e.ops[0], (ast.Eq, ast.GtE)):
                    return "false"
    return None
