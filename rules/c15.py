"""C15 JSON codec — structural obligations."""
import ast
import re

from sa.loader import AnalysisError, norm, walk_local
from sa.cfg import cfg_of
from .common import element_sources, ifexp_alternatives, analysis, names_in, str_consts_compared, isinstance_types, true_facts, conjuncts, ne_texts, eq_texts, tree_order
from . import c17

PROP = "C15"
TECHNIQUE = "sibling agreement of the two protocol classes (method sets, arity, grammar terminal advanced per method); action exhaustiveness; byte-codec agreement; defaults plumbing through every arm of the grammar compiler; union wrapping/unwrapping shape; record-separator agreement; effect analysis restricted to the JSON decoder (defaults are not consumed)"
LEVEL_TEXT = (
    "Static analysis of the JSON codec: every method the table functions invoke on an encoder/decoder exists on both the binary and the "
    "JSON class with compatible arity; for each write_X / read_X pair the grammar terminal advanced is the same; every Action subclass is "
    "handled by both do_action methods or popped explicitly; bytes and fixed use ISO-8859-1 on all four sites; every value-bearing arm of "
    "the grammar compiler passes the field default to its symbol (by-name references re-compile with the reference's own default); union "
    "values are wrapped under the branch label except null, and unwrapped symmetrically; the reader splits the text exactly where the "
    "writer joins it; no mutation can reach a schema default (effect analysis)."
)
LEVEL_NOTE = "Not decided: that the emitted text equals an independent JSON encoding of the datum; agreement with the binary codec over all data (runtime values). The grammar's lack of the `error` record kind is a note, not a finding (not a data-schema kind)."
ASSUMPTIONS = ["str.splitlines splits on more characters than '\\n' (stdlib fact)"]

ENC_B, ENC_J = "io.binary_encoder:BinaryEncoder", "io.json_encoder:AvroJSONEncoder"
DEC_B, DEC_J = "io.binary_decoder:BinaryDecoder", "io.json_decoder:AvroJSONDecoder"


def methods_called(a, table, param_index):
    """method names invoked on the codec parameter by the functions of a dispatch table"""
    out = {}
    for f in table.all_funcs():
        pn = f.pos_params[param_index]
        for n in ast.walk(f.node):
            if isinstance(n, ast.Call) and isinstance(n.func, ast.Attribute) and isinstance(n.func.value, ast.Name) and n.func.value.id == pn:
                out.setdefault(n.func.attr, []).append((f, n))
    return out


def arity(m):
    a = m.node.args
    pos = [x.arg for x in a.posonlyargs + a.args][1:]
    req = len(pos) - len(a.defaults)
    return req, len(pos), {x.arg for x in a.kwonlyargs} | set(pos)


def unalias(m, node):
    """copy of `node` in which the module-level names bound once to a construction without arguments (`_NULL = Null()`:
    a grammar terminal built once instead of per call; terminals are compared by equality) are that construction"""
    import copy

    binds = {}
    for st in m.mod.tree.body:
        if isinstance(st, ast.Assign) and len(st.targets) == 1 and isinstance(st.targets[0], ast.Name):
            binds.setdefault(st.targets[0].id, []).append(st)
    alias = {k: v[0].value for k, v in binds.items() if len(v) == 1 and isinstance(v[0].value, ast.Call) and isinstance(v[0].value.func, ast.Name) and not v[0].value.args and not v[0].value.keywords}
    if not alias:
        return node

    class S(ast.NodeTransformer):
        def visit_Name(self, n):
            if isinstance(n.ctx, ast.Load) and n.id in alias:
                return ast.copy_location(copy.deepcopy(alias[n.id]), n)
            return n

    return S().visit(copy.deepcopy(node))


def advanced(m):
    """grammar terminals a JSON codec method advances over: ['Int'], ['String', 'MapKeyMarker'], ..."""
    out = []
    order = tree_order(m.node)
    for n in walk_local(m.node):
        if isinstance(n, ast.Call) and norm(n.func) == "self._parser.advance" and n.args and isinstance(n.args[0], ast.Call):
            out.append((order[id(n)], norm(n.args[0].func)))
        elif isinstance(n, ast.Call) and norm(n.func) == "self._parser.advance" and n.args and isinstance(n.args[0], ast.Name):
            # a module-level instance of the terminal, built once (`_INT = Int()`)
            binds = [st for st in m.mod.tree.body if isinstance(st, ast.Assign) and len(st.targets) == 1 and isinstance(st.targets[0], ast.Name) and st.targets[0].id == n.args[0].id]
            if len(binds) == 1 and isinstance(binds[0].value, ast.Call) and not binds[0].value.args and not binds[0].value.keywords:
                out.append((order[id(n)], norm(binds[0].value.func)))
    return [x for _, x in sorted(out)]


def run(ctx):
    a = analysis(ctx.program)
    p = a.p
    encB, encJ, decB, decJ = (p.cls(x) for x in (ENC_B, ENC_J, DEC_B, DEC_J))

    # ---- R1 protocol agreement ------------------------------------------------------------------
    ctx.rule("C15.R1", "every method the table functions call on an encoder / decoder exists on both protocol classes with compatible arity", floor=30)
    for table, classes in ((a.writers, (encB, encJ)), (a.readers, (decB, decJ)), (a.skips, (decB, decJ))):
        for name, sites in sorted(methods_called(a, table, 0).items()):
            for c in classes:
                m = p.find_method(c, name)
                if m is None:
                    f, n = sites[0]
                    ctx.violation("C15.R1", f"{c.name}.{name} exists", f.where(n), f"{f.qualname}: {norm(n)[:60]} but {c.name} has no method {name}", f"the {table.name} functions call {name} on their codec object; the {c.name} would raise AttributeError")
                    continue
                req, mx, names = arity(m)
                bad = [(f, n) for (f, n) in sites if not (req <= len(n.args) + len([k for k in n.keywords if k.arg in names]) and len(n.args) <= mx and all(k.arg in names for k in n.keywords))]
                ctx.check("C15.R1", f"{c.name}.{name}: arity compatible with {len(sites)} call site(s)", not bad, m.where(), f"{c.name}.{name}{norm(m.node.args)} vs {norm(bad[0][1]) if bad else ''}", "a call site passes arguments this implementation does not accept")

    # ---- R2 terminal agreement --------------------------------------------------------------------
    ctx.rule("C15.R2", "write_X and read_X advance the same grammar terminal; map keys use MapKeyMarker on both sides", floor=12)
    pairs = [("write_null", "read_null"), ("write_boolean", "read_boolean"), ("write_int", "read_int"), ("write_long", "read_long"), ("write_float", "read_float"), ("write_double", "read_double"), ("write_bytes", "read_bytes"), ("write_utf8", "read_utf8"), ("write_fixed", "read_fixed"), ("write_enum", "read_enum"), ("write_array_start", "read_array_start"), ("write_array_end", "read_array_end"), ("write_map_start", "read_map_start"), ("write_map_end", "read_map_end"), ("write_index", "read_index")]
    for w, r in pairs:
        mw, mr = encJ.methods.get(w), decJ.methods.get(r)
        if mw is None or mr is None:
            ctx.violation("C15.R2", f"{w} / {r} exist", (mw or mr or encJ.methods["__init__"]).where(), f"missing {w if mw is None else r}", "JSON codec lacks one side of a pair")
            continue
        aw, ar = advanced(mw), advanced(mr)
        ctx.check("C15.R2", f"{w} / {r} advance {aw}", aw == ar and bool(aw), mr.where(), f"{w} advances {aw}, {r} advances {ar}", "encoder and decoder walk the grammar differently for the same Avro kind: the parser stacks desynchronise")
    ok = all("MapKeyMarker" in norm(unalias(m, m.node)) for m in (encJ.methods["write_utf8"], decJ.methods["read_utf8"]))
    ctx.check("C15.R2", "map keys: both write_utf8 and read_utf8 treat a String followed by MapKeyMarker as an object key", ok, decJ.methods["read_utf8"].where(), "MapKeyMarker handling", "map keys are not handled symmetrically")
    ie, ia = advanced(encJ.methods["end_item"]), advanced(decJ.methods["iter_array"])
    if not ia and not any(isinstance(n, (ast.Yield, ast.YieldFrom)) for n in walk_local(decJ.methods["iter_array"].node)):
        ctx.unrecognised("C15.R2", "array items: ItemEnd advanced after each item on both sides", decJ.methods["iter_array"].where(), "iter_array is no longer a generator that advances the parser itself (the iteration is delegated to an object this rule does not follow)")
    else:
        ctx.check("C15.R2", "array items: ItemEnd advanced after each item on both sides", ie == ["ItemEnd"] and "ItemEnd" in ia, decJ.methods["iter_array"].where(), f"end_item advances {ie}, iter_array advances {ia}", "item boundaries are not advanced symmetrically")

    # ---- R3 action exhaustiveness --------------------------------------------------------------------
    ctx.rule("C15.R3", "every Action subclass is handled by both do_action methods or popped explicitly", floor=5)
    sym = p.module("io.symbols")
    action = sym.classes["Action"]
    subs = [c for c in p.subclasses(action)]
    for c in subs:
        for cls_ in (encJ, decJ):
            da = cls_.methods["do_action"]
            handled = c.name in isinstance_types(da.node)
            popped = c.name == "EnumLabels" and any("pop_symbol" in norm(n) for m in cls_.methods.values() for n in walk_local(m.node) if isinstance(n, ast.Call))
            ctx.check("C15.R3", f"{cls_.name}.do_action handles {c.name}", handled or popped, da.where(), f"{cls_.name}.do_action lacks {c.name}", f"an action of kind {c.name} reaching do_action raises 'cannot handle'")

    # ---- R4 byte codec ---------------------------------------------------------------------------------
    ctx.rule("C15.R4", "bytes and fixed: ISO-8859-1 on the four sites", floor=4)
    for cls_, meth, op in ((encJ, "write_bytes", "decode"), (encJ, "write_fixed", "decode"), (decJ, "read_bytes", "encode"), (decJ, "read_fixed", "encode")):
        m = cls_.methods[meth]
        calls = [n for n in walk_local(m.node) if isinstance(n, ast.Call) and isinstance(n.func, ast.Attribute) and n.func.attr == op]
        ok = len(calls) == 1 and calls[0].args and isinstance(calls[0].args[0], ast.Constant) and str(calls[0].args[0].value).lower().replace("_", "-") in ("iso-8859-1", "latin-1", "latin1", "iso8859-1", "l1")
        ctx.check("C15.R4", f"{cls_.name}.{meth}: {op}('iso-8859-1')", ok, m.where(), f"{cls_.name}.{meth}: {[norm(c) for c in calls]}", "bytes must map to code points 0-255 one to one")

    # ---- R5 defaults plumbing -----------------------------------------------------------------------------
    ctx.rule("C15.R5", "every value-bearing arm of Parser._parse passes the field default to its symbol; by-name references re-compile with their own default", floor=12)
    pp = p.func("io.parser:Parser._parse")
    dparam = "default"
    chain = [n for n in walk_local(pp.node) if isinstance(n, ast.If) and (isinstance(n.test, ast.Compare) and norm(n.test.left) == "record_type")]
    for n in chain:
        t = norm(n.test)
        rets = [s for s in n.body if isinstance(s, ast.Return)]
        kind = t.replace("record_type == ", "").strip("'")
        if "in self.named_schemas" in t:
            ok = len(rets) == 1 and isinstance(rets[0].value, ast.Call) and norm(rets[0].value.func) == "self._parse" and (len(rets[0].value.args) > 1 and norm(rets[0].value.args[1]) == dparam or any(k.arg == "default" and norm(k.value) == dparam for k in rets[0].value.keywords)) and norm(rets[0].value.args[0]) == "self.named_schemas[record_type]"
            ctx.check("C15.R5", "by-name arm: the referenced definition is compiled with this reference's default (no sharing between references)", ok, pp.where(n), f"Parser._parse by-name arm: {[norm(r)[:80] for r in rets]}", "a field referring to a named type loses its default, or takes the default of another reference to the same type")
            continue
        if kind in ("record",):
            ok = all("default" in norm(c) for c in ast.walk(n) if isinstance(c, ast.Call) and norm(c.func) == "self._process_record")
            ctx.check("C15.R5", "record arm passes the default to _process_record", ok, pp.where(n), "Parser._parse record arm", "a record-typed field loses its default")
            continue
        has_default = any(isinstance(c, ast.keyword) and c.arg == "default" and norm(c.value) == dparam for s in n.body for c in ast.walk(s))
        if not has_default:
            # the arm may hand over to a per-kind method of the parser: the default travels as an argument and the
            # method passes it on as default=<its parameter>
            for s in n.body:
                for c in ast.walk(s):
                    if isinstance(c, ast.Call) and isinstance(c.func, ast.Attribute) and isinstance(c.func.value, ast.Name) and c.func.value.id == "self" and pp.cls is not None and c.func.attr in getattr(pp.cls, "methods", {}):
                        hm = pp.cls.methods[c.func.attr]
                        hp = hm.pos_params[1:]
                        for i_, a_ in enumerate(c.args):
                            if norm(a_) == dparam and i_ < len(hp):
                                if any(isinstance(k, ast.keyword) and k.arg == "default" and norm(k.value) == hp[i_] for k in ast.walk(hm.node)):
                                    has_default = True
                        for k_ in c.keywords:
                            if norm(k_.value) == dparam and k_.arg and any(isinstance(k, ast.keyword) and k.arg == "default" and norm(k.value) == k_.arg for k in ast.walk(hm.node)):
                                has_default = True
        ctx.check("C15.R5", f"{kind} arm passes default=default", has_default, pp.where(n), f"Parser._parse {kind} arm: {[norm(r)[:70] for r in rets]}", f"a field of type {kind} absent from the JSON text would raise 'no value and no default' although the schema declares one")
    # the function that builds a record's production, by role: the one that constructs RecordStart
    prs = [m_ for m_ in pp.mod.all_funcs if any(isinstance(c, ast.Call) and norm(c.func) == "RecordStart" for c in ast.walk(m_.node))]
    if len(prs) != 1:
        ctx.unrecognised("C15.R5", "record production", pp.where(), f"{len(prs)} functions construct RecordStart")
    else:
        pr = prs[0]
        # the production may be assembled through helper methods of the parser (one per field): they are part of it
        scope = [pr.node]
        if pr.cls is not None:
            cinfo = pr.cls if hasattr(pr.cls, "methods") else None
            for c in ast.walk(pr.node):
                if isinstance(c, ast.Attribute) and isinstance(c.value, ast.Name) and c.value.id == "self" and cinfo is not None and c.attr in cinfo.methods and cinfo.methods[c.attr] is not pr and c.attr != "_parse":
                    scope.append(cinfo.methods[c.attr].node)
        ok = any(isinstance(c, ast.Call) and norm(c.func) == "RecordStart" and any(k.arg == "default" for k in c.keywords) for c in ast.walk(pr.node)) and any(isinstance(c, ast.Call) and norm(c.func) == "self._parse" and re.search(r"\w+\.get\('default', NO_DEFAULT\)", norm(c)) for sc in scope for c in ast.walk(sc))
        ctx.check("C15.R5", "record production: RecordStart carries the record default, fields are compiled with field.get('default', NO_DEFAULT)", ok, pr.where(), pr.qualname, "field defaults do not reach the grammar")
    rv = decJ.methods["read_value"]
    rcfg = cfg_of(rv)
    symp = rv.pos_params[1]
    ok = any(isinstance(n, ast.Return) and n.value is not None and norm(n.value) == f"{symp}.get_default()" and any(fct.endswith("not in self._current") for fct in true_facts(rcfg, rcfg.node_of(n))) for n in walk_local(rv.node))
    ctx.check("C15.R5", "decoder: a key absent from the JSON object takes symbol.get_default()", ok, rv.where(), "AvroJSONDecoder.read_value", "absent fields do not take their schema defaults")

    # ---- R6 union wrapping ------------------------------------------------------------------------------------
    ctx.rule("C15.R6", "union: encoder wraps non-null values under the branch label, decoder maps None <-> 'null' and unwraps a single-key object; labels are names / type names", floor=3)
    wi = encJ.methods["write_index"]
    tests = [n for n in walk_local(unalias(wi, wi.node)) if isinstance(n, ast.If)]
    symw = "symbol"
    ok = len(tests) == 1 and len(conjuncts(tests[0].test)) == 2 and "self._write_union_type" in conjuncts(tests[0].test) and bool(ne_texts(symw, "Null()") & conjuncts(tests[0].test)) and any("write_object_key(alternative_symbol.get_label(index))" in norm(s) for s in tests[0].body) and any("write_object_start" in norm(s) for s in tests[0].body) and any("UnionEnd" in norm(s) for s in tests[0].body)
    ctx.check("C15.R6", "encoder: non-null branch -> {label: value}; null stays null", ok, wi.where(), f"write_index: {norm(tests[0].test) if tests else ''}", "union values must be wrapped as {branch name: value} except null")
    ri = decJ.methods["read_index"]
    # every binding of the label is `'null'` (under `<value> is None`) or the key popped from the wrapper object (under
    # `<value> is not None`), however many times the two cases are spelled out
    ricfg = cfg_of(ri)
    lab_defs = [n for n in walk_local(ri.node) if isinstance(n, ast.Assign) and any(isinstance(x, ast.Name) and x.id == "label" and isinstance(x.ctx, ast.Store) for t in n.targets for x in ast.walk(t))]
    def _lab_ok(n):
        facts = true_facts(ricfg, ricfg.node_of(n))
        if norm(n) == "label = 'null'":
            return any(re.fullmatch(r".+ is None", x) for x in facts)
        if isinstance(n.targets[0], ast.Tuple) and len(n.targets[0].elts) == 2 and norm(n.targets[0].elts[0]) == "label" and isinstance(n.value, ast.Call) and isinstance(n.value.func, ast.Attribute) and n.value.func.attr == "popitem" and not n.value.args:
            return any(re.fullmatch(r".+ is not None", x) for x in facts)
        return False
    ok = len(lab_defs) >= 2 and all(_lab_ok(n) for n in lab_defs) and any(norm(n) == "label = 'null'" for n in lab_defs) and any(isinstance(n.targets[0], ast.Tuple) for n in lab_defs) and any(re.fullmatch(r"\w+ = \w+\.labels\.index\(label\)", norm(n)) for n in walk_local(ri.node) if isinstance(n, ast.Assign))
    ritext = ast.unparse(ri.node)
    if not ok and "popitem" not in ritext and "'null'" not in ritext:
        ctx.unrecognised("C15.R6", "decoder: None -> 'null', otherwise the single key is the branch label", ri.where(), "read_index neither maps None to 'null' nor unwraps an object itself (delegated to code this rule does not follow)")
    else:
        ctx.check("C15.R6", "decoder: None -> 'null', otherwise the single key is the branch label looked up in the alternative's labels", ok, ri.where(), "read_index", "the decoder does not unwrap {label: value} symmetrically")
    alts = [n for n in walk_local(pp.node) if isinstance(n, ast.Call) and norm(n.func) == "Alternative" and len(n.args) >= 2 and isinstance(n.args[1], (ast.Name, ast.ListComp))]
    if len(alts) != 1:
        ctx.unrecognised("C15.R6", "Parser._parse", pp.where(), f"{len(alts)} Alternative(symbols, <labels>) constructions with computed labels")
    else:
        if isinstance(alts[0].args[1], ast.Name):
            texts = element_sources(pp.node, alts[0].args[1].id)
        else:
            texts = {norm(x) for x in ifexp_alternatives(alts[0].args[1].elt)}
        # the loop variable ranging over the union's branches
        loopvars = {norm(n.target) for n in ast.walk(pp.node) if isinstance(n, (ast.For, ast.comprehension)) and norm(n.iter) == pp.pos_params[1]}
        want = set()
        for v in loopvars:
            want |= {v, f"{v}.get('name', {v}.get('type'))"}
        ctx.check("C15.R6", "labels: name of a named branch else its type; the bare string for names and primitives", bool(loopvars) and texts == want, pp.where(alts[0]), f"Parser._parse union labels: {sorted(texts)}", "branch labels must be full names for named types (parsed schema) and type names otherwise")

    # ---- R7 grammar exhaustiveness ---------------------------------------------------------------------------------
    ctx.rule("C15.R7", "Parser._parse handles every data-schema kind of the schema parser", floor=10)
    mine = str_consts_compared(pp.node, "record_type")
    ps = p.func("_schema_py:_parse_schema")
    import sa.spec.resolution as rs

    for k in sorted(set(str_consts_compared(ps.node, "schema_type")) | set(rs.PRIMITIVES) | {"union"}):
        if k == "error":
            ctx.note("C15.R7", "the JSON grammar has no arm for the `error` record kind (not a data-schema kind): note, not a violation")
            continue
        ctx.check("C15.R7", f"kind {k} compiled", k in mine, pp.where(), f"Parser._parse lacks {k}", f"schemas containing {k} cannot be JSON encoded")

    # ---- R8 defaults are not consumed (effect analysis) ------------------------------------------------------------------
    ctx.rule("C15.R8", "no mutating operation of the JSON decoder can reach a schema default (= C17.R1 restricted to the decoder)", floor=6)
    eff = c17.effects(a)
    for ev in eff.events:
        f = ev["func"]
        if f.cls is None or f.cls is not decJ:
            continue
        hits = [h for h in c17.classify(ev, ev["roots"], True) if h[0] == "R1"]
        ctx.check("C15.R8", f"{f.qualname}: {ev['how']} on `{ev['target']}`", not hits, f.where(ev["node"]), f"{f.qualname}: {norm(ev['node'])[:90]}", (hits[0][2] if hits else "") + ": the schema's own default object is consumed while decoding; the next record lacking the field gets an emptied default")

    # ---- R9 record separator ------------------------------------------------------------------------------------------------
    ctx.rule("C15.R9", "one document per line: the writer joins with '\\n', the reader iterates the file's lines (never str.splitlines, which also splits on U+0085/U+2028/U+2029 inside strings)", floor=2)
    wb = encJ.methods["write_buffer"]
    joins = [n for n in walk_local(wb.node) if isinstance(n, ast.Call) and isinstance(n.func, ast.Attribute) and n.func.attr == "join"]
    ok = len(joins) == 1 and isinstance(joins[0].func.value, ast.Constant) and joins[0].func.value.value == "\n"
    ctx.check("C15.R9", "writer: documents joined with a single '\\n'", ok, wb.where(), f"write_buffer: {[norm(j)[:60] for j in joins]}", "records must be separated by newlines")
    # each document is a single line of plain-ASCII JSON text in the order the encoder built it: json.dumps options that
    # spread a document over lines, reorder its keys, let non-ASCII text through raw or change how values are converted
    dumps = [n for n in walk_local(wb.node) if isinstance(n, ast.Call) and norm(n.func) in ("json.dumps", "dumps")]
    defaults = {"ensure_ascii": True, "indent": None, "sort_keys": False, "default": None, "cls": None, "skipkeys": False}
    for d_ in dumps:
        changed = [kw.arg for kw in d_.keywords if kw.arg in defaults and not (isinstance(kw.value, ast.Constant) and kw.value.value == defaults[kw.arg] and type(kw.value.value) is type(defaults[kw.arg]))]
        if any(kw.arg is None for kw in d_.keywords):
            ctx.unrecognised("C15.R9", "writer: json.dumps options", wb.where(d_), "options passed as **mapping")
            continue
        ctx.check("C15.R9", "writer: json.dumps with the default text options (one ASCII line per document, keys in the order written)", not changed, wb.where(d_), f"write_buffer: {norm(d_)[:80]}", f"option(s) {changed} change the text of a document: more than one line per record, reordered fields, or characters that depend on the output stream's encoding")
    di = decJ.methods["__init__"]
    bad = [n for n in ast.walk(di.node) if isinstance(n, ast.Call) and isinstance(n.func, ast.Attribute) and n.func.attr == "splitlines"]
    loads = [n for n in ast.walk(di.node) if isinstance(n, ast.Call) and norm(n.func) == "json.loads"]
    # end of input is a fact about the line iterator, never about a decoded document (the document `null` is None)
    for m_ in decJ.methods.values():
        docs = {"self._current"}
        for n in walk_local(m_.node):
            if isinstance(n, ast.Assign) and isinstance(n.targets[0], ast.Name) and ("json.loads" in norm(n.value) or "_current" in norm(n.value)):
                docs.add(n.targets[0].id)
        for n in walk_local(m_.node):
            if isinstance(n, ast.Assign) and any(norm(t) == "self.done" for t in n.targets):
                dep = [d for d in docs if d in norm(n.value)]
                inst = f"{m_.qualname}: `{norm(n)[:60]}` does not depend on a decoded document"
                if isinstance(n.value, ast.Constant):
                    ctx.holds("C15.R9", inst, m_.where(n))
                elif dep:
                    ctx.violation("C15.R9", inst, m_.where(n), f"{m_.qualname}: {norm(n)[:80]}", "the decoded value of a line can be None (the JSON document `null` is the encoding of a null datum): taking it for the end of the input drops that record and every record after it")
                else:
                    ctx.unrecognised("C15.R9", inst, m_.where(n), "end-of-input flag computed from an expression of unknown origin")
    ctx.check("C15.R9", "reader: json.loads per line of the file object; no str.splitlines", bool(loads) and not bad, di.where(bad[0]) if bad else di.where(), f"AvroJSONDecoder.__init__: {[norm(b)[:60] for b in bad]}", "str.splitlines() also splits on U+0085, U+2028, U+2029 (and \\x1c-\\x1e), which may occur raw inside a JSON string: a document the writer produced is cut in the middle")

    # ---- R10 the object-key state is Optional[str]: the empty string is a key ---------------------------------------------
    ctx.rule("C15.R10", "the pending object key of encoder and decoder is compared with None (is / is not), never tested by truth: '' is a legal map key", floor=2)
    n_key_tests = 0
    for K, setter in ((encJ, "write_object_key"), (decJ, "read_object_key")):
        sm = K.methods.get(setter)
        key_attrs = set()
        if sm is not None and len(sm.pos_params) >= 2:
            for n in walk_local(sm.node):
                if isinstance(n, ast.Assign) and isinstance(n.value, ast.Name) and n.value.id == sm.pos_params[1]:
                    key_attrs |= {norm(t) for t in n.targets if isinstance(t, ast.Attribute)}
        if not key_attrs:
            ctx.unrecognised("C15.R10", f"{K.name}: key state", K.where() if hasattr(K, "where") else "", f"{setter} does not store its argument in an attribute")
            continue
        for m_ in K.methods.values():
            # names that hold a copy of the key (popped from the stack together with the container)
            for n in ast.walk(m_.node):
                tests = []
                if isinstance(n, (ast.If, ast.While, ast.IfExp)):
                    tests.append(n.test)
                elif isinstance(n, ast.Assert):
                    tests.append(n.test)
                elif isinstance(n, ast.BoolOp):
                    tests.extend(n.values)
                elif isinstance(n, ast.UnaryOp) and isinstance(n.op, ast.Not):
                    tests.append(n.operand)
                for t in tests:
                    if norm(t) in key_attrs:
                        n_key_tests += 1
                        ctx.violation("C15.R10", f"{m_.qualname}: `{norm(t)}` tested by truth", m_.where(n), f"{m_.qualname}: truth test of {norm(t)}", "the empty string is a legal map key (and a legal JSON object key): taken for 'no key' the value is not stored / not found, and a map that validate accepts and the binary codec round-trips cannot be written or read as JSON")
            for n in ast.walk(m_.node):
                if isinstance(n, ast.Compare) and len(n.ops) == 1 and isinstance(n.ops[0], (ast.Is, ast.IsNot)) and norm(n.left) in key_attrs and norm(n.comparators[0]) == "None":
                    n_key_tests += 1
                    ctx.holds("C15.R10", f"{m_.qualname}: `{norm(n)}`", m_.where(n))
    if n_key_tests < 2:
        ctx.unrecognised("C15.R10", "key state tests", encJ.methods["write_value"].where() if "write_value" in encJ.methods else "", f"only {n_key_tests} tests of the pending key found (encoder write_value and decoder descent expected)")

    # ---- shared ----
    ctx.borrow("C12", {"C12.R1": "C15.R11"}, "json_writer / json_reader encode under the schema the caller gave: a schema argument rewritten before it is parsed (decoded as JSON text, normalised) makes the JSON codec use another schema than the binary codec does for the same argument", only=lambda o: "json_" in o.get("where", ""))
