"""Loader, symbol tables, name resolver and constant folder.

``Program.from_dir(repo)`` parses every ``*.py`` file under ``<repo>/fastavro``
(never ``build/``) and offers:

* per-module symbol tables (functions, classes incl. class-body aliases such as
  ``write_long = write_int``, module-level assignments, imports),
* ``resolve`` / ``resolve_expr``: follow imports, re-exports through the facade
  modules and aliases to a definition,
* facade fallback ``try: from . import _x / except ImportError: from . import
  _x_py as _x``: the body binding is dropped exactly when ``_x`` does not exist
  as Python source in the analysed tree (pure-Python build),
* ``fold``: a constant folder over module-level constants (stdlib facts only,
  no repository code is executed).

A ``Program`` can also be built from in-memory sources (``from_sources``) which
is how the self-test variants and sensitivity witnesses are analysed.
"""
import ast
import os
import hashlib
import datetime

PKG = "fastavro"


class AnalysisError(Exception):
    """The analysis could not be carried out (exit status 2, never a pass)."""


class Unfoldable(Exception):
    pass


def norm(node):
    """Normalised source text of a node (used in finding keys, never line numbers)."""
    try:
        return ast.unparse(node).strip()
    except Exception:  # pragma: no cover
        return ast.dump(node)


class FuncInfo:
    def __init__(self, mod, qualname, node, cls=None, parent=None):
        self.mod = mod
        self.qualname = qualname
        self.node = node
        self.cls = cls
        self.parent = parent
        self.nested = {}  # name -> [FuncInfo]

    @property
    def id(self):
        return f"{self.mod.short}:{self.qualname}"

    @property
    def name(self):
        return self.node.name

    @property
    def params(self):
        a = self.node.args
        out = [x.arg for x in a.posonlyargs + a.args]
        if a.vararg:
            out.append(a.vararg.arg)
        out += [x.arg for x in a.kwonlyargs]
        if a.kwarg:
            out.append(a.kwarg.arg)
        return out

    @property
    def pos_params(self):
        a = self.node.args
        return [x.arg for x in a.posonlyargs + a.args]

    def param_defaults(self):
        """name -> default expr"""
        a = self.node.args
        out = {}
        pos = a.posonlyargs + a.args
        for p, d in zip(pos[len(pos) - len(a.defaults):], a.defaults):
            out[p.arg] = d
        for p, d in zip(a.kwonlyargs, a.kw_defaults):
            if d is not None:
                out[p.arg] = d
        return out

    def is_generator(self):
        for n in walk_local(self.node):
            if isinstance(n, (ast.Yield, ast.YieldFrom)):
                return True
        return False

    def where(self, node=None):
        line = getattr(node, "lineno", None) or self.node.lineno
        return f"{self.mod.relpath}:{self.qualname}:{line}"

    def __repr__(self):
        return f"<Func {self.id}>"


def walk_local(fnode):
    """Walk a function body without descending into nested function/class defs."""
    stack = [c for c in fnode.body if not isinstance(c, (ast.FunctionDef, ast.AsyncFunctionDef, ast.ClassDef))] if hasattr(fnode, "body") else [fnode]
    while stack:
        n = stack.pop()
        yield n
        for c in ast.iter_child_nodes(n):
            if isinstance(c, (ast.FunctionDef, ast.AsyncFunctionDef, ast.ClassDef, ast.Lambda)):
                continue
            stack.append(c)


class ClassInfo:
    def __init__(self, mod, name, node, base_exprs):
        self.mod = mod
        self.name = name
        self.node = node
        self.base_exprs = base_exprs
        self.methods = {}  # own methods and class-body aliases
        self.class_attrs = {}  # name -> value expr (non-alias class-body assignments)
        self.aliases = {}  # alias name -> target method name

    @property
    def id(self):
        return f"{self.mod.short}:{self.name}"

    def __repr__(self):
        return f"<Class {self.id}>"


class ImportRef:
    def __init__(self, kind, module, attr=None, external=False):
        self.kind = kind  # 'module' | 'attr'
        self.module = module
        self.attr = attr
        self.external = external

    def __repr__(self):
        return f"<Import {self.kind} {self.module} {self.attr}>"


class Module:
    def __init__(self, name, relpath, src):
        self.name = name
        self.short = name[len(PKG) + 1:] if name.startswith(PKG + ".") else name
        self.relpath = relpath
        self.src = src
        try:
            self.tree = ast.parse(src, filename=relpath)
        except SyntaxError as e:
            raise AnalysisError(f"cannot parse {relpath}: {e}")
        if os.environ.get("VERIF_NO_CANON") != "1":
            from .canon import canonicalise

            self.tree = canonicalise(self.tree)
        self.is_package = relpath.endswith("__init__.py")
        self.functions = {}
        self.classes = {}
        self.assigns = {}  # name -> [expr]
        self.imports = {}  # local -> ImportRef
        self.table_stores = []  # (table name, key expr, value expr, stmt, guard tag)
        self.all_funcs = []
        self.toplevel_stmts = []  # (stmt, context tag)

    def __repr__(self):
        return f"<Module {self.name}>"


class Program:
    def __init__(self, sources, repo="<memory>"):
        """sources: dict relpath ('fastavro/x.py') -> source text"""
        self.repo = repo
        self.sources = dict(sources)
        self.modules = {}
        for relpath, src in sorted(sources.items()):
            name = relpath[:-3].replace("/", ".")
            if name.endswith(".__init__"):
                name = name[: -len(".__init__")]
            self.modules[name] = Module(name, relpath, src)
        self.norm_report = []
        self.unknown_functions = None
        if os.environ.get("VERIF_NO_REFNORM") != "1" and os.environ.get("VERIF_NO_CANON") != "1":
            from . import refnorm

            trees = {m.relpath: m.tree for m in self.modules.values()}
            self.unknown_functions = refnorm.normalise(trees, self.norm_report)
            if self.unknown_functions is not None and os.environ.get("VERIF_NO_INLINE") != "1":
                from . import inline, unextract
                from .canon import canonicalise

                n0 = len(self.norm_report)
                from . import restructure

                restructure.undo(trees, self.unknown_functions, self.norm_report)
                if self.unknown_functions:
                    from . import ctxinline

                    for rel in ctxinline.inline_context_managers(trees, self.unknown_functions, self.norm_report):
                        canonicalise(trees[rel])
                    inline.inline_unknown(trees, self.unknown_functions, self.norm_report)
                for _round in range(3):
                    n1 = len(self.norm_report)
                    # displays that only now stand at the call sites (a helper that built the tuple was inlined)
                    restructure.undo(trees, self.unknown_functions, self.norm_report)
                    inline.inline_nested_unknown(trees, self.norm_report)
                    unextract.inline_constants(trees, self.norm_report)
                    unextract.inline_class_constants(trees, self.norm_report)
                    unextract.inline_namespace_constants(trees, self.norm_report)
                    unextract.unextract_variables(trees, self.norm_report)
                    if len(self.norm_report) == n1:
                        break
                    for t in trees.values():
                        canonicalise(t)
                    # call sites that only now are in statement position (a dispatch table turned into a chain)
                    if self.unknown_functions:
                        inline.inline_unknown(trees, self.unknown_functions, self.norm_report)
                if len(self.norm_report) > n0:
                    self.unknown_functions = refnorm.normalise(trees, self.norm_report)
        for m in self.modules.values():
            self._index(m)
        self._func_by_id = {}
        for m in self.modules.values():
            for f in m.all_funcs:
                self._func_by_id[f.id] = f
        self.implementation = self._implementation()

    # ------------------------------------------------------------------ build
    @classmethod
    def from_dir(cls, repo):
        root = os.path.join(repo, PKG)
        if not os.path.isdir(root):
            raise AnalysisError(f"{root} is not a directory")
        sources = {}
        for dirpath, dirnames, filenames in os.walk(root):
            dirnames[:] = [d for d in dirnames if d != "__pycache__"]
            for fn in sorted(filenames):
                if fn.endswith(".py"):
                    p = os.path.join(dirpath, fn)
                    rel = os.path.relpath(p, repo).replace(os.sep, "/")
                    with open(p, encoding="utf-8") as fh:
                        sources[rel] = fh.read()
        if not sources:
            raise AnalysisError("no python sources found")
        return cls(sources, repo)

    def variant(self, relpath, new_src):
        s = dict(self.sources)
        s[relpath] = new_src
        return Program(s, self.repo + "+variant")

    def vanished_callees(self):
        """(relpath, qualname) -> private functions / methods that the reference version of that function calls
        and that no longer exist anywhere in the analysed program (a known helper folded back into its caller:
        what a rule sees in the caller is then not what it was written against)"""
        if getattr(self, "_vanished", None) is not None:
            return self._vanished
        from .refnorm import load_inventory

        self._vanished = {}
        inv = load_inventory()
        if inv is None or self.unknown_functions is None:
            return self._vanished
        present, present_methods = set(), set()
        for m in self.modules.values():
            for f in m.all_funcs:
                if f.cls is None:
                    present.add(f.qualname.split(".")[0])
                else:
                    present_methods.add(f.qualname)
        ref_funcs, ref_methods = set(), set()
        for rel, fns in inv.get("modules", {}).items():
            for q in fns:
                if "." not in q:
                    ref_funcs.add(q)
                else:
                    ref_methods.add(q)
        for rel, fns in inv.get("modules", {}).items():
            for q, info in fns.items():
                gone = [n for n in info.get("fns", ()) if n.startswith("_") and not n.startswith("__") and n in ref_funcs and n not in present]
                if "." in q:
                    cls = q.rsplit(".", 1)[0]
                    gone += [a for a in set(info.get("attrs", ())) if a.startswith("_") and f"{cls}.{a}" in ref_methods and f"{cls}.{a}" not in present_methods]
                if gone:
                    self._vanished[(rel, q)] = sorted(set(gone))
        return self._vanished

    def digest(self):
        h = hashlib.sha256()
        for k in sorted(self.sources):
            h.update(k.encode())
            h.update(self.sources[k].encode())
        return h.hexdigest()[:16]

    def _implementation(self):
        # facade modules fall back to _x_py exactly when _x.py is absent
        fac = []
        for m in self.modules.values():
            for local, ref in m.imports.items():
                if ref.kind == "module" and ref.module.endswith("_py") and not local.endswith("_py"):
                    fac.append(local)
        return "pure-python" if fac else "unknown"

    # ------------------------------------------------------------------ index
    def _abs_module(self, mod, level, name):
        if level == 0:
            return name
        parts = mod.name.split(".")
        if not mod.is_package:
            parts = parts[:-1]
        if level > 1:
            parts = parts[: len(parts) - (level - 1)]
        base = ".".join(parts)
        return base + ("." + name if name else "")

    def _is_internal(self, modname):
        return modname == PKG or modname.startswith(PKG + ".")

    def _index(self, m):
        self._index_body(m, m.tree.body, ctx="")

    def _bind_import(self, m, stmt, into):
        if isinstance(stmt, ast.Import):
            for a in stmt.names:
                local = a.asname or a.name.split(".")[0]
                target = a.name if a.asname else a.name.split(".")[0]
                into[local] = ImportRef("module", target, external=not self._is_internal(a.name))
                if not a.asname and self._is_internal(a.name):
                    # `import fastavro.read` binds `fastavro`; submodule reachable by attribute
                    into[local] = ImportRef("module", a.name.split(".")[0])
        else:
            base = self._abs_module(m, stmt.level, stmt.module or "")
            for a in stmt.names:
                local = a.asname or a.name
                sub = base + "." + a.name if base else a.name
                if self._is_internal(base):
                    if sub in self.modules or (base in self.modules and not self._has_name(base, a.name) and stmt.module is None):
                        into[local] = ImportRef("module", sub)
                    elif stmt.module is None and stmt.level > 0:
                        # `from . import _read` -> a submodule (possibly missing)
                        into[local] = ImportRef("module", sub)
                    else:
                        into[local] = ImportRef("attr", base, a.name)
                else:
                    into[local] = ImportRef("attr", base, a.name, external=True)

    def _has_name(self, modname, name):
        mm = self.modules.get(modname)
        return False if mm is None else (name in mm.functions or name in mm.classes or name in mm.assigns or name in mm.imports)

    def _import_missing_internal(self, m, stmts):
        for s in stmts:
            tmp = {}
            if isinstance(s, (ast.Import, ast.ImportFrom)):
                self._bind_import(m, s, tmp)
                for ref in tmp.values():
                    if ref.kind == "module" and self._is_internal(ref.module) and ref.module not in self.modules:
                        return True
        return False

    def _index_body(self, m, body, ctx):
        for stmt in body:
            m.toplevel_stmts.append((stmt, ctx))
            if isinstance(stmt, (ast.Import, ast.ImportFrom)):
                self._bind_import(m, stmt, m.imports)
            elif isinstance(stmt, (ast.FunctionDef, ast.AsyncFunctionDef)):
                fi = FuncInfo(m, stmt.name, stmt)
                m.functions[stmt.name] = fi
                self._index_func(m, fi)
            elif isinstance(stmt, ast.ClassDef):
                self._index_class(m, stmt)
            elif isinstance(stmt, ast.Assign):
                for t in stmt.targets:
                    self._bind_assign(m, t, stmt.value, stmt, ctx)
            elif isinstance(stmt, ast.AnnAssign) and stmt.value is not None:
                self._bind_assign(m, stmt.target, stmt.value, stmt, ctx)
            elif isinstance(stmt, ast.Try):
                catches_import = any(
                    h.type is not None and "ImportError" in norm(h.type) for h in stmt.handlers
                )
                if catches_import and self._import_missing_internal(m, stmt.body):
                    # facade fallback: body import fails in this tree
                    for h in stmt.handlers:
                        self._index_body(m, h.body, ctx + "/except")
                else:
                    self._index_body(m, stmt.body, ctx + "/try")
                    for h in stmt.handlers:
                        self._index_body(m, h.body, ctx + "/except")
                    self._index_body(m, stmt.orelse, ctx + "/else")
                self._index_body(m, stmt.finalbody, ctx + "/finally")
            elif isinstance(stmt, ast.If):
                self._index_body(m, stmt.body, ctx + "/if")
                self._index_body(m, stmt.orelse, ctx + "/orelse")
            elif isinstance(stmt, (ast.With,)):
                self._index_body(m, stmt.body, ctx + "/with")

    def _bind_assign(self, m, target, value, stmt, ctx):
        if isinstance(target, ast.Name):
            m.assigns.setdefault(target.id, []).append(value)
            # dynamic class: X = type("X", (Base,), {})
            if (
                isinstance(value, ast.Call)
                and isinstance(value.func, ast.Name)
                and value.func.id == "type"
                and len(value.args) == 3
                and isinstance(value.args[1], ast.Tuple)
            ):
                ci = ClassInfo(m, target.id, value, list(value.args[1].elts))
                m.classes[target.id] = ci
        elif isinstance(target, ast.Subscript) and isinstance(target.value, ast.Name):
            m.table_stores.append((target.value.id, target.slice, value, stmt, ctx))
        elif isinstance(target, (ast.Tuple, ast.List)):
            for t in target.elts:
                self._bind_assign(m, t, ast.Constant(value=None), stmt, ctx)

    def _index_class(self, m, node):
        ci = ClassInfo(m, node.name, node, list(node.bases))
        m.classes[node.name] = ci
        for s in node.body:
            if isinstance(s, (ast.FunctionDef, ast.AsyncFunctionDef)):
                fi = FuncInfo(m, f"{node.name}.{s.name}", s, cls=ci)
                ci.methods[s.name] = fi
                self._index_func(m, fi)
            elif isinstance(s, ast.Assign):
                for t in s.targets:
                    if isinstance(t, ast.Name):
                        if isinstance(s.value, ast.Name) and s.value.id in ci.methods:
                            ci.methods[t.id] = ci.methods[s.value.id]
                            ci.aliases[t.id] = s.value.id
                        else:
                            ci.class_attrs[t.id] = s.value
            elif isinstance(s, ast.AnnAssign) and isinstance(s.target, ast.Name) and s.value is not None:
                ci.class_attrs[s.target.id] = s.value

    def _index_func(self, m, fi):
        m.all_funcs.append(fi)
        for n in walk_local(fi.node):
            pass
        # nested defs (direct children at any statement depth, not inside nested defs)
        stack = list(fi.node.body)
        while stack:
            n = stack.pop()
            if isinstance(n, (ast.FunctionDef, ast.AsyncFunctionDef)):
                sub = FuncInfo(m, f"{fi.qualname}.<locals>.{n.name}", n, cls=None, parent=fi)
                fi.nested.setdefault(n.name, []).append(sub)
                self._index_func(m, sub)
                continue
            if isinstance(n, (ast.ClassDef, ast.Lambda)):
                continue
            stack.extend(ast.iter_child_nodes(n))

    # ---------------------------------------------------------------- lookup
    def module(self, short):
        name = short if short.startswith(PKG) else f"{PKG}.{short}"
        mm = self.modules.get(name)
        if mm is None:
            raise AnalysisError(f"anchor module {name} not found")
        return mm

    def _moved(self, fid):
        """a module-level function that now lives in another module of the package and is imported back
        under the same name: the anchor follows the import"""
        if ":" not in fid:
            return None
        short, qual = fid.split(":", 1)
        if "." in qual:
            return None
        try:
            mod = self.module(short)
        except AnalysisError:
            return None
        r = self.resolve(mod, qual)
        if r is not None and r[0] == "func":
            return r[1]
        return None

    def func(self, fid):
        f = self._func_by_id.get(fid) or self._moved(fid)
        if f is None:
            raise AnalysisError(f"anchor function {fid} not found")
        return f

    def maybe_func(self, fid):
        return self._func_by_id.get(fid) or self._moved(fid)

    def all_functions(self):
        return list(self._func_by_id.values())

    def all_classes(self):
        out = []
        for m in self.modules.values():
            out.extend(m.classes.values())
        return out

    def cls(self, cid):
        short, name = cid.split(":")
        c = self.module(short).classes.get(name)
        if c is None:
            raise AnalysisError(f"anchor class {cid} not found")
        return c

    # --------------------------------------------------------------- resolve
    def resolve(self, mod, name, _seen=None):
        """-> ('func', FuncInfo) | ('class', ClassInfo) | ('module', Module) |
        ('value', Module, expr) | ('multi', Module, [expr]) | ('external', dotted) | None"""
        _seen = _seen or set()
        key = (mod.name, name)
        if key in _seen:
            return None
        _seen.add(key)
        if name in mod.functions:
            return ("func", mod.functions[name])
        if name in mod.classes and not isinstance(mod.classes[name].node, ast.Call):
            return ("class", mod.classes[name])
        if name in mod.classes:
            return ("class", mod.classes[name])
        if name in mod.assigns:
            vals = mod.assigns[name]
            if len(vals) == 1:
                v = vals[0]
                if isinstance(v, (ast.Name, ast.Attribute)):
                    r = self.resolve_expr(mod, v, _seen)
                    if r is not None:
                        return r
                return ("value", mod, v)
            return ("multi", mod, vals)
        if name in mod.imports:
            ref = mod.imports[name]
            if ref.external or not self._is_internal(ref.module):
                return ("external", ref.module + ("." + ref.attr if ref.attr else ""))
            if ref.kind == "module":
                mm = self.modules.get(ref.module)
                if mm is None:
                    return None
                return ("module", mm)
            mm = self.modules.get(ref.module)
            if mm is None:
                return None
            sub = self.modules.get(ref.module + "." + ref.attr)
            r = self.resolve(mm, ref.attr, _seen)
            if r is None and sub is not None:
                return ("module", sub)
            return r
        return None

    def resolve_expr(self, mod, expr, _seen=None):
        if isinstance(expr, ast.Name):
            return self.resolve(mod, expr.id, _seen)
        if isinstance(expr, ast.Attribute):
            base = self.resolve_expr(mod, expr.value, _seen)
            if base is None:
                return None
            if base[0] == "module":
                bm = base[1]
                r = self.resolve(bm, expr.attr, _seen)
                if r is None:
                    sub = self.modules.get(bm.name + "." + expr.attr)
                    if sub is not None:
                        return ("module", sub)
                return r
            if base[0] == "class":
                meth = self.find_method(base[1], expr.attr)
                if meth:
                    return ("func", meth)
                return None
            if base[0] == "external":
                return ("external", base[1] + "." + expr.attr)
        return None

    def resolve_func(self, mod, expr):
        r = self.resolve_expr(mod, expr)
        if r and r[0] == "func":
            return r[1]
        return None

    def bases(self, ci):
        out = []
        for b in ci.base_exprs:
            r = self.resolve_expr(ci.mod, b) if isinstance(b, (ast.Name, ast.Attribute)) else None
            if r is None and isinstance(b, ast.Subscript):  # Generic[T], file_reader[AvroMessage]
                r = self.resolve_expr(ci.mod, b.value)
            if r and r[0] == "class":
                out.append(r[1])
        return out

    def mro(self, ci):
        out, todo = [], [ci]
        while todo:
            c = todo.pop(0)
            if c in out:
                continue
            out.append(c)
            todo.extend(self.bases(c))
        return out

    def find_method(self, ci, name):
        for c in self.mro(ci):
            if name in c.methods:
                return c.methods[name]
        return None

    def subclasses(self, ci):
        out = []
        for c in self.all_classes():
            if c is not ci and ci in self.mro(c):
                out.append(c)
        return out

    # ------------------------------------------------------------------ fold
    def fold(self, mod, expr, _depth=0):
        """Constant-fold an expression over module-level constants. Raises Unfoldable."""
        if _depth > 40:
            raise Unfoldable("depth")
        f = lambda e: self.fold(mod, e, _depth + 1)  # noqa: E731
        if isinstance(expr, ast.Constant):
            return expr.value
        if isinstance(expr, ast.Name):
            if expr.id in ("True", "False", "None"):
                return {"True": True, "False": False, "None": None}[expr.id]
            r = self.resolve(mod, expr.id)
            if r and r[0] == "value":
                return self.fold(r[1], r[2], _depth + 1)
            raise Unfoldable(expr.id)
        if isinstance(expr, ast.Attribute):
            txt = norm(expr)
            r = self.resolve_expr(mod, expr)
            if r and r[0] == "value":
                return self.fold(r[1], r[2], _depth + 1)
            if r and r[0] == "external":
                txt = r[1]
            if txt.endswith("hashlib.algorithms_guaranteed"):
                return set(hashlib.algorithms_guaranteed)
            raise Unfoldable(txt)
        if isinstance(expr, (ast.Tuple, ast.List, ast.Set)):
            vals = [f(e) for e in expr.elts]
            if isinstance(expr, ast.Tuple):
                return tuple(vals)
            if isinstance(expr, ast.List):
                return vals
            return set(vals)
        if isinstance(expr, ast.Dict):
            out = {}
            for k, v in zip(expr.keys, expr.values):
                if k is None:
                    raise Unfoldable("**")
                out[f(k)] = f(v)
            return out
        if isinstance(expr, ast.UnaryOp):
            v = f(expr.operand)
            if isinstance(expr.op, ast.USub):
                return -v
            if isinstance(expr.op, ast.UAdd):
                return +v
            if isinstance(expr.op, ast.Invert):
                return ~v
            if isinstance(expr.op, ast.Not):
                return not v
        if isinstance(expr, ast.BinOp):
            a, b = f(expr.left), f(expr.right)
            op = expr.op
            try:
                if isinstance(op, ast.Add):
                    return a + b
                if isinstance(op, ast.Sub):
                    return a - b
                if isinstance(op, ast.Mult):
                    return a * b
                if isinstance(op, ast.FloorDiv):
                    return a // b
                if isinstance(op, ast.Mod):
                    return a % b
                if isinstance(op, ast.Pow):
                    if isinstance(b, int) and abs(b) > 4096:
                        raise Unfoldable("pow")
                    return a ** b
                if isinstance(op, ast.LShift):
                    if b > 4096:
                        raise Unfoldable("shift")
                    return a << b
                if isinstance(op, ast.RShift):
                    return a >> b
                if isinstance(op, ast.BitOr):
                    return a | b
                if isinstance(op, ast.BitAnd):
                    return a & b
                if isinstance(op, ast.BitXor):
                    return a ^ b
            except Unfoldable:
                raise
            except Exception as e:
                raise Unfoldable(str(e))
        if isinstance(expr, ast.Call):
            fn = expr.func
            if isinstance(fn, ast.Name) and fn.id == "len" and len(expr.args) == 1:
                return len(f(expr.args[0]))
            if isinstance(fn, ast.Name) and fn.id in ("set", "frozenset", "list", "tuple") and len(expr.args) <= 1:
                ctor = {"set": set, "frozenset": frozenset, "list": list, "tuple": tuple}[fn.id]
                return ctor(f(expr.args[0])) if expr.args else ctor()
            if isinstance(fn, ast.Name) and fn.id == "chr" and len(expr.args) == 1:
                return chr(f(expr.args[0]))
            if isinstance(fn, ast.Attribute) and fn.attr == "encode" and not expr.args:
                v = f(fn.value)
                if isinstance(v, str):
                    return v.encode()
            if isinstance(fn, ast.Attribute) and fn.attr == "keys" and not expr.args:
                v = f(fn.value)
                if isinstance(v, dict):
                    return set(v.keys())
            if isinstance(fn, ast.Attribute) and fn.attr == "toordinal" and not expr.args:
                inner = fn.value
                itxt = self._ext_text(mod, inner)
                if itxt == "datetime.date.max":
                    return datetime.date.max.toordinal()
                if itxt == "datetime.date.min":
                    return datetime.date.min.toordinal()
                if isinstance(inner, ast.Call) and self._ext_text(mod, inner.func) == "datetime.date":
                    args = [f(a) for a in inner.args]
                    return datetime.date(*args).toordinal()
            raise Unfoldable(norm(expr))
        raise Unfoldable(type(expr).__name__)

    def _ext_text(self, mod, expr):
        r = self.resolve_expr(mod, expr)
        if r and r[0] == "external":
            return r[1]
        return norm(expr)

    def try_fold(self, mod, expr, default=None):
        try:
            return self.fold(mod, expr)
        except Unfoldable:
            return default
