"""Semantics-preserving canonicalisation of the parsed package, applied before any
rule runs, so that equivalent spellings of the same code reach the rules in one
normal form (a rule must not fire on an edit that leaves behaviour unchanged).

Expression level
  * `isinstance(a, X) or isinstance(a, Y)`      ->  `isinstance(a, (X, Y))`
  * `a == x or a == y`, `a in [x, y]`            ->  `a in (x, y)`
  * negations pushed inward (De Morgan), `not a < b` -> `a >= b`, `not a in b` -> `a not in b`
  * constants on the right of a comparison (`0 > x` -> `x < 0`); chained comparisons -> conjunction
  * `X[k] if k in X else d`                      ->  `X.get(k, d)`  (d a name / constant / .get chain: safe to evaluate early)
  * `'..{}..'.format(a)`                         ->  f-string (when the format is a literal with plain fields)
  * `x = A if c else B` used as a statement value is kept (no statement rewriting of expressions)
  * neither operand constant: `b > a` -> `a < b`, `b >= a` -> `a <= b`; operands of == / != ordered by shape (identifiers blanked)
  * `f'a' + f'b'` -> one f-string;  `X.split(s)[-1]` -> `X.rsplit(s, 1)[-1]`
  * tests: `E != 0`, `len(X) > 0`, `len(X) >= 1` -> `E` / `len(X)`; `E == 0` -> `not E` (E an int by construction)
  * `map(f, X)` -> `(f(_m) for _m in X)`; `F([.. for ..])` -> `F(.. for ..)` for consumers of any iterable (join, set, sorted, any, ...)
  * `{k: v for k, v in X.items()}` -> `dict(X)`; `{k: x for k, (x, _) in {<display>}.items()}` -> the projected display
Statement level
  * `if c: x = True else: x = False` -> `x = c`, `if c: return True else: return False` -> `return c` (c boolean-typed)
  * `if c: return B else: return False` -> `return c and B` and the three dual forms (c boolean-typed: exact)
  * `for t in it: if c: raise E` (E independent of t) -> `if any(c for t in it): raise E`; `not all(p ..)` == `any(not p ..)`
  * `for t in it: if c: return False` + `return X` -> `return all(not c for t in it) and X` (dually any/or): exact
  * `try: B except E as e: raise e` (only re-raising handlers, no else / finally) -> B
  * a bare `return` in tail position of a function that returns no value is dropped; likewise `continue`
    in tail position of a loop body
  * `if not c: A else: B`                        ->  `if c: B else: A`
  * guard clause: `if c: <...exit>` followed by REST  ->  `if c: <...exit> else: REST`
    and `if c: <...exit> else: B` followed by REST      ->  `if c: <...exit> else: B; REST` (either arm)
    (exit = return / raise / continue / break as last statement), applied bottom-up,
    so early-return style and nested if/else style coincide
  * `if k in X: v = X[k] else: v = d`            ->  `v = X.get(k, d)`
  * `if c: pass else: B` -> `if not c: B`; stray `pass` removed
  * an `if` of which only some leaves return / raise, followed by a short tail ending in return / raise: the tail
    is moved to the leaves that fall through (every exit becomes a leaf of one decision tree)
  * `if a: S elif b: S else: T` -> `if a or b: S else: T` (equal arms, simple tests)
  * `x: T = v` -> `x = v` (annotations of simple names carry no behaviour)
  * `a, b = (x, y)` -> `a = x`; `b = y` (plain distinct names not read on the right)
  * `if (x := E): S` -> `x = E; if x: S`; a walrus in a later conjunct of an else-less test nests the test
  * `x = A if c else B` -> `if c: x = A else: x = B`, likewise `return A if c else B` (whole-value conditionals)
  * a read whose only reaching definition assigns None / True / False is replaced by the constant (and
    conditional expressions on constants are folded)
  * `x = <constant>` that no read can observe (reaching definitions) is removed
  * a flag set to constants at the end of both arms of an `if` and read only by the next statement: that statement
    moves into the arms with the constant in place of the flag
  * a local assigned once and read once by the next statement (first thing evaluated there, or a pure value) is inlined
  * case splitting (sa/casesplit.py): `if V in ('a','b'): S` whose body switches on V again -> one arm per literal
  * `if a: (if b: X)` without else -> `if a and b: X`;  `if k in M: x = M[k]` -> `x = M.get(k, x)`
  * with both arms present the positive test is kept: `if a is not None: A else: B` -> `if a is None: B else: A`
    (negative = not / != / not in / is not / >= / <= / a disjunction whose negation is positive)
  * `X = []` + `for t in it: [if c:] X.append(e)` -> `X = [e for t in it if c]` (likewise dict / set), when the
    loop variable is not read afterwards in the block
  * `X = {..}` directly followed by `X['k'] = v` (call-free values) -> the key joins the display;
    `X = [..]` directly followed by `X.append(e)` -> e joins the display
  * `if c: S[e1] else: S[e2]` (single statements equal but for one sub-expression, c simple) -> `S[e1 if c else e2]`
Line numbers of the original nodes are kept on the rewritten ones.
"""
import ast
import copy
import string

_FLIP = {ast.Lt: ast.Gt, ast.Gt: ast.Lt, ast.LtE: ast.GtE, ast.GtE: ast.LtE, ast.Eq: ast.Eq, ast.NotEq: ast.NotEq}
_NEG = {ast.Lt: ast.GtE, ast.GtE: ast.Lt, ast.Gt: ast.LtE, ast.LtE: ast.Gt, ast.Eq: ast.NotEq, ast.NotEq: ast.Eq, ast.In: ast.NotIn, ast.NotIn: ast.In, ast.Is: ast.IsNot, ast.IsNot: ast.Is}


def _loc(new, old):
    return ast.copy_location(new, old)


def _is_const(e):
    if isinstance(e, ast.Constant):
        return True
    if isinstance(e, ast.UnaryOp) and isinstance(e.op, ast.USub) and isinstance(e.operand, ast.Constant):
        return True
    return False


def _dump(e):
    return ast.dump(e, annotate_fields=False)


def _safe_default(e):
    """evaluating e early (as the default argument of .get) cannot raise or have an effect: names, constants,
    empty displays, attribute chains, `.get(..)` of such"""
    if isinstance(e, (ast.Constant, ast.Name)):
        return True
    if isinstance(e, (ast.List, ast.Tuple, ast.Set)):
        return all(_safe_default(x) for x in e.elts)
    if isinstance(e, ast.Dict):
        return all(k is not None and _safe_default(k) for k in e.keys) and all(_safe_default(v) for v in e.values)
    if isinstance(e, ast.Call) and isinstance(e.func, ast.Attribute) and e.func.attr == "get" and not e.keywords and _safe_default(e.func.value) and all(_safe_default(a) for a in e.args):
        return True
    if isinstance(e, ast.UnaryOp) and isinstance(e.operand, ast.Constant):
        return True
    return False


def _has_call(e):
    return any(isinstance(n, (ast.Call, ast.Await, ast.Yield, ast.YieldFrom)) for n in ast.walk(e))


def _shape_key(e):
    """structure of an expression with identifiers blanked (so that a renaming cannot change an ordering)"""
    e = copy.deepcopy(e)
    for n in ast.walk(e):
        if isinstance(n, ast.Name):
            n.id = "_"
        elif isinstance(n, ast.Attribute):
            n.attr = "_"
        elif isinstance(n, ast.arg):
            n.arg = "_"
    return ast.dump(e, annotate_fields=False)


def _quantifier(e):
    """('all' | 'any', generator expression) for all(<genexp>) / any(<genexp>)"""
    if isinstance(e, ast.Call) and isinstance(e.func, ast.Name) and e.func.id in ("all", "any") and len(e.args) == 1 and not e.keywords and isinstance(e.args[0], ast.GeneratorExp):
        return e.func.id, e.args[0]
    return None


def negate(e):
    """an expression equivalent to `not e`, with the negation pushed inward"""
    if isinstance(e, ast.UnaryOp) and isinstance(e.op, ast.Not):
        return e.operand
    q = _quantifier(e)
    if q is not None:
        # not all(p for ..) == any(not p for ..)
        gen = q[1]
        new_gen = _loc(ast.GeneratorExp(elt=negate(gen.elt), generators=gen.generators), gen)
        return _loc(ast.Call(func=_loc(ast.Name(id="any" if q[0] == "all" else "all", ctx=ast.Load()), e.func), args=[new_gen], keywords=[]), e)
    if isinstance(e, ast.BoolOp):
        op = ast.Or() if isinstance(e.op, ast.And) else ast.And()
        return _loc(ast.BoolOp(op=op, values=[negate(v) for v in e.values]), e)
    if isinstance(e, ast.Compare) and len(e.ops) == 1 and type(e.ops[0]) in _NEG:
        return _loc(ast.Compare(left=e.left, ops=[_NEG[type(e.ops[0])]()], comparators=e.comparators), e)
    return _loc(ast.UnaryOp(op=ast.Not(), operand=e), e)


class ExprCanon(ast.NodeTransformer):
    def visit_UnaryOp(self, node):
        self.generic_visit(node)
        if isinstance(node.op, ast.Not) and isinstance(node.operand, ast.Constant) and isinstance(node.operand.value, bool):
            return _loc(ast.Constant(value=not node.operand.value), node)
        if isinstance(node.op, ast.Not):
            inner = node.operand
            if isinstance(inner, (ast.BoolOp, ast.UnaryOp)) or (isinstance(inner, ast.Compare) and len(inner.ops) == 1 and type(inner.ops[0]) in _NEG):
                if not (isinstance(inner, ast.UnaryOp) and not isinstance(inner.op, ast.Not)):
                    return self.visit(negate(inner)) if isinstance(inner, ast.BoolOp) else negate(inner)
        return node

    def visit_Compare(self, node):
        self.generic_visit(node)
        # chained comparison -> conjunction of links
        if len(node.ops) > 1:
            parts = []
            left = node.left
            for op, right in zip(node.ops, node.comparators):
                parts.append(self.visit_Compare(_loc(ast.Compare(left=left, ops=[op], comparators=[right]), node)))
                left = right
            return _loc(ast.BoolOp(op=ast.And(), values=parts), node)
        op = node.ops[0]
        l, r = node.left, node.comparators[0]
        # `c in (E for v in X)` with a constant c  ==  any(E == c for v in X)   (membership in an iterator compares one by one)
        if isinstance(op, (ast.In, ast.NotIn)) and isinstance(l, ast.Constant) and isinstance(r, ast.GeneratorExp) and len(r.generators) == 1 and not r.generators[0].is_async:
            cmp_ = _loc(ast.Compare(left=r.elt, ops=[ast.Eq()], comparators=[l]), node)
            call = _loc(ast.Call(func=_loc(ast.Name(id="any", ctx=ast.Load()), node), args=[_loc(ast.GeneratorExp(elt=cmp_, generators=r.generators), node)], keywords=[]), node)
            ast.fix_missing_locations(call)
            return call if isinstance(op, ast.In) else _loc(ast.UnaryOp(op=ast.Not(), operand=call), node)
        # sentinels: identical only to themselves
        S_ = _SENTINELS[-1]
        if S_ and isinstance(op, (ast.Is, ast.IsNot)):
            ls, rs = isinstance(l, ast.Name) and l.id in S_, isinstance(r, ast.Name) and r.id in S_
            verdict = None
            if ls and rs:
                verdict = l.id == r.id
            elif (ls and _not_a_sentinel(r)) or (rs and _not_a_sentinel(l)):
                verdict = False
            if verdict is not None:
                return _loc(ast.Constant(value=verdict if isinstance(op, ast.Is) else not verdict), node)
        # two literal constants (None / bool / str): `None is None`, `'a' == 'b'`
        if isinstance(l, ast.Constant) and isinstance(r, ast.Constant) and all(x.value is None or isinstance(x.value, (bool, str)) for x in (l, r)):
            same = (l.value is r.value) if (l.value is None or r.value is None or isinstance(l.value, bool) or isinstance(r.value, bool)) else (l.value == r.value)
            if isinstance(op, (ast.Is, ast.Eq)) and (isinstance(op, ast.Is) or type(l.value) is type(r.value) or l.value is None or r.value is None):
                return _loc(ast.Constant(value=bool(same)), node)
            if isinstance(op, (ast.IsNot, ast.NotEq)) and (isinstance(op, ast.IsNot) or type(l.value) is type(r.value) or l.value is None or r.value is None):
                return _loc(ast.Constant(value=not same), node)
        if type(op) in _FLIP and _is_const(l) and not _is_const(r):
            node = _loc(ast.Compare(left=r, ops=[_FLIP[type(op)]()], comparators=[l]), node)
            op = node.ops[0]
            l, r = node.left, node.comparators[0]
        if isinstance(op, (ast.In, ast.NotIn)) and isinstance(r, (ast.List,)):
            node = _loc(ast.Compare(left=l, ops=[op], comparators=[_loc(ast.Tuple(elts=r.elts, ctx=ast.Load()), r)]), node)
        # neither side constant: the operands of a symmetric / mirrored comparison in text order
        op = node.ops[0]
        l, r = node.left, node.comparators[0]
        if not _is_const(l) and not _is_const(r) and not (_has_call(l) and _has_call(r)):
            if isinstance(op, (ast.Gt, ast.GtE)):
                node = _loc(ast.Compare(left=r, ops=[_FLIP[type(op)]()], comparators=[l]), node)
            elif isinstance(op, (ast.Eq, ast.NotEq)) and _shape_key(l) > _shape_key(r):
                node = _loc(ast.Compare(left=r, ops=[op], comparators=[l]), node)
        return node

    def visit_BinOp(self, node):
        self.generic_visit(node)
        # len(x) + 0 -> len(x)  (an int plus the literal zero)
        if isinstance(node.op, (ast.Add, ast.Sub)) and isinstance(node.right, ast.Constant) and isinstance(node.right.value, int) and not isinstance(node.right.value, bool) and node.right.value == 0 and _certainly_int(node.left):
            return node.left
        if isinstance(node.op, ast.Add) and isinstance(node.left, ast.Constant) and isinstance(node.left.value, int) and not isinstance(node.left.value, bool) and node.left.value == 0 and _certainly_int(node.right):
            return node.right
        # 'text %s and %r' % (a, b)  ->  f'text {a} and {b!r}'   (only %s / %r / %d / %% with plain operands; %d of an int is str())
        if isinstance(node.op, ast.Mod) and isinstance(node.left, ast.Constant) and isinstance(node.left.value, str):
            import re as _re
            fmt = node.left.value
            specs = _re.findall(r"%(?:%|[srd])|%.", fmt)
            if specs and all(x in ("%s", "%r", "%%") for x in specs):
                args = list(node.right.elts) if isinstance(node.right, ast.Tuple) else [node.right]
                n_args = sum(1 for x in specs if x != "%%")
                if len(args) == n_args and not any(isinstance(a_, (ast.Starred, ast.Dict, ast.Tuple)) for a_ in args) and (isinstance(node.right, ast.Tuple) or isinstance(node.right, (ast.Name, ast.Constant, ast.Subscript, ast.Attribute, ast.Call)) and n_args == 1 and not (isinstance(node.right, ast.Name))):
                    vals, it = [], iter(args)
                    pos = 0
                    for m_ in _re.finditer(r"%(?:%|[sr])", fmt):
                        lit = fmt[pos:m_.start()]
                        if lit:
                            vals.append(_loc(ast.Constant(value=lit), node))
                        if m_.group(0) == "%%":
                            vals.append(_loc(ast.Constant(value="%"), node))
                        else:
                            vals.append(_loc(ast.FormattedValue(value=next(it), conversion=ord("r") if m_.group(0) == "%r" else -1, format_spec=None), node))
                        pos = m_.end()
                    if fmt[pos:]:
                        vals.append(_loc(ast.Constant(value=fmt[pos:]), node))
                    return self.visit(_loc(ast.JoinedStr(values=vals), node))
        # adjacent string pieces joined with +  ->  one (f-)string
        if isinstance(node.op, ast.Add):
            def pieces(e):
                if isinstance(e, ast.JoinedStr):
                    return list(e.values)
                if isinstance(e, ast.Constant) and isinstance(e.value, str):
                    return [e]
                return None

            lp, rp = pieces(node.left), pieces(node.right)
            if lp is not None and rp is not None:
                vals = []
                for v in lp + rp:
                    if isinstance(v, ast.Constant) and vals and isinstance(vals[-1], ast.Constant):
                        vals[-1] = _loc(ast.Constant(value=vals[-1].value + v.value), vals[-1])
                    else:
                        vals.append(v)
                if len(vals) == 1 and isinstance(vals[0], ast.Constant):
                    return _loc(ast.Constant(value=vals[0].value), node)
                return _loc(ast.JoinedStr(values=vals), node)
        return node

    def _unroll_comp(self, node):
        """{K: V for x in ('a', 'b')} / [E for x in ('a', 'b')] over a short literal of constants, no conditions: the
        display of the substituted elements (the elements are evaluated in the same order)"""
        if len(node.generators) != 1:
            return None
        g = node.generators[0]
        if g.is_async or g.ifs or not isinstance(g.target, ast.Name) or not isinstance(g.iter, (ast.Tuple, ast.List)) or not (1 <= len(g.iter.elts) <= 24) or not all(isinstance(e, ast.Constant) for e in g.iter.elts):
            return None
        parts = node.key, node.value if isinstance(node, ast.DictComp) else None
        body_nodes = [node.key, node.value] if isinstance(node, ast.DictComp) else [node.elt]
        if any(isinstance(x, (ast.Lambda, ast.NamedExpr, ast.GeneratorExp, ast.ListComp, ast.SetComp, ast.DictComp)) for b in body_nodes for x in ast.walk(b)):
            return None
        rows = []
        for c in g.iter.elts:
            m = {g.target.id: c}
            rows.append([self.visit(ast.fix_missing_locations(_SubstNames(m).visit(copy.deepcopy(b)))) for b in body_nodes])
        if isinstance(node, ast.DictComp):
            if not all(isinstance(r[0], ast.Constant) for r in rows) or len({r[0].value for r in rows}) != len(rows):
                return None
            return _loc(ast.Dict(keys=[r[0] for r in rows], values=[r[1] for r in rows]), node)
        return _loc(ast.List(elts=[r[0] for r in rows], ctx=ast.Load()), node)

    def visit_JoinedStr(self, node):
        self.generic_visit(node)
        vals = []
        for v in node.values:
            if isinstance(v, ast.FormattedValue) and v.conversion == -1 and v.format_spec is None and isinstance(v.value, ast.Constant) and isinstance(v.value.value, str):
                v = _loc(ast.Constant(value=v.value.value), v)
            if isinstance(v, ast.Constant) and vals and isinstance(vals[-1], ast.Constant):
                vals[-1] = _loc(ast.Constant(value=vals[-1].value + v.value), vals[-1])
            else:
                vals.append(v)
        node.values = vals
        if len(vals) == 1 and isinstance(vals[0], ast.Constant) and isinstance(vals[0].value, str):
            return vals[0]  # an f-string without fields is a plain string
        if not vals:
            return _loc(ast.Constant(value=""), node)
        return node

    def visit_Subscript(self, node):
        self.generic_visit(node)
        # X.split(sep)[-1]  ->  X.rsplit(sep, 1)[-1]
        v = node.value
        if isinstance(node.slice, ast.UnaryOp) and isinstance(node.slice.op, ast.USub) and isinstance(node.slice.operand, ast.Constant) and node.slice.operand.value == 1:
            if isinstance(v, ast.Call) and isinstance(v.func, ast.Attribute) and v.func.attr == "split" and len(v.args) == 1 and not v.keywords:
                call = _loc(ast.Call(func=_loc(ast.Attribute(value=v.func.value, attr="rsplit", ctx=ast.Load()), v.func), args=[v.args[0], _loc(ast.Constant(value=1), v)], keywords=[]), v)
                node.value = call
        # {'a': x, 'b': y}['a'] with plain values  ->  x
        if isinstance(node.ctx, ast.Load) and isinstance(v, ast.Dict) and isinstance(node.slice, ast.Constant) and v.keys and all(k is not None and isinstance(k, ast.Constant) for k in v.keys):
            hits = [val for k, val in zip(v.keys, v.values) if k.value == node.slice.value and type(k.value) is type(node.slice.value)]
            def _inert(e):
                return isinstance(e, (ast.Name, ast.Constant)) or (isinstance(e, ast.Attribute) and _inert(e.value)) or (isinstance(e, ast.Tuple) and all(_inert(x) for x in e.elts))
            if len(hits) == 1 and all(_inert(val) for val in v.values):
                return hits[0]
        # (a, b)[0] with plain elements (names, constants, attributes of names)  ->  a
        if isinstance(node.ctx, ast.Load) and isinstance(v, ast.Tuple) and isinstance(node.slice, ast.Constant) and isinstance(node.slice.value, int) and not isinstance(node.slice.value, bool) and 0 <= node.slice.value < len(v.elts):
            def _plain(e):
                return isinstance(e, (ast.Name, ast.Constant)) or (isinstance(e, ast.Attribute) and _plain(e.value)) or (isinstance(e, ast.Tuple) and all(_plain(x) for x in e.elts))
            if all(_plain(e) for e in v.elts):
                return v.elts[node.slice.value]
        return node

    def visit_BoolOp(self, node):
        self.generic_visit(node)
        # flatten nested same-op
        vals = []
        for v in node.values:
            if isinstance(v, ast.BoolOp) and type(v.op) is type(node.op):
                vals.extend(v.values)
            else:
                vals.append(v)
        # constant operands: `True or X` -> True, `False or X` -> X, `True and X` -> X, `False and X` -> False
        # (the constant is a literal bool; a surviving single operand is returned as is: the value of `c or X` with c
        # a false literal is X itself)
        unit = isinstance(node.op, ast.And)
        folded = []
        for k, v in enumerate(vals):
            if isinstance(v, ast.Constant) and isinstance(v.value, bool):
                if v.value is unit:
                    if k == len(vals) - 1 and folded and not all(_boolean_typed(x) for x in folded):
                        folded.append(v)  # `X and True` has the value True, not X, unless X is a bool anyway
                    continue
                folded.append(v)
                break  # everything after an absorbing constant is never evaluated
            folded.append(v)
        if not folded:
            return _loc(ast.Constant(value=unit), node)
        if len(folded) == 1:
            return folded[0]
        vals = folded
        node.values = vals
        if isinstance(node.op, ast.Or):
            # isinstance(a, X) or isinstance(a, Y) -> isinstance(a, (X, Y))
            groups = {}
            order = []
            for v in node.values:
                key = None
                if isinstance(v, ast.Call) and isinstance(v.func, ast.Name) and v.func.id == "isinstance" and len(v.args) == 2 and not v.keywords:
                    key = ("isinstance", _dump(v.args[0]))
                elif isinstance(v, ast.Compare) and len(v.ops) == 1 and isinstance(v.ops[0], ast.Eq) and _is_const(v.comparators[0]) and isinstance(v.comparators[0], ast.Constant) and isinstance(v.comparators[0].value, str):
                    key = ("eq", _dump(v.left))
                elif isinstance(v, ast.Compare) and len(v.ops) == 1 and isinstance(v.ops[0], ast.In) and isinstance(v.comparators[0], ast.Tuple) and all(isinstance(x, ast.Constant) for x in v.comparators[0].elts):
                    key = ("eq", _dump(v.left))
                if key is None:
                    key = ("other", id(v))
                if key not in groups:
                    groups[key] = []
                    order.append(key)
                groups[key].append(v)
            new_vals = []
            for key in order:
                g = groups[key]
                if key[0] == "isinstance" and len(g) > 1:
                    types = []
                    for v in g:
                        t = v.args[1]
                        types.extend(t.elts if isinstance(t, ast.Tuple) else [t])
                    new_vals.append(_loc(ast.Call(func=g[0].func, args=[g[0].args[0], _loc(ast.Tuple(elts=types, ctx=ast.Load()), g[0])], keywords=[]), g[0]))
                elif key[0] == "eq" and len(g) > 1:
                    consts = []
                    for v in g:
                        c = v.comparators[0]
                        consts.extend(c.elts if isinstance(c, ast.Tuple) else [c])
                    new_vals.append(_loc(ast.Compare(left=g[0].left, ops=[ast.In()], comparators=[_loc(ast.Tuple(elts=consts, ctx=ast.Load()), g[0])]), g[0]))
                else:
                    new_vals.extend(g)
            if len(new_vals) == 1:
                return new_vals[0]
            node.values = new_vals
        return node

    def _fuse_generators(self, node):
        """`.. for (a, b) in ((E1, E2) for y in Y) ..` -> `.. for y in Y ..` with a := E1, b := E2 (each used at most once,
        or atomic): a comprehension over a generator of tuples is the comprehension over what the generator walks"""
        from .unextract import _pure

        changed = True
        while changed:
            changed = False
            for gi, g in enumerate(node.generators):
                inner = g.iter
                if not (isinstance(inner, (ast.GeneratorExp, ast.ListComp)) and len(inner.generators) == 1 and not inner.generators[0].is_async and not g.is_async):
                    continue
                ig = inner.generators[0]
                if isinstance(g.target, ast.Name):
                    names, vals = [g.target.id], [inner.elt]
                elif isinstance(g.target, ast.Tuple) and isinstance(inner.elt, ast.Tuple) and len(g.target.elts) == len(inner.elt.elts) and all(isinstance(e, ast.Name) for e in g.target.elts):
                    names, vals = [e.id for e in g.target.elts], list(inner.elt.elts)
                else:
                    continue
                inner_bound = {x.id for x in ast.walk(ig.target) if isinstance(x, ast.Name)}
                if inner_bound & set(names) or len(set(names)) != len(names):
                    continue
                later = list(g.ifs) + [y for g2 in node.generators[gi + 1:] for y in [g2.iter] + list(g2.ifs)]
                body = later + ([node.key, node.value] if isinstance(node, ast.DictComp) else [node.elt])
                # names of the inner generator must not collide with names used in the outer parts
                outer_names = {x.id for e in body for x in ast.walk(e) if isinstance(x, ast.Name)} | {x.id for g2 in node.generators if g2 is not g for x in ast.walk(g2.target) if isinstance(x, ast.Name)}
                if inner_bound & (outer_names - set(names)):
                    continue
                uses = {nm: sum(1 for e in body for x in ast.walk(e) if isinstance(x, ast.Name) and x.id == nm and isinstance(x.ctx, ast.Load)) for nm in names}
                if any(isinstance(x, ast.Name) and x.id in names and isinstance(x.ctx, ast.Store) for e in body for x in ast.walk(e)):
                    continue
                if not all(uses[nm] <= 1 or _pure(v) for nm, v in zip(names, vals)):
                    continue
                # with several values used once each, their order of evaluation must stay the tuple's: keep it simple
                # and require that at most one of them can have an effect
                if sum(1 for v in vals if not _pure(v)) > 1:
                    continue
                m = dict(zip(names, vals))
                sub = _SubstNames(m)
                new_ifs = [sub.visit(copy.deepcopy(c)) for c in g.ifs]
                node.generators[gi] = ast.comprehension(target=ig.target, iter=ig.iter, ifs=list(ig.ifs) + new_ifs, is_async=0)
                for g2 in node.generators[gi + 1:]:
                    g2.iter = sub.visit(g2.iter)
                    g2.ifs = [sub.visit(c) for c in g2.ifs]
                if isinstance(node, ast.DictComp):
                    node.key, node.value = sub.visit(node.key), sub.visit(node.value)
                else:
                    node.elt = sub.visit(node.elt)
                ast.fix_missing_locations(node)
                changed = True
                break
        return node

    def visit_ListComp(self, node):
        self.generic_visit(node)
        return self._fuse_generators(node)

    def visit_GeneratorExp(self, node):
        self.generic_visit(node)
        return self._fuse_generators(node)

    def visit_DictComp(self, node):
        self.generic_visit(node)
        node = self._fuse_generators(node)
        un = self._unroll_comp(node)
        if un is not None:
            return un
        # {k: x for k, (x, _) in {<display>}.items()}  ->  the projected display
        if len(node.generators) == 1 and not node.generators[0].ifs:
            g = node.generators[0]
            it = g.iter
            if isinstance(it, ast.Call) and isinstance(it.func, ast.Attribute) and it.func.attr == "items" and not it.args and isinstance(it.func.value, ast.Dict) and all(k is not None for k in it.func.value.keys) and isinstance(g.target, ast.Tuple) and len(g.target.elts) == 2 and isinstance(g.target.elts[0], ast.Name) and isinstance(node.key, ast.Name) and node.key.id == g.target.elts[0].id and isinstance(node.value, ast.Name):
                d = it.func.value
                vt = g.target.elts[1]
                proj = None
                if isinstance(vt, ast.Name) and vt.id == node.value.id:
                    proj = list(d.values)
                elif isinstance(vt, ast.Tuple) and all(isinstance(x, ast.Name) for x in vt.elts) and node.value.id in [x.id for x in vt.elts] and all(isinstance(v, ast.Tuple) and len(v.elts) == len(vt.elts) for v in d.values):
                    i = [x.id for x in vt.elts].index(node.value.id)
                    proj = [v.elts[i] for v in d.values]
                if proj is not None:
                    return _loc(ast.Dict(keys=[copy.deepcopy(k) for k in d.keys], values=[copy.deepcopy(v) for v in proj]), node)
        # {k: v for k, v in X.items()} -> dict(X)
        if len(node.generators) == 1:
            g = node.generators[0]
            if not g.ifs and isinstance(g.target, ast.Tuple) and len(g.target.elts) == 2 and all(isinstance(x, ast.Name) for x in g.target.elts) and isinstance(node.key, ast.Name) and isinstance(node.value, ast.Name) and node.key.id == g.target.elts[0].id and node.value.id == g.target.elts[1].id and node.key.id != node.value.id:
                it = g.iter
                if isinstance(it, ast.Call) and isinstance(it.func, ast.Attribute) and it.func.attr == "items" and not it.args and not it.keywords:
                    return _loc(ast.Call(func=_loc(ast.Name(id="dict", ctx=ast.Load()), node), args=[it.func.value], keywords=[]), node)
        return node

    def visit_SetComp(self, node):
        # {f(x) for x in X} -> set(f(x) for x in X)
        self.generic_visit(node)
        return _loc(ast.Call(func=_loc(ast.Name(id="set", ctx=ast.Load()), node), args=[_loc(ast.GeneratorExp(elt=node.elt, generators=node.generators), node)], keywords=[]), node)

    def visit_IfExp(self, node):
        self.generic_visit(node)
        if isinstance(node.test, ast.Constant) and (node.test.value is None or isinstance(node.test.value, bool)):
            return node.body if node.test.value else node.orelse
        # X[k] if k in X else d  ->  X.get(k, d)
        t = node.test
        if isinstance(t, ast.Compare) and len(t.ops) == 1 and isinstance(t.ops[0], (ast.In, ast.NotIn)):
            body, orelse = (node.body, node.orelse) if isinstance(t.ops[0], ast.In) else (node.orelse, node.body)
            k, X = t.left, t.comparators[0]
            if isinstance(body, ast.Subscript) and _dump(body.value) == _dump(X) and _dump(body.slice) == _dump(k) and _safe_default(orelse):
                return _loc(ast.Call(func=_loc(ast.Attribute(value=X, attr="get", ctx=ast.Load()), node), args=[k, orelse], keywords=[]), node)
        if isinstance(t, ast.UnaryOp) and isinstance(t.op, ast.Not):
            return _loc(ast.IfExp(test=t.operand, body=node.orelse, orelse=node.body), node)
        # b'\x01' if c else b'\x00'  ->  pack('B', 1 if c else 0)   (one unsigned byte either way)
        if all(isinstance(x, ast.Constant) and isinstance(x.value, bytes) and len(x.value) == 1 for x in (node.body, node.orelse)):
            pick = _loc(ast.IfExp(test=node.test, body=_loc(ast.Constant(value=node.body.value[0]), node), orelse=_loc(ast.Constant(value=node.orelse.value[0]), node)), node)
            return _loc(ast.Call(func=_loc(ast.Name(id="pack", ctx=ast.Load()), node), args=[_loc(ast.Constant(value="B"), node), pick], keywords=[]), node)
        return node

    def visit_Call(self, node):
        self.generic_visit(node)
        # f(a, *(x, y)) is f(a, x, y); f(**{'k': v}) is f(k=v)   (displays unpacked on the spot)
        if any(isinstance(a_, ast.Starred) and isinstance(a_.value, (ast.Tuple, ast.List)) and not any(isinstance(e_, ast.Starred) for e_ in a_.value.elts) for a_ in node.args):
            flat = []
            for a_ in node.args:
                if isinstance(a_, ast.Starred) and isinstance(a_.value, (ast.Tuple, ast.List)) and not any(isinstance(e_, ast.Starred) for e_ in a_.value.elts):
                    flat.extend(a_.value.elts)
                else:
                    flat.append(a_)
            node.args = flat
        if any(k_.arg is None and isinstance(k_.value, ast.Dict) and all(isinstance(x_, ast.Constant) and isinstance(x_.value, str) and x_.value.isidentifier() for x_ in k_.value.keys) for k_ in node.keywords):
            kws = []
            for k_ in node.keywords:
                if k_.arg is None and isinstance(k_.value, ast.Dict) and all(isinstance(x_, ast.Constant) and isinstance(x_.value, str) and x_.value.isidentifier() for x_ in k_.value.keys):
                    kws.extend(ast.keyword(arg=x_.value, value=v_) for x_, v_ in zip(k_.value.keys, k_.value.values))
                else:
                    kws.append(k_)
            node.keywords = kws
        f0 = node.func
        # operator.itemgetter(k)(x) is x[k]; attrgetter('a')(x) is x.a; methodcaller('m', *a)(x) is x.m(*a)
        if isinstance(f0, ast.Call) and len(node.args) == 1 and not node.keywords and not f0.keywords and not isinstance(node.args[0], ast.Starred):
            g0 = f0.func
            gname = g0.id if isinstance(g0, ast.Name) else (g0.attr if isinstance(g0, ast.Attribute) and isinstance(g0.value, ast.Name) and g0.value.id == "operator" else None)
            if gname == "itemgetter" and len(f0.args) == 1 and not isinstance(f0.args[0], ast.Starred):
                return _loc(ast.Subscript(value=node.args[0], slice=f0.args[0], ctx=ast.Load()), node)
            if gname == "itemgetter" and len(f0.args) > 1 and isinstance(node.args[0], ast.Name) and not any(isinstance(x, ast.Starred) for x in f0.args):
                # several keys: the tuple of the lookups, in order
                return _loc(ast.Tuple(elts=[_loc(ast.Subscript(value=copy.deepcopy(node.args[0]), slice=k_, ctx=ast.Load()), node) for k_ in f0.args], ctx=ast.Load()), node)
            if gname == "attrgetter" and len(f0.args) == 1 and isinstance(f0.args[0], ast.Constant) and isinstance(f0.args[0].value, str) and f0.args[0].value.isidentifier():
                return _loc(ast.Attribute(value=node.args[0], attr=f0.args[0].value, ctx=ast.Load()), node)
            if gname == "methodcaller" and f0.args and isinstance(f0.args[0], ast.Constant) and isinstance(f0.args[0].value, str) and f0.args[0].value.isidentifier():
                return _loc(ast.Call(func=_loc(ast.Attribute(value=node.args[0], attr=f0.args[0].value, ctx=ast.Load()), node), args=list(f0.args[1:]), keywords=[]), node)
        # operator.add(a, b) is a + b (and the other binary operators), so that a reduce over them reads as arithmetic
        if len(node.args) == 2 and not node.keywords and not any(isinstance(x, ast.Starred) for x in node.args):
            oname = f0.id if isinstance(f0, ast.Name) and f0.id in _OPERATOR_IMPORTED[0] else (f0.attr if isinstance(f0, ast.Attribute) and isinstance(f0.value, ast.Name) and f0.value.id == "operator" else None)
            ops = {"add": ast.Add, "sub": ast.Sub, "mul": ast.Mult, "truediv": ast.Div, "floordiv": ast.FloorDiv, "mod": ast.Mod, "pow": ast.Pow, "xor": ast.BitXor, "or_": ast.BitOr, "and_": ast.BitAnd, "lshift": ast.LShift, "rshift": ast.RShift, "ixor": ast.BitXor, "ior": ast.BitOr, "iand": ast.BitAnd, "iadd": ast.Add, "imul": ast.Mult}
            if oname in ops:
                return _loc(ast.BinOp(left=node.args[0], op=ops[oname](), right=node.args[1]), node)
            if oname == "contains":
                return _loc(ast.Compare(left=node.args[1], ops=[ast.In()], comparators=[node.args[0]]), node)
            if oname == "getitem":
                return _loc(ast.Subscript(value=node.args[0], slice=node.args[1], ctx=ast.Load()), node)
        # x.to_bytes(length=a, byteorder=b, ..) -> x.to_bytes(a, b, ..)   (the two leading parameters by position)
        if isinstance(f0, ast.Attribute) and f0.attr == "to_bytes" and node.keywords and not node.args:
            kw = {k.arg: k.value for k in node.keywords if k.arg}
            if "length" in kw and "byteorder" in kw:
                node.args = [kw["length"], kw["byteorder"]]
                node.keywords = [k for k in node.keywords if k.arg not in ("length", "byteorder")]
        # types.MappingProxyType(D) is a read-only view of D: every read of it is a read of D
        if len(node.args) == 1 and not node.keywords and ((isinstance(f0, ast.Name) and f0.id == "MappingProxyType") or (isinstance(f0, ast.Attribute) and f0.attr == "MappingProxyType" and isinstance(f0.value, ast.Name) and f0.value.id == "types")):
            return node.args[0]
        # tuple([a, b]) / tuple((a, b)) is (a, b)
        if isinstance(f0, ast.Name) and f0.id == "tuple" and len(node.args) == 1 and not node.keywords and isinstance(node.args[0], (ast.List, ast.Tuple)) and not any(isinstance(x, ast.Starred) for x in node.args[0].elts):
            return _loc(ast.Tuple(elts=list(node.args[0].elts), ctx=ast.Load()), node)
        # format(x) is f'{x}';  'sep'.join((a, b)) over a display of string-typed pieces is the f-string of them
        if isinstance(f0, ast.Name) and f0.id == "format" and len(node.args) == 1 and not node.keywords and not isinstance(node.args[0], ast.Starred):
            return _loc(ast.JoinedStr(values=[_loc(ast.FormattedValue(value=node.args[0], conversion=-1, format_spec=None), node)]), node)
        if isinstance(f0, ast.Attribute) and f0.attr == "join" and isinstance(f0.value, ast.Constant) and isinstance(f0.value.value, str) and len(node.args) == 1 and not node.keywords and isinstance(node.args[0], (ast.Tuple, ast.List)) and node.args[0].elts and all(isinstance(x, ast.JoinedStr) or (isinstance(x, ast.Constant) and isinstance(x.value, str)) or (isinstance(x, ast.Call) and isinstance(x.func, ast.Name) and x.func.id == "str" and len(x.args) == 1 and not x.keywords) for x in node.args[0].elts):
            vals = []
            for i_, x in enumerate(node.args[0].elts):
                if i_ and f0.value.value:
                    vals.append(_loc(ast.Constant(value=f0.value.value), node))
                if isinstance(x, ast.JoinedStr):
                    vals.extend(x.values)
                elif isinstance(x, ast.Constant):
                    vals.append(x)
                else:
                    vals.append(_loc(ast.FormattedValue(value=x.args[0], conversion=ord("s"), format_spec=None), x))
            return self.visit(_loc(ast.JoinedStr(values=vals), node))
        # getattr(x, 'name') with a literal identifier is x.name
        if isinstance(f0, ast.Name) and f0.id == "getattr" and len(node.args) == 2 and not node.keywords and isinstance(node.args[1], ast.Constant) and isinstance(node.args[1].value, str) and node.args[1].value.isidentifier() and not node.args[1].value.startswith("__"):
            return _loc(ast.Attribute(value=node.args[0], attr=node.args[1].value, ctx=ast.Load()), node)
        # typing.cast(T, e) is e
        if len(node.args) == 2 and not node.keywords and ((isinstance(f0, ast.Name) and f0.id in _CAST_NAMES[0]) or (isinstance(f0, ast.Attribute) and f0.attr == "cast" and isinstance(f0.value, ast.Name) and f0.value.id in _CAST_NAMES[1])):
            return node.args[1]
        # f(a, *(b, c)) -> f(a, b, c)
        if any(isinstance(x, ast.Starred) and isinstance(x.value, (ast.Tuple, ast.List)) and not any(isinstance(y, ast.Starred) for y in x.value.elts) for x in node.args):
            flat_args = []
            for x in node.args:
                if isinstance(x, ast.Starred) and isinstance(x.value, (ast.Tuple, ast.List)) and not any(isinstance(y, ast.Starred) for y in x.value.elts):
                    flat_args.extend(x.value.elts)
                else:
                    flat_args.append(x)
            node.args = flat_args
        # map(f, X) -> (f(_m) for _m in X)   (one iterable, f a plain name / attribute)
        if isinstance(f0, ast.Name) and f0.id == "map" and len(node.args) == 2 and not node.keywords and (isinstance(node.args[0], (ast.Name, ast.Attribute, ast.Lambda)) or (isinstance(node.args[0], ast.Call) and ast.unparse(node.args[0].func).split(".")[-1] in ("itemgetter", "attrgetter", "methodcaller", "partial") and not any(isinstance(x, (ast.Call, ast.NamedExpr)) for a_ in node.args[0].args for x in ast.walk(a_)))):
            var = "_m"
            call = self.visit(_loc(ast.Call(func=node.args[0], args=[_loc(ast.Name(id=var, ctx=ast.Load()), node)], keywords=[]), node))
            gen = ast.comprehension(target=_loc(ast.Name(id=var, ctx=ast.Store()), node), iter=node.args[1], ifs=[], is_async=0)
            return _loc(ast.GeneratorExp(elt=call, generators=[gen]), node)
        # filter(f, X) -> (_m for _m in X if f(_m));  filter(None, X) -> (_m for _m in X if _m)
        if isinstance(f0, ast.Name) and f0.id == "filter" and len(node.args) == 2 and not node.keywords and (isinstance(node.args[0], (ast.Name, ast.Attribute, ast.Lambda)) or (isinstance(node.args[0], ast.Constant) and node.args[0].value is None) or (isinstance(node.args[0], ast.Call) and ast.unparse(node.args[0].func).split(".")[-1] in ("itemgetter", "attrgetter", "methodcaller", "partial") and not any(isinstance(x, (ast.Call, ast.NamedExpr)) for a_ in node.args[0].args for x in ast.walk(a_)))):
            var = "_m"
            ref = _loc(ast.Name(id=var, ctx=ast.Load()), node)
            cond = ref if isinstance(node.args[0], ast.Constant) else self.visit(_loc(ast.Call(func=node.args[0], args=[_loc(ast.Name(id=var, ctx=ast.Load()), node)], keywords=[]), node))
            gen = ast.comprehension(target=_loc(ast.Name(id=var, ctx=ast.Store()), node), iter=node.args[1], ifs=[cond], is_async=0)
            return _loc(ast.GeneratorExp(elt=_loc(ast.Name(id=var, ctx=ast.Load()), node), generators=[gen]), node)
        # F([... for ...]) -> F(... for ...) for consumers of any iterable
        consumer = (isinstance(f0, ast.Name) and f0.id in ("set", "list", "tuple", "sorted", "sum", "dict", "frozenset", "max", "min")) or (isinstance(f0, ast.Attribute) and f0.attr == "join")
        lazy_ok = isinstance(f0, ast.Name) and f0.id in ("any", "all") and len(node.args) == 1 and isinstance(node.args[0], ast.ListComp) and not _has_call(node.args[0].elt)
        if (consumer or lazy_ok) and len(node.args) == 1 and not node.keywords and isinstance(node.args[0], ast.ListComp):
            lc = node.args[0]
            node.args = [_loc(ast.GeneratorExp(elt=lc.elt, generators=lc.generators), lc)]
        # any(E(v) for v in <literal rows>) -> E(r1) or E(r2) ..  (all -> and); E boolean-typed so the value is the same
        if isinstance(f0, ast.Name) and f0.id in ("any", "all") and len(node.args) == 1 and not node.keywords and isinstance(node.args[0], ast.GeneratorExp) and len(node.args[0].generators) == 1:
            ge = node.args[0]
            g = ge.generators[0]
            if isinstance(g.iter, (ast.Tuple, ast.List)) and 1 <= len(g.iter.elts) <= 24 and not g.is_async:
                tgt = g.target
                names = [tgt.id] if isinstance(tgt, ast.Name) else ([e.id for e in tgt.elts] if isinstance(tgt, ast.Tuple) and all(isinstance(e, ast.Name) for e in tgt.elts) else None)
                rows = None
                if names is not None and len(names) == 1 and isinstance(tgt, ast.Name):
                    rows = [[e] for e in g.iter.elts]
                elif names is not None:
                    rows = [list(e.elts) if isinstance(e, (ast.Tuple, ast.List)) and len(e.elts) == len(names) else None for e in g.iter.elts]
                elt = ge.elt
                for c in g.ifs:
                    # all(E for v in T if c)  ==  all(not c or E);  any(E .. if c)  ==  any(c and E)
                    elt = _loc(ast.BoolOp(op=ast.And(), values=[c, elt]), node) if f0.id == "any" else _loc(ast.BoolOp(op=ast.Or(), values=[negate(copy.deepcopy(c)), elt]), node)
                if rows is not None and all(r is not None and all(_atomic_row(x) or _pure_lookup(x) or (isinstance(x, (ast.Tuple, ast.List)) and all(_atomic_row(y) for y in x.elts)) for x in r) for r in rows) and not any(isinstance(n, (ast.Lambda, ast.NamedExpr)) for n in ast.walk(elt)) and not any(isinstance(n, ast.Name) and n.id in names and isinstance(n.ctx, ast.Store) for n in ast.walk(elt)):
                    # any / all answer True or False: each row's value is taken as a boolean (`bool(..)` unless it is one)
                    parts = [_as_bool(self.visit(ast.fix_missing_locations(_SubstNames(dict(zip(names, r))).visit(copy.deepcopy(elt))))) for r in rows]
                    new = parts[0] if len(parts) == 1 else _loc(ast.BoolOp(op=ast.Or() if f0.id == "any" else ast.And(), values=parts), node)
                    return self.visit(ast.fix_missing_locations(new))
        # bool(X) with X a boolean already
        if isinstance(f0, ast.Name) and f0.id == "bool" and len(node.args) == 1 and not node.keywords and _boolean_typed(node.args[0]):
            return node.args[0]
        # (lambda p, q: BODY)(a, b) with simple arguments -> BODY[p := a, q := b]
        if isinstance(f0, ast.Lambda) and not node.keywords and not f0.args.vararg and not f0.args.kwarg and not f0.args.kwonlyargs and not f0.args.defaults and len(f0.args.args) == len(node.args) and all(_atomic_row(x) and not isinstance(x, ast.Lambda) for x in node.args) and not any(isinstance(x, (ast.Lambda, ast.ListComp, ast.SetComp, ast.DictComp, ast.GeneratorExp, ast.NamedExpr)) for x in ast.walk(f0.body)):
            m = {p.arg: a_ for p, a_ in zip(f0.args.args, node.args)}
            return self.visit(ast.fix_missing_locations(_SubstNames(m).visit(copy.deepcopy(f0.body))))
        # partial(f, a, k=b)(x) -> f(a, x, k=b)
        if _is_partial(f0) and not any(k.arg is not None and k.arg in {q.arg for q in f0.keywords} for k in node.keywords):
            node.args = list(f0.args[1:]) + list(node.args)
            node.keywords = list(f0.keywords) + list(node.keywords)
            node.func = f0.args[0]
            f0 = node.func
        # struct.unpack(..) -> unpack(..);  Struct(F).unpack(X) -> unpack(F, X)  (same for pack / unpack_from / pack_into / calcsize)
        if isinstance(f0, ast.Attribute) and f0.attr in ("pack", "unpack", "unpack_from", "pack_into", "iter_unpack"):
            v = f0.value
            if isinstance(v, ast.Name) and v.id == "struct":
                node.func = _loc(ast.Name(id=f0.attr, ctx=ast.Load()), f0)
            elif isinstance(v, ast.Call) and not v.keywords and len(v.args) == 1 and ((isinstance(v.func, ast.Name) and v.func.id == "Struct") or (isinstance(v.func, ast.Attribute) and v.func.attr == "Struct" and isinstance(v.func.value, ast.Name) and v.func.value.id == "struct")):
                node.func = _loc(ast.Name(id=f0.attr, ctx=ast.Load()), f0)
                node.args = [v.args[0]] + list(node.args)
        # 'literal {} {!r}'.format(a, b) -> f-string
        f = node.func
        if isinstance(f, ast.Attribute) and f.attr == "format" and isinstance(f.value, ast.Constant) and isinstance(f.value.value, str) and not node.keywords and not any(isinstance(a, ast.Starred) for a in node.args):
            try:
                fields = list(string.Formatter().parse(f.value.value))
            except ValueError:
                return node
            values = []
            auto = 0
            for lit, name, spec, conv in fields:
                if lit:
                    values.append(ast.Constant(value=lit))
                if name is None:
                    continue
                if spec:
                    return node
                if name == "":
                    idx = auto
                    auto += 1
                elif name.isdigit():
                    idx = int(name)
                else:
                    return node
                if idx >= len(node.args):
                    return node
                values.append(ast.FormattedValue(value=node.args[idx], conversion=ord(conv) if conv else -1, format_spec=None))
            return ast.fix_missing_locations(_loc(ast.JoinedStr(values=values), node))
        return node


def _exits(stmts):
    """the statement list certainly leaves the enclosing block (return/raise/continue/break last)"""
    if not stmts:
        return False
    last = stmts[-1]
    if isinstance(last, (ast.Return, ast.Raise, ast.Continue, ast.Break)):
        return True
    if isinstance(last, ast.If) and last.orelse:
        return _exits(last.body) and _exits(last.orelse)
    if isinstance(last, ast.Try):
        # completes normally only if the body (then the else part) or a handler does
        if last.finalbody and _exits(last.finalbody):
            return True
        return (_exits(last.body) or _exits(last.orelse)) and all(_exits(h.body) for h in last.handlers)
    return False


def _expand_next_search(stmts, fn_names):
    """`v = next((E for T in X if C), D)`  ->  `for T in X: if C: v = E; break` + `else: v = D`   (also `return next(..)`,
    and `next(chain(G1, G2), D)`: the second search in the `else` of the first).  The comprehension variables become
    locals of the function: only when the function does not use those names elsewhere."""
    out = []
    for s in stmts:
        v = getattr(s, "value", None)
        if isinstance(s, (ast.Assign, ast.Return)) and isinstance(v, ast.Call) and isinstance(v.func, ast.Name) and v.func.id == "next" and len(v.args) == 2 and not v.keywords:
            if isinstance(s, ast.Assign) and not (len(s.targets) == 1 and isinstance(s.targets[0], ast.Name)):
                out.append(s)
                continue
            src = v.args[0]
            gens = None
            if isinstance(src, ast.GeneratorExp):
                gens = [src]
            elif isinstance(src, ast.Call) and ast.unparse(src.func).split(".")[-1] == "chain" and src.args and not src.keywords and all(isinstance(a, ast.GeneratorExp) for a in src.args):
                gens = list(src.args)
            if gens and all(len(g.generators) == 1 and not g.generators[0].is_async for g in gens):
                tnames = [x.id for g in gens for x in ast.walk(g.generators[0].target) if isinstance(x, ast.Name)]
                clash = {t for t in tnames if fn_names.get(t, 0) > sum(1 for g in gens for x in ast.walk(g) if isinstance(x, ast.Name) and x.id == t)}
                if clash and not any(isinstance(x, (ast.Lambda, ast.GeneratorExp, ast.ListComp, ast.SetComp, ast.DictComp, ast.NamedExpr)) for g in gens for x in ast.walk(g) if x is not g):
                    # the comprehension variables are renamed apart from the function's own names (a comprehension has its
                    # own scope: any consistent renaming of its variables is the same comprehension)
                    ren = {t: f"{t}__g" for t in clash}
                    while any(fn_names.get(v_, 0) for v_ in ren.values()):
                        ren = {t: v_ + "g" for t, v_ in ren.items()}
                    for g in gens:
                        # the first iterable is evaluated in the enclosing scope: not renamed
                        it0 = g.generators[0].iter
                        for x in ast.walk(g):
                            if isinstance(x, ast.Name) and x.id in ren and not any(x is y for y in ast.walk(it0)):
                                x.id = ren[x.id]
                    clash = set()
                if not clash and not any(isinstance(x, (ast.Lambda, ast.GeneratorExp, ast.ListComp, ast.SetComp, ast.DictComp, ast.NamedExpr)) for g in gens for x in ast.walk(g) if x is not g):
                    def mk(val, at):
                        if isinstance(s, ast.Assign):
                            return _loc(ast.Assign(targets=copy.deepcopy(s.targets), value=val), at)
                        return _loc(ast.Return(value=val), at)

                    tail = [mk(v.args[1], s)]
                    for g in reversed(gens):
                        c = g.generators[0]
                        hit = [mk(g.elt, g)] + ([] if isinstance(s, ast.Return) else [_loc(ast.Break(), g)])
                        body = hit
                        if c.ifs:
                            test = c.ifs[0] if len(c.ifs) == 1 else _loc(ast.BoolOp(op=ast.And(), values=list(c.ifs)), g)
                            body = [_loc(ast.If(test=test, body=hit, orelse=[]), g)]
                        loop = _loc(ast.For(target=c.target, iter=c.iter, body=body, orelse=tail if not isinstance(s, ast.Return) else [], type_comment=None), g)
                        _set_store(loop.target)
                        tail = [loop] if not isinstance(s, ast.Return) else [loop] + tail
                    for x in tail:
                        ast.fix_missing_locations(x)
                    out.extend(tail)
                    continue
        out.append(s)
    return out


def _set_store(t):
    for x in ast.walk(t):
        if isinstance(x, (ast.Name, ast.Tuple, ast.List, ast.Starred)):
            x.ctx = ast.Store()


def _expand_reduce(stmts):
    """`v = reduce(F, X, I)`  ->  `v = I; for _r in X: v = F(v, _r)`   (F a name, attribute, lambda or operator function;
    `return reduce(..)` through a temporary)"""
    out = []
    for s in stmts:
        v = getattr(s, "value", None)
        if isinstance(s, (ast.Assign, ast.Return)) and isinstance(v, ast.Call) and ast.unparse(v.func) in ("reduce", "functools.reduce") and len(v.args) == 3 and not v.keywords and isinstance(v.args[0], (ast.Name, ast.Attribute, ast.Lambda)):
            if isinstance(s, ast.Assign) and not (len(s.targets) == 1 and isinstance(s.targets[0], ast.Name)):
                out.append(s)
                continue
            acc = s.targets[0].id if isinstance(s, ast.Assign) else "reduce__acc"
            if any(isinstance(x, ast.Name) and x.id == acc for a in v.args for x in ast.walk(a)):
                out.append(s)
                continue
            init = _loc(ast.Assign(targets=[_loc(ast.Name(id=acc, ctx=ast.Store()), s)], value=v.args[2]), s)
            step = ExprCanon().visit(_loc(ast.Call(func=v.args[0], args=[_loc(ast.Name(id=acc, ctx=ast.Load()), s), _loc(ast.Name(id="_r", ctx=ast.Load()), s)], keywords=[]), s))
            loop = _loc(ast.For(target=_loc(ast.Name(id="_r", ctx=ast.Store()), s), iter=v.args[1], body=[_loc(ast.Assign(targets=[_loc(ast.Name(id=acc, ctx=ast.Store()), s)], value=step), s)], orelse=[], type_comment=None), s)
            new = [init, loop] + ([_loc(ast.Return(value=_loc(ast.Name(id=acc, ctx=ast.Load()), s)), s)] if isinstance(s, ast.Return) else [])
            for x in new:
                ast.fix_missing_locations(x)
            out.extend(new)
            continue
        out.append(s)
    return out


def _loop_over_filter(s):
    """`for T in (V for V in X if C): S`  ->  `for T in X: if C[V := T]: S`   (V[i] becomes the i-th name of a tuple target)"""
    it = s.iter
    if not (isinstance(it, ast.GeneratorExp) and len(it.generators) == 1 and not it.generators[0].is_async and isinstance(it.generators[0].target, ast.Name) and isinstance(it.elt, ast.Name) and it.elt.id == it.generators[0].target.id and it.generators[0].ifs and not s.orelse):
        return s
    g = it.generators[0]
    V = g.target.id
    T = s.target
    if any(isinstance(x, (ast.Lambda, ast.GeneratorExp, ast.ListComp, ast.SetComp, ast.DictComp, ast.NamedExpr)) for c in g.ifs for x in ast.walk(c)):
        return s

    class R(ast.NodeTransformer):
        ok = True

        def visit_Subscript(self, n):
            if isinstance(n.value, ast.Name) and n.value.id == V and isinstance(n.ctx, ast.Load) and isinstance(T, ast.Tuple) and isinstance(n.slice, ast.Constant) and isinstance(n.slice.value, int) and 0 <= n.slice.value < len(T.elts) and isinstance(T.elts[n.slice.value], ast.Name):
                return _loc(ast.Name(id=T.elts[n.slice.value].id, ctx=ast.Load()), n)
            self.generic_visit(n)
            return n

        def visit_Name(self, n):
            if n.id == V and isinstance(n.ctx, ast.Load):
                if isinstance(T, ast.Name):
                    return _loc(ast.Name(id=T.id, ctx=ast.Load()), n)
                R.ok = False
            return n

    R.ok = True
    conds = [R().visit(copy.deepcopy(c)) for c in g.ifs]
    if not R.ok:
        return s
    test = conds[0] if len(conds) == 1 else _loc(ast.BoolOp(op=ast.And(), values=conds), s)
    new = _loc(ast.For(target=s.target, iter=g.iter, body=[_loc(ast.If(test=test, body=s.body, orelse=[]), s)], orelse=[], type_comment=None), s)
    ast.fix_missing_locations(new)
    return new


def _zip_with_map(it):
    """zip(X, (f(m) for m in X)) with X a plain name  ==  ((m, f(m)) for m in X)"""
    if isinstance(it, ast.Call) and isinstance(it.func, ast.Name) and it.func.id == "zip" and len(it.args) == 2 and not it.keywords and isinstance(it.args[0], ast.Name):
        g = it.args[1]
        if isinstance(g, ast.GeneratorExp) and len(g.generators) == 1 and not g.generators[0].ifs and not g.generators[0].is_async and isinstance(g.generators[0].target, ast.Name) and isinstance(g.generators[0].iter, ast.Name) and g.generators[0].iter.id == it.args[0].id:
            v = g.generators[0].target
            pair = _loc(ast.Tuple(elts=[_loc(ast.Name(id=v.id, ctx=ast.Load()), it), g.elt], ctx=ast.Load()), it)
            new = _loc(ast.GeneratorExp(elt=pair, generators=[ast.comprehension(target=v, iter=it.args[0], ifs=[], is_async=0)]), it)
            ast.fix_missing_locations(new)
            return new
    return it


def _loop_over_genexp(s):
    """`for T in (E for V in X): S`  ==  `for V in X: T = E; S`, and the same under enumerate (no filter: the count is the
    position in X).  V must not be a name the loop body or target already uses."""
    if s.orelse and False:
        return s
    it = s.iter
    enum = False
    tgt = s.target
    if isinstance(it, ast.Call) and isinstance(it.func, ast.Name) and it.func.id == "enumerate" and len(it.args) == 1 and not it.keywords and isinstance(tgt, ast.Tuple) and len(tgt.elts) == 2:
        enum = True
        it = it.args[0]
        tgt = s.target.elts[1]
    it = _zip_with_map(it)
    if not (isinstance(it, ast.GeneratorExp) and len(it.generators) == 1 and not it.generators[0].is_async and not it.generators[0].ifs):
        return s
    g = it.generators[0]
    if isinstance(it.elt, ast.Name) and isinstance(g.target, ast.Name) and it.elt.id == g.target.id:
        return s  # handled (or trivially the same) elsewhere
    if any(isinstance(x, (ast.Lambda, ast.GeneratorExp, ast.ListComp, ast.SetComp, ast.DictComp, ast.NamedExpr, ast.Yield, ast.YieldFrom, ast.Await)) for x in ast.walk(it.elt)):
        inner_ok = all(not isinstance(x, (ast.Lambda, ast.NamedExpr, ast.Yield, ast.YieldFrom, ast.Await)) for x in ast.walk(it.elt))
        if not inner_ok:
            return s
    vnames = {n.id for n in ast.walk(g.target) if isinstance(n, ast.Name)}
    used = {n.id for st in s.body + s.orelse for n in ast.walk(st) if isinstance(n, ast.Name)} | {n.id for n in ast.walk(s.target) if isinstance(n, ast.Name)}
    if vnames & used:
        return s
    vt = copy.deepcopy(g.target)
    for n in ast.walk(vt):
        if isinstance(n, (ast.Name, ast.Tuple, ast.List)):
            n.ctx = ast.Store()
    bind = _loc(ast.Assign(targets=[tgt], value=it.elt), s)
    new_target = _loc(ast.Tuple(elts=[s.target.elts[0], vt], ctx=ast.Store()), s) if enum else vt
    new_iter = _loc(ast.Call(func=_loc(ast.Name(id="enumerate", ctx=ast.Load()), s), args=[g.iter], keywords=[]), s) if enum else g.iter
    new = _loc(ast.For(target=new_target, iter=new_iter, body=[bind] + list(s.body), orelse=list(s.orelse), type_comment=None), s)
    ast.fix_missing_locations(new)
    return new


def _exitstack_rollback(s):
    """the try/except-BaseException form of an ExitStack that is armed with callbacks first, disarmed with pop_all() last and not
    otherwise touched; None when the statement is not of that form"""
    if len(s.items) != 1 or not isinstance(s.items[0].optional_vars, ast.Name):
        return None
    ce = s.items[0].context_expr
    if not (isinstance(ce, ast.Call) and ast.unparse(ce.func) in ("ExitStack", "contextlib.ExitStack") and not ce.args and not ce.keywords):
        return None
    es = s.items[0].optional_vars.id

    def es_call(st, attr):
        return isinstance(st, ast.Expr) and isinstance(st.value, ast.Call) and isinstance(st.value.func, ast.Attribute) and st.value.func.attr == attr and isinstance(st.value.func.value, ast.Name) and st.value.func.value.id == es

    body = list(s.body)
    if len(body) < 3 or not es_call(body[-1], "pop_all") or body[-1].value.args or body[-1].value.keywords:
        return None
    k = 0
    while k < len(body) and es_call(body[k], "callback"):
        k += 1
    if k == 0:
        return None
    callbacks, mid = body[:k], body[k:-1]
    if not mid:
        return None
    stored = set()
    for st in mid:
        for n in ast.walk(st):
            if isinstance(n, ast.Name) and n.id == es:
                return None
            if isinstance(n, ast.Name) and isinstance(n.ctx, ast.Store):
                stored.add(n.id)
            if isinstance(n, (ast.Return, ast.Break, ast.Continue, ast.Yield, ast.YieldFrom, ast.Await)):
                return None
    undo = []
    for cb in reversed(callbacks):                       # callbacks run last-in first-out
        c = cb.value
        if not c.args or c.keywords and any(kw.arg is None for kw in c.keywords):
            return None
        for a in list(c.args) + [kw.value for kw in c.keywords]:
            if isinstance(a, ast.Starred):
                return None
            for n in ast.walk(a):
                if isinstance(n, ast.Call) or isinstance(n, ast.Name) and n.id in stored:
                    return None
        undo.append(_loc(ast.Expr(value=_loc(ast.Call(func=c.args[0], args=list(c.args[1:]), keywords=list(c.keywords)), cb)), cb))
    handler = _loc(ast.ExceptHandler(type=_loc(ast.Name(id="BaseException", ctx=ast.Load()), s), name=None, body=undo + [_loc(ast.Raise(exc=None, cause=None), s)]), s)
    return _loc(ast.Try(body=mid, handlers=[handler], orelse=[], finalbody=[]), s)


def _try_lookup_to_membership(s):
    """`try: return TABLE[k]  except KeyError: pass`  ==  `if k in TABLE: return TABLE[k]`   (TABLE a module-level table
    by its ALL_CAPS name, k a plain name: the subscript is the only thing in the try that can raise KeyError)"""
    if s.finalbody or len(s.handlers) != 1 or len(s.body) != 1:
        return s
    h = s.handlers[0]
    r = s.body[0]
    # `try: v = TABLE[k]  except KeyError: <leave>`  ==  `if k not in TABLE: <leave>` then `v = TABLE[k]`
    if isinstance(h.type, ast.Name) and h.type.id == "KeyError" and h.name is None and not s.orelse and _exits(h.body) and not any(isinstance(n, ast.Raise) and n.exc is None for st in h.body for n in ast.walk(st)) and isinstance(r, ast.Assign) and len(r.targets) == 1 and isinstance(r.targets[0], ast.Name) and isinstance(r.value, ast.Subscript) and isinstance(r.value.slice, ast.Name) and isinstance(r.value.value, ast.Dict) and all(isinstance(k, ast.Constant) for k in r.value.value.keys):
        test = _loc(ast.Compare(left=_loc(ast.Name(id=r.value.slice.id, ctx=ast.Load()), s), ops=[ast.NotIn()], comparators=[copy.deepcopy(r.value.value)]), s)
        guard = _loc(ast.If(test=test, body=list(h.body), orelse=[]), s)
        shell = _loc(ast.If(test=_loc(ast.Constant(value=True), s), body=[guard, r], orelse=[]), s)
        ast.fix_missing_locations(shell)
        return canon_stmt(shell)
    if not (isinstance(h.type, ast.Name) and h.type.id == "KeyError" and h.name is None and len(h.body) == 1 and isinstance(h.body[0], ast.Pass)):
        return s
    # `try: v = TABLE[k]  except KeyError: pass  else: A`  ==  `if k in TABLE: v = TABLE[k]; A`
    if isinstance(r, ast.Assign) and len(r.targets) == 1 and isinstance(r.targets[0], ast.Name) and isinstance(r.value, ast.Subscript) and isinstance(r.value.slice, ast.Name) and (isinstance(r.value.value, ast.Name) and r.value.value.id.isupper() or isinstance(r.value.value, ast.Dict) and all(isinstance(k, ast.Constant) for k in r.value.value.keys)):
        test = _loc(ast.Compare(left=_loc(ast.Name(id=r.value.slice.id, ctx=ast.Load()), s), ops=[ast.In()], comparators=[copy.deepcopy(r.value.value)]), s)
        new = _loc(ast.If(test=test, body=[r] + list(s.orelse), orelse=[]), s)
        ast.fix_missing_locations(new)
        return canon_stmt(new)
    if s.orelse:
        return s
    if not (isinstance(r, ast.Return) and isinstance(r.value, ast.Subscript) and isinstance(r.value.value, ast.Name) and r.value.value.id.isupper() and isinstance(r.value.slice, ast.Name)):
        return s
    test = _loc(ast.Compare(left=_loc(ast.Name(id=r.value.slice.id, ctx=ast.Load()), s), ops=[ast.In()], comparators=[_loc(ast.Name(id=r.value.value.id, ctx=ast.Load()), s)]), s)
    new = _loc(ast.If(test=test, body=[r], orelse=[]), s)
    ast.fix_missing_locations(new)
    return new


def _thread_try_sentinel(stmts):
    """`try: v = E  except X: v = S` + `if v is S: A else: B`  (S a private sentinel, v not read in A)  ==
    `try: v = E  except X: A  else: B`: the handler is the only place v can have become S"""
    S_ = _SENTINELS[-1] if _SENTINELS else set()
    if not S_:
        return stmts
    out = list(stmts)
    i = 0
    while i + 1 < len(out):
        a, b = out[i], out[i + 1]
        if isinstance(a, ast.Try) and not a.orelse and not a.finalbody and len(a.handlers) == 1 and len(a.body) == 1 and isinstance(a.body[0], ast.Assign) and len(a.body[0].targets) == 1 and isinstance(a.body[0].targets[0], ast.Name) and isinstance(b, ast.If):
            v = a.body[0].targets[0].id
            h = a.handlers[0]
            t = b.test
            if len(h.body) == 1 and isinstance(h.body[0], ast.Assign) and len(h.body[0].targets) == 1 and isinstance(h.body[0].targets[0], ast.Name) and h.body[0].targets[0].id == v and isinstance(h.body[0].value, ast.Name) and h.body[0].value.id in S_ and isinstance(t, ast.Compare) and len(t.ops) == 1 and isinstance(t.ops[0], (ast.Is, ast.IsNot)) and isinstance(t.left, ast.Name) and t.left.id == v and isinstance(t.comparators[0], ast.Name) and t.comparators[0].id == h.body[0].value.id and not _not_a_sentinel_value(a.body[0].value, S_):
                hit, miss = (b.body, b.orelse) if isinstance(t.ops[0], ast.Is) else (b.orelse, b.body)
                if not any(isinstance(n, ast.Name) and n.id == v and isinstance(n.ctx, ast.Load) for st in hit for n in ast.walk(st)):
                    h.body = list(hit) or [_loc(ast.Pass(), h)]
                    a.orelse = list(miss)
                    out[i:i + 2] = [canon_stmt(a)]
                    continue
        i += 1
    return out


def _not_a_sentinel_value(e, sentinels):
    """the expression could itself be one of the sentinels (a plain name that is one)"""
    return isinstance(e, ast.Name) and e.id in sentinels


def _split_chained_assigns(stmts):
    """`n = self.a = E` (one target a plain name that the other targets do not mention)  ==  `n = E; self.a = n`:
    binding a local first cannot be observed by the stores that follow"""
    out = []
    for st in stmts:
        if isinstance(st, ast.Assign) and len(st.targets) > 1 and not (len(st.targets) == 2 and any(isinstance(t, ast.Attribute) and isinstance(t.value, ast.Name) and t.value.id == "self" for t in st.targets)):
            # (a local chained with a field of self is the mirror idiom: kept as it is, sa/shapes.py and the rules read it)
            names = [t for t in st.targets if isinstance(t, ast.Name)]
            pick = None
            for t in names:
                others = [o for o in st.targets if o is not t]
                if not any(isinstance(n, ast.Name) and n.id == t.id for o in others for n in ast.walk(o)) and not any(isinstance(n, ast.Name) and n.id == t.id for n in ast.walk(st.value)):
                    pick = t
                    break
            if pick is not None:
                out.append(_loc(ast.Assign(targets=[pick], value=st.value), st))
                for o in st.targets:
                    if o is not pick:
                        out.append(_loc(ast.Assign(targets=[o], value=_loc(ast.Name(id=pick.id, ctx=ast.Load()), st)), st))
                for x in out[-len(st.targets):]:
                    ast.fix_missing_locations(x)
                continue
        out.append(st)
    return out


def _split_dict_merge(stmts):
    """`v = <fresh dict> | {k1: e1, ..}` (constant keys)  ->  `v = <fresh dict>; v[k1] = e1; ..`  (the dict on the left is a
    comprehension, a display or `dict(..)`: nobody else holds it, updating it in place is the merge)"""
    out = []
    for s in stmts:
        v = getattr(s, "value", None)
        if isinstance(s, ast.Assign) and len(s.targets) == 1 and isinstance(s.targets[0], ast.Name) and isinstance(v, ast.BinOp) and isinstance(v.op, ast.BitOr) and isinstance(v.right, ast.Dict) and v.right.keys and all(k is not None and isinstance(k, ast.Constant) for k in v.right.keys) and (isinstance(v.left, (ast.DictComp, ast.Dict)) or (isinstance(v.left, ast.Call) and isinstance(v.left.func, ast.Name) and v.left.func.id == "dict")):
            name = s.targets[0].id
            if not any(isinstance(n, ast.Name) and n.id == name for e in v.right.values for n in ast.walk(e)):
                out.append(_loc(ast.Assign(targets=s.targets, value=v.left), s))
                for k, e in zip(v.right.keys, v.right.values):
                    out.append(_loc(ast.Assign(targets=[_loc(ast.Subscript(value=_loc(ast.Name(id=name, ctx=ast.Load()), s), slice=k, ctx=ast.Store()), s)], value=e), s))
                continue
        out.append(s)
    return out


def _fold_dict_stores(stmts):
    """`X = {..}` directly followed by `X[<const>] = v` (v not mentioning X)  ->  the key joins the display"""
    out = []
    for s in stmts:
        prev = out[-1] if out else None
        if (
            prev is not None
            and isinstance(prev, ast.Assign)
            and len(prev.targets) == 1
            and isinstance(prev.targets[0], ast.Name)
            and isinstance(prev.value, ast.Dict)
            and all(k is not None and isinstance(k, ast.Constant) for k in prev.value.keys)
            and isinstance(s, ast.Assign)
            and len(s.targets) == 1
            and isinstance(s.targets[0], ast.Subscript)
            and isinstance(s.targets[0].value, ast.Name)
            and s.targets[0].value.id == prev.targets[0].id
            and isinstance(s.targets[0].slice, ast.Constant)
            and s.targets[0].slice.value not in [k.value for k in prev.value.keys]
            and not any(isinstance(n, ast.Name) and n.id == prev.targets[0].id for n in ast.walk(s.value))
            and not any(isinstance(n, (ast.Call, ast.Yield, ast.YieldFrom, ast.Await, ast.NamedExpr)) for v in list(prev.value.values) + [s.value] for n in ast.walk(v))
        ):
            prev.value.keys.append(s.targets[0].slice)
            prev.value.values.append(s.value)
            continue
        out.append(s)
    return out


_CLOSURE_NAMES = []  # per enclosing function being canonicalised: names read by its nested functions / lambdas
_SENTINELS = [set()]  # per module being canonicalised: names of private sentinel objects (see module_sentinels)


def module_sentinels(tree):
    """module-level names bound once to `object()` and otherwise only read as the right-hand side of a plain
    assignment to a name, as a returned value, or as an operand of `is` / `is not`: no value that was not assigned
    from such a name can be identical to it (it is never stored in a container or attribute, nor passed to a call)"""
    cands = {}
    for st in tree.body:
        if isinstance(st, ast.Assign) and len(st.targets) == 1 and isinstance(st.targets[0], ast.Name) and isinstance(st.value, ast.Call) and isinstance(st.value.func, ast.Name) and st.value.func.id == "object" and not st.value.args and not st.value.keywords:
            cands[st.targets[0].id] = st
    if not cands:
        return set()
    pm = {}
    for n in ast.walk(tree):
        for c in ast.iter_child_nodes(n):
            pm[id(c)] = n
    bad = set()
    for n in ast.walk(tree):
        if isinstance(n, ast.Name) and n.id in cands:
            if isinstance(n.ctx, (ast.Store, ast.Del)):
                if n is not cands[n.id].targets[0]:
                    bad.add(n.id)
                continue
            par = pm.get(id(n))
            if isinstance(par, ast.Assign) and par.value is n and len(par.targets) == 1 and isinstance(par.targets[0], ast.Name):
                continue
            if isinstance(par, ast.Return):
                continue
            if isinstance(par, ast.Compare) and len(par.ops) == 1 and isinstance(par.ops[0], (ast.Is, ast.IsNot)):
                continue
            bad.add(n.id)
        elif isinstance(n, ast.alias) and n.name in cands:
            bad.add(n.name)
    exported = False
    return {k for k in cands if k not in bad and k.startswith("_")}


def _not_a_sentinel(e):
    """an expression whose value cannot be one of the module's sentinels: anything that is not such a name itself,
    a name (it could have been assigned one) or a call (a function of the module may return one)"""
    if isinstance(e, ast.Constant):
        return True
    if isinstance(e, (ast.Attribute, ast.Subscript, ast.BinOp, ast.Tuple, ast.List, ast.Dict, ast.Set, ast.JoinedStr, ast.ListComp, ast.DictComp, ast.SetComp, ast.GeneratorExp, ast.Compare, ast.BoolOp, ast.UnaryOp)):
        return not (isinstance(e, ast.BoolOp))
    return False


def _split_tuple_assigns(stmts):
    """`a, b = (x, y)` with plain names on the left that do not occur on the right -> `a = x`, `b = y`"""
    out = []
    for s in stmts:
        if isinstance(s, ast.Assign) and len(s.targets) == 1 and isinstance(s.targets[0], ast.Tuple) and isinstance(s.value, ast.Tuple) and len(s.targets[0].elts) == len(s.value.elts) and all(isinstance(t, ast.Name) for t in s.targets[0].elts) and not any(isinstance(v, ast.Starred) for v in s.value.elts):
            # components `x = x` change nothing
            pairs = [(t, v) for t, v in zip(s.targets[0].elts, s.value.elts) if not (isinstance(v, ast.Name) and v.id == t.id)]
            tnames = {t.id for t, _ in pairs}
            # a call in a later component runs after the earlier targets are bound: visible only to a closure
            # that reads one of them
            later_calls = any(isinstance(n, (ast.Call, ast.Yield, ast.YieldFrom, ast.Await)) for _, v in pairs[1:] for n in ast.walk(v))
            captured = bool(_CLOSURE_NAMES and (tnames & _CLOSURE_NAMES[-1])) or not _CLOSURE_NAMES
            if len(tnames) == len(pairs) and len({t.id for t in s.targets[0].elts}) == len(s.targets[0].elts) and not any(isinstance(n, ast.Name) and n.id in tnames for _, v in pairs for n in ast.walk(v)) and not (later_calls and (captured or any(isinstance(n, (ast.Yield, ast.YieldFrom, ast.Await)) for _, v in pairs for n in ast.walk(v)))):
                for t, v in pairs:
                    out.append(_loc(ast.Assign(targets=[t], value=v), s))
                if not pairs:
                    out.append(_loc(ast.Pass(), s))
                continue
        # `*_, a = s.split(sep)` is `a = s.split(sep)[-1]`, `a, *_ = s.split(sep)` is `a = s.split(sep)[0]` (a split on an
        # explicit separator has at least one piece: neither form can fail)
        if isinstance(s, ast.Assign) and len(s.targets) == 1 and isinstance(s.targets[0], (ast.Tuple, ast.List)) and len(s.targets[0].elts) == 2 and isinstance(s.value, ast.Call) and isinstance(s.value.func, ast.Attribute) and s.value.func.attr in ("split", "rsplit") and s.value.args and not s.value.keywords:
            e0, e1 = s.targets[0].elts
            star, keep, idx = (e0, e1, -1) if isinstance(e0, ast.Starred) else ((e1, e0, 0) if isinstance(e1, ast.Starred) else (None, None, None))
            if star is not None and isinstance(star.value, ast.Name) and star.value.id.startswith("_") and isinstance(keep, ast.Name) and len(s.value.args) == 1:
                ix = _loc(ast.Constant(value=0), s) if idx == 0 else _loc(ast.UnaryOp(op=ast.USub(), operand=_loc(ast.Constant(value=1), s)), s)
                out.append(_loc(ast.Assign(targets=[keep], value=_loc(ast.Subscript(value=s.value, slice=ix, ctx=ast.Load()), s)), s))
                ast.fix_missing_locations(out[-1])
                continue
        # the same with fields of an object among the targets and only names / constants / plain attributes on the right:
        # nothing is evaluated on the right, the stores happen in the same order
        if isinstance(s, ast.Assign) and len(s.targets) == 1 and isinstance(s.targets[0], ast.Tuple) and isinstance(s.value, ast.Tuple) and len(s.targets[0].elts) == len(s.value.elts) and any(isinstance(t, ast.Attribute) for t in s.targets[0].elts):
            def _plain(e):
                return isinstance(e, (ast.Name, ast.Constant)) or isinstance(e, ast.Attribute) and isinstance(e.value, ast.Name)
            ts, vs = s.targets[0].elts, s.value.elts
            if all(isinstance(t, ast.Name) or (isinstance(t, ast.Attribute) and isinstance(t.value, ast.Name)) for t in ts) and all(_plain(v) for v in vs):
                pairs = [(t, v) for t, v in zip(ts, vs) if ast.unparse(t) != ast.unparse(v)]
                ttexts = [ast.unparse(t) for t, _ in pairs]
                tbases = {t.id for t, _ in pairs if isinstance(t, ast.Name)}
                vtexts = {ast.unparse(v) for _, v in pairs} | {v.value.id for _, v in pairs if isinstance(v, ast.Attribute)} 
                if len(set(ttexts)) == len(ttexts) and not (set(ttexts) & vtexts) and not (tbases & vtexts):
                    for t, v in pairs:
                        out.append(_loc(ast.Assign(targets=[t], value=v), s))
                    if not pairs:
                        out.append(_loc(ast.Pass(), s))
                    continue
        # `(v,) = unpack(<one-item format>, X)` -> `v = unpack(<fmt>, X)[0]`  (the result has exactly one item)
        if isinstance(s, ast.Assign) and len(s.targets) == 1 and isinstance(s.targets[0], (ast.Tuple, ast.List)) and len(s.targets[0].elts) == 1 and isinstance(s.targets[0].elts[0], ast.Name) and _one_item_unpack(s.value):
            out.append(_loc(ast.Assign(targets=[s.targets[0].elts[0]], value=_loc(ast.Subscript(value=s.value, slice=_loc(ast.Constant(value=0), s), ctx=ast.Load()), s)), s))
            continue
        out.append(s)
    return out


def _one_item_unpack(e):
    if not (isinstance(e, ast.Call) and isinstance(e.func, ast.Name) and e.func.id == "unpack" and len(e.args) == 2 and not e.keywords):
        return False
    f = e.args[0]
    if not (isinstance(f, ast.Constant) and isinstance(f.value, str)):
        return False
    body = f.value.lstrip("@=<>!")
    return len(body) == 1 and body.isalpha() and body not in "xsp"


def _strip_annotations(stmts):
    """`x: T = v` -> `x = v`; a bare `x: T` is dropped (annotations of locals have no run-time effect)"""
    out = []
    for s in stmts:
        if isinstance(s, ast.AnnAssign) and isinstance(s.target, ast.Name):
            if s.value is None:
                continue
            out.append(_loc(ast.Assign(targets=[s.target], value=s.value), s))
        elif isinstance(s, ast.AnnAssign) and isinstance(s.target, (ast.Attribute, ast.Subscript)) and s.value is not None:
            # `self.x: T = v` is `self.x = v` (the annotation of an attribute target is not even evaluated ... stored)
            out.append(_loc(ast.Assign(targets=[s.target], value=s.value), s))
        else:
            out.append(s)
    return out or ([_loc(ast.Pass(), stmts[0])] if stmts else [])


def _leading_walrus(e):
    """the `(x := E)` of a test that is evaluated before anything with an effect and unconditionally: (node, parent,
    field, index) or None"""
    def pure(n):
        return not any(isinstance(x, (ast.Call, ast.NamedExpr, ast.Yield, ast.YieldFrom, ast.Await, ast.Subscript, ast.BinOp, ast.Compare)) for x in ast.walk(n))

    def go(n):
        # children in evaluation order, only those evaluated unconditionally
        if isinstance(n, ast.NamedExpr):
            return n if isinstance(n.target, ast.Name) else None
        if isinstance(n, ast.BoolOp):
            kids = [n.values[0]]
        elif isinstance(n, ast.Compare):
            kids = [n.left, n.comparators[0]]
        elif isinstance(n, ast.Call):
            kids = [n.func] + list(n.args) + [k.value for k in n.keywords]
        elif isinstance(n, ast.BinOp):
            kids = [n.left, n.right]
        elif isinstance(n, ast.UnaryOp):
            kids = [n.operand]
        elif isinstance(n, ast.Subscript):
            kids = [n.value, n.slice]
        elif isinstance(n, ast.Attribute):
            kids = [n.value]
        elif isinstance(n, ast.Starred):
            kids = [n.value]
        else:
            return None
        for k in kids:
            if any(isinstance(x, ast.NamedExpr) for x in ast.walk(k)):
                return go(k)
            if not pure(k):
                return None
        return None

    return go(e)


def _expand_walrus(stmts):
    """`if (x := E): S` -> `x = E; if x: S`;  `if A and (x := E) and B: S` (no else) -> `if A: x = E; if x and B: S`"""
    out = []
    for s in stmts:
        if isinstance(s, ast.If) and sum(1 for n in ast.walk(s.test) if isinstance(n, ast.NamedExpr)) == 1:
            w = _leading_walrus(s.test)
            if w is not None and not (isinstance(s.test, ast.NamedExpr)) and not (isinstance(s.test, ast.BoolOp) and any(x is w for x in s.test.values)):
                # evaluated first and unconditionally: `x = E` in front of the statement, the name in its place
                asg = _loc(ast.Assign(targets=[_loc(ast.Name(id=w.target.id, ctx=ast.Store()), w)], value=w.value), w)

                class R(ast.NodeTransformer):
                    def visit_NamedExpr(self, n):
                        if n is w:
                            return _loc(ast.Name(id=w.target.id, ctx=ast.Load()), w)
                        return n

                s.test = R().visit(s.test)
                out.extend([asg, s])
                continue
        if isinstance(s, ast.If):
            t = s.test
            conj = list(t.values) if isinstance(t, ast.BoolOp) and isinstance(t.op, ast.And) else [t]
            idx = [i for i, c in enumerate(conj) if isinstance(c, ast.NamedExpr) and isinstance(c.target, ast.Name)]
            # the first walrus conjunct, nothing with a walrus in front of it: later ones are expanded in the inner `if`
            before_first = sum(1 for c in conj[:idx[0]] for n in ast.walk(c) if isinstance(n, ast.NamedExpr)) if idx else 0
            inner_walrus = sum(1 for n in ast.walk(conj[idx[0]].value) if isinstance(n, ast.NamedExpr)) if idx else 0
            if idx and before_first == 0 and inner_walrus == 0 and (idx[0] == 0 and (len(idx) == 1 or not s.orelse) or not s.orelse):
                i = idx[0]
                w = conj[i]
                asg = _loc(ast.Assign(targets=[_loc(ast.Name(id=w.target.id, ctx=ast.Store()), w)], value=w.value), w)
                rest = [_loc(ast.Name(id=w.target.id, ctx=ast.Load()), w)] + conj[i + 1:]
                inner_test = rest[0] if len(rest) == 1 else _loc(ast.BoolOp(op=ast.And(), values=rest), t)
                inner = _loc(ast.If(test=inner_test, body=s.body, orelse=s.orelse), s)
                if any(isinstance(n, ast.NamedExpr) for n in ast.walk(inner_test)):
                    inner_l = _expand_walrus([inner])
                    inner = inner_l[0] if len(inner_l) == 1 else _loc(ast.If(test=_loc(ast.Constant(value=True), s), body=inner_l, orelse=[]), s)
                if i == 0:
                    out.extend([asg, inner])
                else:
                    pre = conj[:i]
                    outer_test = pre[0] if len(pre) == 1 else _loc(ast.BoolOp(op=ast.And(), values=pre), t)
                    out.append(_loc(ast.If(test=outer_test, body=[asg, inner], orelse=[]), s))
                continue
        out.append(s)
    return out


def _expand_ifexp(stmts):
    """`x = A if c else B` -> `if c: x = A else: x = B`; likewise `return A if c else B`"""
    out = []
    for s in stmts:
        v = getattr(s, "value", None)
        if isinstance(s, (ast.Assign, ast.Return)) and isinstance(v, ast.IfExp) and not any(isinstance(n, (ast.NamedExpr, ast.Yield, ast.YieldFrom, ast.Await)) for n in ast.walk(v.test)):
            if isinstance(s, ast.Assign):
                mk = lambda val, s=s: _loc(ast.Assign(targets=copy.deepcopy(s.targets), value=val), s)
            else:
                mk = lambda val, s=s: _loc(ast.Return(value=val), s)
            new = _loc(ast.If(test=v.test, body=_expand_ifexp([mk(v.body)]), orelse=_expand_ifexp([mk(v.orelse)])), s)
            out.append(canon_stmt(ast.fix_missing_locations(new)))
            continue
        out.append(s)
    return out


def _fold_list_appends(stmts):
    """`X = [..]` directly followed by `X.append(e)` (e not mentioning X)  ->  e joins the display"""
    out = []
    for s in stmts:
        prev = out[-1] if out else None
        if (
            prev is not None
            and isinstance(prev, ast.Assign)
            and len(prev.targets) == 1
            and isinstance(prev.targets[0], ast.Name)
            and isinstance(prev.value, ast.List)
            and not any(isinstance(x, ast.Starred) for x in prev.value.elts)
            and isinstance(s, ast.Expr)
            and isinstance(s.value, ast.Call)
            and isinstance(s.value.func, ast.Attribute)
            and s.value.func.attr == "append"
            and isinstance(s.value.func.value, ast.Name)
            and s.value.func.value.id == prev.targets[0].id
            and len(s.value.args) == 1
            and not s.value.keywords
            and not _mentions(s.value.args[0], prev.targets[0].id)
        ):
            prev.value.elts.append(s.value.args[0])
            continue
        out.append(s)
    return out


def _simple_test(t):
    for n in ast.walk(t):
        if isinstance(n, ast.Call):
            if not (isinstance(n.func, ast.Name) and n.func.id in ("isinstance", "len") and not n.keywords):
                return False
        elif not isinstance(n, (ast.Name, ast.Constant, ast.Compare, ast.BoolOp, ast.UnaryOp, ast.Attribute, ast.Subscript, ast.cmpop, ast.boolop, ast.unaryop, ast.expr_context, ast.Tuple)):
            return False
    return True


def _merge_arms(s):
    """`if c: S[e1] else: S[e2]` (one statement each, equal but for one sub-expression)  ->  S[e1 if c else e2]"""
    if not (len(s.body) == 1 and len(s.orelse) == 1 and type(s.body[0]) is type(s.orelse[0]) and isinstance(s.body[0], (ast.Expr, ast.Assign, ast.Return)) and _simple_test(s.test)):
        return s
    b, o = s.body[0], s.orelse[0]
    if _dump(b) == _dump(o):
        return s
    hole = _single_difference(b, o)
    if hole is None:
        return s
    parent, field, idx, e1, e2 = hole
    if parent is b:
        return s  # the whole value differs: a genuine two-way statement, kept
    if not (isinstance(e1, ast.expr) and isinstance(e2, ast.expr)) or isinstance(getattr(e1, "ctx", None), (ast.Store, ast.Del)):
        return s
    ife = ExprCanon().visit_IfExp(_loc(ast.IfExp(test=s.test, body=e1, orelse=e2), e1))
    if idx is None:
        setattr(parent, field, ife)
    else:
        getattr(parent, field)[idx] = ife
    return ast.fix_missing_locations(_loc(b, s))


def _single_difference(a, b):
    """(parent in a, field, index, sub-expression of a, sub-expression of b) when the trees differ in exactly one
    expression position; None otherwise"""
    if type(a) is not type(b):
        return None
    diffs = []
    for f in a._fields:
        if f in ("ctx",):
            continue
        x, y = getattr(a, f, None), getattr(b, f, None)
        if isinstance(x, list) and isinstance(y, list):
            if len(x) != len(y):
                return None
            for i, (p, q) in enumerate(zip(x, y)):
                if isinstance(p, ast.AST) and isinstance(q, ast.AST):
                    if _dump(p) != _dump(q):
                        diffs.append((f, i, p, q))
                elif p != q:
                    return None
        elif isinstance(x, ast.AST) and isinstance(y, ast.AST):
            if _dump(x) != _dump(y):
                diffs.append((f, None, x, y))
        elif x != y:
            return None
    if len(diffs) != 1:
        return None
    f, i, p, q = diffs[0]
    # prefer the outermost expression position that still differs in one place below a non-expression
    if isinstance(p, ast.expr) and isinstance(q, ast.expr):
        deeper = _single_difference(p, q) if type(p) is type(q) and isinstance(p, (ast.Call, ast.Attribute, ast.Subscript, ast.BinOp, ast.Tuple, ast.List, ast.keyword, ast.Starred)) else None
        if deeper is not None and isinstance(p, ast.Call) and deeper[1] in ("args", "keywords"):
            return deeper
        if deeper is not None and not isinstance(p, ast.Call):
            return deeper
        return (a, f, i, p, q)
    return _single_difference(p, q)


def _mentions(node, name):
    return any(isinstance(n, ast.Name) and n.id == name for n in ast.walk(node))


def _as_bool(e):
    """an expression with the truth value of e that is a bool: e itself when boolean-typed, else bool(e)"""
    if _boolean_typed(e):
        return e
    if isinstance(e, ast.BoolOp):
        return _loc(ast.BoolOp(op=e.op, values=[_as_bool(v) for v in e.values]), e)
    return _loc(ast.Call(func=_loc(ast.Name(id="bool", ctx=ast.Load()), e), args=[e], keywords=[]), e)


def _pure_lookup(e):
    """names, constants, subscripts / attributes of them and the string methods that only compute a new string: evaluating
    such a row later, or not at all, cannot be told from evaluating it first (a row that raises raises for the first
    row's own sub-expression already)"""
    if isinstance(e, (ast.Name, ast.Constant)):
        return True
    if isinstance(e, ast.Attribute):
        return _pure_lookup(e.value)
    if isinstance(e, ast.Subscript):
        return _pure_lookup(e.value) and _pure_lookup(e.slice)
    if isinstance(e, ast.UnaryOp) and isinstance(e.op, ast.USub):
        return _pure_lookup(e.operand)
    if isinstance(e, ast.Call) and isinstance(e.func, ast.Attribute) and e.func.attr in ("rsplit", "split", "rpartition", "partition", "lower", "upper", "strip", "lstrip", "rstrip", "removeprefix", "removesuffix") and not e.keywords:
        return _pure_lookup(e.func.value) and all(_pure_lookup(a) for a in e.args)
    return False


def _atomic_row(e):
    if isinstance(e, ast.Constant):
        return True
    if isinstance(e, ast.Lambda) or _is_partial(e):
        return True  # a function value: substituted where it is called
    if isinstance(e, ast.Tuple) and e.elts and all(isinstance(x, (ast.Name, ast.Attribute, ast.Constant)) for x in e.elts):
        return True  # a tuple of classes / constants (isinstance(x, (A, B)), membership)
    if isinstance(e, ast.Tuple) and e.elts and all(isinstance(x, (ast.Name, ast.Attribute, ast.Constant)) or (isinstance(x, ast.Tuple) and all(isinstance(y, ast.Constant) for y in x.elts)) for x in e.elts):
        return True  # a row of a table whose columns are constants or tuples of constants (read by position)
    if isinstance(e, ast.Name):
        return True
    if isinstance(e, ast.Attribute):
        return _atomic_row(e.value)
    if isinstance(e, ast.UnaryOp) and isinstance(e.op, ast.USub) and isinstance(e.operand, ast.Constant):
        return True
    return False


class _SubstNames(ast.NodeTransformer):
    def __init__(self, m):
        self.m = m

    def visit_Name(self, n):
        if n.id in self.m and isinstance(n.ctx, ast.Load):
            return copy.deepcopy(self.m[n.id])
        return n


def _unroll_literal_loops(stmts):
    """a `for` over a short literal tuple / list of constants, names or rows of them is its body once per row, the
    loop variables replaced by the row:
        for v in (a, b): S            ->  S[v:=a]; S[v:=b]; <else>
        for v in (a, b): if T: S; break   (+ else: E)   ->  if T[v:=a]: S[v:=a] elif T[v:=b]: S[v:=b] else: E
    Conditions: the loop variables are not stored, deleted or captured in the body and not read after the loop; no
    `continue`; `break` only in the second form."""
    out = []
    for idx, s in enumerate(stmts):
        new = _unroll_one(s, stmts[idx + 1:]) if isinstance(s, ast.For) else None
        if new is None:
            out.append(s)
        else:
            out.extend(new)
    return out


def _unroll_one(s, rest):
    it = s.iter
    if not isinstance(it, (ast.Tuple, ast.List)) or not (1 <= len(it.elts) <= 24):
        return None
    tgt = s.target
    if isinstance(tgt, ast.Name):
        names = [tgt.id]
        rows = [[e] for e in it.elts]
        if not all(_atomic_row(e) for e in it.elts):
            return None
    elif isinstance(tgt, ast.Tuple) and all(isinstance(e, ast.Name) for e in tgt.elts):
        names = [e.id for e in tgt.elts]
        rows = []
        for e in it.elts:
            if not (isinstance(e, (ast.Tuple, ast.List)) and len(e.elts) == len(names) and all(_atomic_row(x) for x in e.elts)):
                return None
            rows.append(list(e.elts))
    else:
        return None
    if len(set(names)) != len(names):
        return None
    inside = [n for st in s.body for n in ast.walk(st)]
    if any(isinstance(n, ast.Name) and n.id in names and isinstance(n.ctx, (ast.Store, ast.Del)) for n in inside):
        return None
    if any(isinstance(n, (ast.FunctionDef, ast.AsyncFunctionDef, ast.Lambda, ast.ClassDef)) for n in inside):
        return None
    # the loop variables are dead afterwards (a later loop that binds them again ends the scan)
    if any(isinstance(n, ast.Name) and n.id in names for st in s.orelse for n in ast.walk(st)):
        return None
    live = set(names)
    for st in rest:
        if not live:
            break
        if isinstance(st, ast.For):
            rebound = {n.id for n in ast.walk(st.target) if isinstance(n, ast.Name)} & live
            if rebound and not any(isinstance(n, ast.Name) and n.id in live for n in ast.walk(st.iter)):
                if any(isinstance(n, ast.Name) and n.id in (live - rebound) for n in ast.walk(st)):
                    return None
                live -= rebound
                continue
        if any(isinstance(n, ast.Name) and n.id in live for n in ast.walk(st)):
            return None
    # names occurring in the rows must not be rebound by the body (a later row would see the new value either way,
    # but the substituted test of an earlier copy must not)
    row_names = {n.id for r in rows for e in r for n in ast.walk(e) if isinstance(n, ast.Name)}
    if any(isinstance(n, ast.Name) and n.id in row_names and isinstance(n.ctx, (ast.Store, ast.Del)) for n in inside):
        return None

    def own(kind):
        """Break / Continue statements belonging to this loop"""
        found = []

        def go(stmts):
            for st in stmts:
                if isinstance(st, kind):
                    found.append(st)
                elif isinstance(st, (ast.For, ast.AsyncFor, ast.While)):
                    go(st.orelse)
                elif isinstance(st, (ast.FunctionDef, ast.AsyncFunctionDef, ast.ClassDef)):
                    continue
                else:
                    for f in ("body", "orelse", "finalbody"):
                        sub = getattr(st, f, None)
                        if isinstance(sub, list) and sub and isinstance(sub[0], ast.stmt):
                            go(sub)
                    for h in getattr(st, "handlers", []) or []:
                        go(h.body)

        go(s.body)
        return found

    if own(ast.Continue):
        return None
    breaks = own(ast.Break)

    def inst(stmts, row):
        m = dict(zip(names, row))
        return [_SubstNames(m).visit(copy.deepcopy(st)) for st in stmts]

    if not breaks:
        out = []
        for row in rows:
            out.extend(inst(s.body, row))
        out.extend(s.orelse)
        out = [_Tests().visit(ExprCanon().visit(ast.fix_missing_locations(st))) for st in out]
        return out or [_loc(ast.Pass(), s)]
    # second form: the body is one `if` that ends with the only break
    if len(breaks) == 1 and len(s.body) == 1 and isinstance(s.body[0], ast.If) and not s.body[0].orelse and s.body[0].body and s.body[0].body[-1] is breaks[0]:
        chain = list(s.orelse)
        for row in reversed(rows):
            t = inst([ast.Expr(value=s.body[0].test)], row)[0].value
            b = inst(s.body[0].body[:-1], row) or [_loc(ast.Pass(), s)]
            chain = [_loc(ast.If(test=t, body=b, orelse=chain), s)]
        chain = [_Tests().visit(ExprCanon().visit(ast.fix_missing_locations(st))) for st in chain]
        return chain
    return None


def _loops_to_comprehensions(stmts):
    """`X = []` / `{}` / `set()` followed (possibly after statements that do not mention X) by a loop whose whole
    body appends to X (optionally under one `if`; for a dict optionally `k = E1; X[k] = E2`)
      ->  X = [e for t in it if c]   placed where the loop was
    (only when neither e nor it mention X, the loop has no else and its variables are not read afterwards)"""
    stmts = list(stmts)
    i = 0
    while i < len(stmts):
        s = stmts[i]
        kind = None
        if isinstance(s, ast.Assign) and len(s.targets) == 1 and isinstance(s.targets[0], ast.Name):
            if isinstance(s.value, ast.List) and not s.value.elts:
                kind = "list"
            elif isinstance(s.value, ast.Dict) and not s.value.keys:
                kind = "dict"
            elif isinstance(s.value, ast.Call) and isinstance(s.value.func, ast.Name) and s.value.func.id == "set" and not s.value.args and not s.value.keywords:
                kind = "set"
        if kind is None:
            i += 1
            continue
        X = s.targets[0].id
        j = i + 1
        while j < len(stmts) and not _mentions(stmts[j], X):
            j += 1
        nxt = stmts[j] if j < len(stmts) else None
        new = None
        if isinstance(nxt, ast.For) and not nxt.orelse and len(nxt.body) in (1, 2) and not any(isinstance(x, (ast.For, ast.While, ast.With, ast.Try, ast.FunctionDef, ast.If)) for x in stmts[i + 1:j]):
            body = list(nxt.body)
            conds = []
            if len(body) == 1 and isinstance(body[0], ast.If) and not body[0].orelse and len(body[0].body) in (1, 2):
                conds = [body[0].test]
                body = list(body[0].body)
            keytmp = None
            if len(body) == 2 and kind == "dict" and isinstance(body[0], ast.Assign) and len(body[0].targets) == 1 and isinstance(body[0].targets[0], ast.Name):
                keytmp = body[0]
                body = body[1:]
            inner = body[0] if len(body) == 1 else None
            elt = key = None
            if inner is not None:
                if kind == "list" and isinstance(inner, ast.Expr) and isinstance(inner.value, ast.Call) and isinstance(inner.value.func, ast.Attribute) and inner.value.func.attr == "append" and isinstance(inner.value.func.value, ast.Name) and inner.value.func.value.id == X and len(inner.value.args) == 1 and not inner.value.keywords:
                    elt = inner.value.args[0]
                elif kind == "set" and isinstance(inner, ast.Expr) and isinstance(inner.value, ast.Call) and isinstance(inner.value.func, ast.Attribute) and inner.value.func.attr == "add" and isinstance(inner.value.func.value, ast.Name) and inner.value.func.value.id == X and len(inner.value.args) == 1:
                    elt = inner.value.args[0]
                elif kind == "dict" and isinstance(inner, ast.Assign) and len(inner.targets) == 1 and isinstance(inner.targets[0], ast.Subscript) and isinstance(inner.targets[0].value, ast.Name) and inner.targets[0].value.id == X:
                    key, elt = inner.targets[0].slice, inner.value
                    if keytmp is None and _has_call(key) and _has_call(elt):
                        # X[k()] = v() evaluates v() first, {k(): v()} evaluates k() first
                        elt = None
                    elif keytmp is not None:
                        kt = keytmp.targets[0].id
                        if isinstance(key, ast.Name) and key.id == kt and not _mentions(elt, kt):
                            key = keytmp.value
                        else:
                            elt = None
            extra = [keytmp.targets[0].id] if keytmp is not None else []
            if elt is not None and not any(_mentions(x, X) for x in [elt, nxt.iter] + conds + ([key] if key is not None else [])) and not any(isinstance(n, (ast.Yield, ast.YieldFrom, ast.Await)) for n in ast.walk(nxt)):
                gen = ast.comprehension(target=nxt.target, iter=nxt.iter, ifs=conds, is_async=0)
                if kind == "list":
                    comp = ast.ListComp(elt=elt, generators=[gen])
                elif kind == "set":
                    comp = ast.SetComp(elt=elt, generators=[gen])
                else:
                    comp = ast.DictComp(key=key, value=elt, generators=[gen])
                loopvars = [n.id for n in ast.walk(nxt.target) if isinstance(n, ast.Name)] + extra
                later = stmts[j + 1:]
                if not any(_mentions(x, t) for x in later for t in loopvars):
                    new = ast.fix_missing_locations(_loc(ast.Assign(targets=s.targets, value=_loc(comp, nxt)), nxt))
        if new is not None:
            stmts[j] = new
            del stmts[i]
            continue
        i += 1
    return stmts


def _partial_exit(s):
    """the if statement contains a return / raise on some path of its arms but can also fall through"""
    def has_exit(stmts):
        for x in stmts:
            if isinstance(x, (ast.Return, ast.Raise)):
                return True
            if isinstance(x, ast.If) and (has_exit(x.body) or has_exit(x.orelse)):
                return True
        return False

    return (has_exit(s.body) or has_exit(s.orelse)) and not (_exits(s.body) and _exits(s.orelse))


def _small_rest(res):
    return len(res) <= 2 and all(isinstance(x, (ast.Return, ast.Raise, ast.Assign, ast.Expr)) for x in res) and sum(1 for x in res for _ in ast.walk(x)) <= 40 and isinstance(res[-1], (ast.Return, ast.Raise))


def _fold_constant_ifs(stmts):
    out = []
    for s in stmts:
        if isinstance(s, ast.If) and isinstance(s.test, ast.Constant) and (s.test.value is None or isinstance(s.test.value, bool)):
            out.extend(s.body if s.test.value else s.orelse)
        else:
            out.append(s)
    return out or ([_loc(ast.Pass(), stmts[0])] if stmts else [])


def _hoist_common_tail(s, res):
    """`if c: A; S else: B; S` -> `if c: A else: B` followed by S (S = the same last statement of both arms)"""
    moved = []
    while s.body and s.orelse and _dump(s.body[-1]) == _dump(s.orelse[-1]) and (len(s.body) > 1 or len(s.orelse) > 1):
        moved.insert(0, s.body.pop())
        s.orelse.pop()
    if not moved:
        return s, res
    if not s.body:
        s.body = [_loc(ast.Pass(), s)]
    return s, moved + list(res)


_TRY_DEPTH = [0]


def _hoist_common_head(s):
    """`if t: V = a; A else: V = a; B`  ==  `V = a; if t: A else: B`  for a plain local V, `a` a name or constant, t
    not mentioning V (outside try / with: when t raises nothing can look at V afterwards)"""
    moved = []
    while s.body and s.orelse and (len(s.body) > 1 or len(s.orelse) > 1) and _TRY_DEPTH[0] == 0:
        a, b = s.body[0], s.orelse[0]
        if not (isinstance(a, ast.Assign) and len(a.targets) == 1 and isinstance(a.targets[0], ast.Name) and isinstance(a.value, (ast.Name, ast.Constant)) and _dump(a) == _dump(b)):
            break
        tgt = a.targets[0].id
        if any(isinstance(n, ast.Name) and n.id == tgt for n in ast.walk(s.test)) or any(isinstance(n, (ast.NamedExpr, ast.Lambda, ast.Await, ast.Yield, ast.YieldFrom)) for n in ast.walk(s.test)):
            break
        moved.append(s.body.pop(0))
        s.orelse.pop(0)
    if not s.body:
        s.body = [_loc(ast.Pass(), s)]
    if not s.orelse and moved:
        pass
    return moved, s


def canon_block(stmts):
    """bottom-up: guard clauses become if/else nests; negated tests are swapped"""
    out = []
    i = 0
    stmts = [canon_stmt(s) for s in stmts]
    stmts = _fold_constant_ifs(stmts)
    if len(stmts) > 1:
        stmts = [s for s in stmts if not isinstance(s, ast.Pass)] or stmts[:1]
    stmts = _strip_annotations(stmts)
    stmts = _sink_flag(stmts)
    stmts = _thread_known_arm(stmts)
    stmts = _thread_search_loop(stmts)
    stmts = _expand_walrus(stmts)
    stmts = _expand_ifexp(stmts)
    if any(isinstance(x, ast.Assign) and len(x.targets) > 1 for x in stmts):
        stmts = _split_chained_assigns(stmts)
    stmts = _split_tuple_assigns(stmts)
    stmts = _split_dict_merge(stmts)
    if any(isinstance(getattr(x, "value", None), ast.Call) and ast.unparse(x.value.func) in ("next", "reduce", "functools.reduce") for x in stmts):
        stmts = _expand_next_search(stmts, _FN_NAME_COUNTS[-1] if _FN_NAME_COUNTS else {})
        stmts = [canon_stmt(x) if isinstance(x, ast.For) else x for x in _expand_reduce(stmts)]
    stmts = _fold_dict_stores(stmts)
    stmts = _fold_list_appends(stmts)
    stmts = _table_dispatch_var(stmts)
    stmts = [_merge_arms(_table_dispatch(s)) if isinstance(s, ast.If) else s for s in stmts]
    stmts = _unroll_literal_loops(stmts)
    if any(isinstance(x, ast.If) and isinstance(x.test, ast.Constant) for x in stmts):
        stmts = _fold_constant_ifs(stmts)
    stmts = _loops_to_comprehensions(stmts)
    # from the end: `if c: A(exits)` + rest -> if c: A else: rest
    res = []
    for s in reversed(stmts):
        s = _merge_nested_if(s)
        q = _quantifier_loop(s, res)
        if q is not None:
            res = [q] + res[1:]
            continue
        s = _raising_loop(s, res)
        if isinstance(s, ast.If) and not s.orelse and _exits(s.body) and res:
            s = _loc(ast.If(test=s.test, body=s.body, orelse=list(res)), s)
            res = [swap_if(s)]
        elif isinstance(s, ast.If) and s.orelse and res and _exits(s.body) and not _exits(s.orelse):
            # if c: <exit> else: B  followed by REST  ==  if c: <exit> else: B; REST
            s = _loc(ast.If(test=s.test, body=s.body, orelse=canon_block(list(s.orelse) + list(res))), s)
            res = [swap_if(s)]
        elif isinstance(s, ast.If) and s.orelse and res and _exits(s.orelse) and not _exits(s.body):
            s = _loc(ast.If(test=s.test, body=canon_block(list(s.body) + list(res)), orelse=s.orelse), s)
            res = [swap_if(s)]
        elif isinstance(s, ast.If) and res and _partial_exit(s) and _small_rest(res):
            # some leaves of the `if` leave the block, others fall through: the (small) rest is moved to the
            # leaves that fall through, so that every exit is a leaf of one decision tree
            s = _loc(ast.If(test=s.test, body=canon_block(list(s.body) + copy.deepcopy(list(res))), orelse=canon_block(list(s.orelse) + copy.deepcopy(list(res)))), s)
            res = [swap_if(s)]
        else:
            res.insert(0, swap_if(s) if isinstance(s, ast.If) else s)
    hoisted = []
    for k, s in enumerate(res):
        if isinstance(s, ast.If) and s.orelse:
            s, tail = _hoist_common_tail(s, [])
            head = []
            if s.orelse:
                head, s = _hoist_common_head(s)
            hoisted.extend(head)
            hoisted.append(swap_if(s) if (tail or head) else s)
            hoisted.extend(tail)
        else:
            hoisted.append(s)
    res = hoisted
    res = [_bool_if_deep(s) for s in res]
    if len(res) > 1:
        res = [s for s in res if not isinstance(s, ast.Pass)] or res[:1]
    if any(isinstance(x, ast.Try) for x in res):
        res = [_try_lookup_to_membership(x) if isinstance(x, ast.Try) else x for x in res]
    if len(res) > 1 and any(isinstance(x, ast.Try) for x in res):
        res = _thread_try_sentinel(res)
    if len(res) > 1 and any(isinstance(x, ast.Assign) and isinstance(x.value, ast.Call) and isinstance(x.value.func, ast.Attribute) and x.value.func.attr == "get" and len(x.value.args) == 2 for x in res):
        res2 = _sentinel_lookup(res)
        if len(res2) != len(res):
            res = [swap_if(x) if isinstance(x, ast.If) else x for x in res2]
    return res


def _certainly_int(e):
    if isinstance(e, ast.BinOp) and isinstance(e.op, (ast.BitAnd, ast.BitOr, ast.BitXor, ast.LShift, ast.RShift)):
        return True
    if isinstance(e, ast.Call) and isinstance(e.func, ast.Name) and e.func.id == "len" and len(e.args) == 1:
        return True
    return False


def truth_form(t):
    """equivalent test in a boolean context: `E != 0` / `len(X) > 0` / `len(X) >= 1` -> `E`; `E == 0` -> `not E`"""
    if isinstance(t, ast.BoolOp):
        t.values = [truth_form(v) for v in t.values]
        return t
    if isinstance(t, ast.UnaryOp) and isinstance(t.op, ast.Not):
        t.operand = truth_form(t.operand)
        return t
    if isinstance(t, ast.Compare) and len(t.ops) == 1 and _certainly_int(t.left) and isinstance(t.comparators[0], ast.Constant) and type(t.comparators[0].value) is int:
        op, c = t.ops[0], t.comparators[0].value
        nonneg = isinstance(t.left, ast.Call) or (isinstance(t.left, ast.BinOp) and isinstance(t.left.op, ast.BitAnd) and any(isinstance(x, ast.Constant) and isinstance(x.value, int) and x.value >= 0 for x in (t.left.left, t.left.right)))
        if (isinstance(op, ast.NotEq) and c == 0) or (nonneg and ((isinstance(op, ast.Gt) and c == 0) or (isinstance(op, ast.GtE) and c == 1))):
            return t.left
        if (isinstance(op, ast.Eq) and c == 0) or (nonneg and ((isinstance(op, ast.LtE) and c == 0) or (isinstance(op, ast.Lt) and c == 1))):
            return _loc(ast.UnaryOp(op=ast.Not(), operand=t.left), t)
    return t


class _Tests(ast.NodeTransformer):
    def _t(self, node):
        self.generic_visit(node)
        node.test = truth_form(node.test)
        return node

    visit_If = visit_While = visit_IfExp = visit_Assert = _t

    def visit_comprehension(self, node):
        self.generic_visit(node)
        node.ifs = [truth_form(x) for x in node.ifs]
        return node


def _boolean_typed(e):
    if isinstance(e, ast.Compare):
        return True
    if isinstance(e, ast.UnaryOp) and isinstance(e.op, ast.Not):
        return True
    if isinstance(e, ast.BoolOp):
        return all(_boolean_typed(v) for v in e.values)
    if isinstance(e, ast.Call) and isinstance(e.func, ast.Name) and e.func.id in ("isinstance", "bool", "callable", "hasattr", "issubclass", "all", "any"):
        return True
    if isinstance(e, ast.Constant) and isinstance(e.value, bool):
        return True
    return False


def _bool_const(e):
    return isinstance(e, ast.Constant) and isinstance(e.value, bool)


def _simplify_bool(e):
    """`E and True` -> E, `E or False` -> E (E boolean-typed); `True and E` / `False or E` -> E; flatten"""
    e = ExprCanon().visit(ast.fix_missing_locations(e))
    if isinstance(e, ast.BoolOp):
        unit = isinstance(e.op, ast.And)
        vals = list(e.values)
        out = []
        for i, v in enumerate(vals):
            if _bool_const(v) and v.value is unit:
                last = i == len(vals) - 1
                if not last or (out and _boolean_typed(out[-1])):
                    continue
            out.append(v)
        if not out:
            return _loc(ast.Constant(value=unit), e)
        if len(out) == 1:
            return out[0]
        e.values = out
    return e


def _bool_if(s):
    """`if c: x = True else: x = False` -> `x = c`; `if c: return True else: return False` -> `return c`;
    `if c: return B else: return False` -> `return c and B` (and the three dual forms), c boolean-typed"""
    if not (isinstance(s, ast.If) and len(s.body) == 1 and len(s.orelse) == 1 and _boolean_typed(s.test)):
        return s
    b, o = s.body[0], s.orelse[0]
    if isinstance(b, ast.Return) and isinstance(o, ast.Return) and b.value is not None and o.value is not None and (_bool_const(b.value) != _bool_const(o.value)):
        notc = lambda: ExprCanon().visit(ast.fix_missing_locations(negate(copy.deepcopy(s.test))))
        if _bool_const(b.value):
            # if c: return True else: return B -> c or B ;  if c: return False else: return B -> not c and B
            val = ast.BoolOp(op=ast.Or(), values=[s.test, o.value]) if b.value.value else ast.BoolOp(op=ast.And(), values=[notc(), o.value])
        else:
            # if c: return B else: return False -> c and B ;  if c: return B else: return True -> not c or B
            val = ast.BoolOp(op=ast.Or(), values=[notc(), b.value]) if o.value.value else ast.BoolOp(op=ast.And(), values=[s.test, b.value])
        return _loc(ast.Return(value=_simplify_bool(_loc(val, s))), s)
    if isinstance(b, ast.Return) and isinstance(o, ast.Return) and _bool_const(b.value) and _bool_const(o.value) and b.value.value != o.value.value:
        val = s.test if b.value.value else ExprCanon().visit(ast.fix_missing_locations(negate(copy.deepcopy(s.test))))
        return _loc(ast.Return(value=val), s)
    if isinstance(b, ast.Assign) and isinstance(o, ast.Assign) and len(b.targets) == 1 and len(o.targets) == 1 and _dump(b.targets[0]) == _dump(o.targets[0]) and _bool_const(b.value) and _bool_const(o.value) and b.value.value != o.value.value:
        val = s.test if b.value.value else ExprCanon().visit(ast.fix_missing_locations(negate(copy.deepcopy(s.test))))
        return _loc(ast.Assign(targets=b.targets, value=val), s)
    return s


def _bool_if_deep(s):
    if isinstance(s, ast.If):
        s.body = [_bool_if_deep(x) for x in s.body]
        s.orelse = [_bool_if_deep(x) for x in s.orelse]
    return _bool_if(s)


def _cannot_raise(stmts, package_handlers=False):
    """statements built from plain local names and constants only: no evaluation in them can raise (with
    package_handlers: ... anything the handlers at hand, which name package exception classes only, could catch:
    `<name>.append(<name>)` runs no package code)"""
    def simple(e):
        return e is None or isinstance(e, ast.Constant) or (isinstance(e, ast.Name) and isinstance(e.ctx, ast.Load))

    for st in stmts:
        if package_handlers and isinstance(st, ast.Expr) and isinstance(st.value, ast.Call) and isinstance(st.value.func, ast.Attribute) and isinstance(st.value.func.value, ast.Name) and st.value.func.attr in ("append", "add", "extend") and not st.value.keywords and all(simple(x) for x in st.value.args):
            continue
        if isinstance(st, (ast.Pass, ast.Break, ast.Continue)):
            continue
        if isinstance(st, ast.Return) and simple(st.value):
            continue
        if isinstance(st, ast.Assign) and len(st.targets) == 1 and isinstance(st.targets[0], ast.Name) and simple(st.value):
            continue
        if isinstance(st, ast.If) and (simple(st.test) or (isinstance(st.test, ast.UnaryOp) and isinstance(st.test.op, ast.Not) and simple(st.test.operand)) or (isinstance(st.test, ast.Compare) and len(st.test.ops) == 1 and isinstance(st.test.ops[0], (ast.Is, ast.IsNot)) and simple(st.test.left) and simple(st.test.comparators[0]))) and _cannot_raise(st.body) and _cannot_raise(st.orelse):
            continue
        return False
    return True


def _table_dispatch_var(stmts):
    """`b = T.get(V)` directly followed by `if b is None: A else: B` where B only calls b and A does not mention it
    (T a literal table of names):  `if V in T: B[b(..) := T[V](..)] else: A`"""
    out = list(stmts)
    i = 0
    while i + 1 < len(out):
        a, s = out[i], out[i + 1]
        if isinstance(a, ast.Assign) and len(a.targets) == 1 and isinstance(a.targets[0], ast.Name) and isinstance(s, ast.If):
            bname = a.targets[0].id
            g = a.value
            t = s.test
            if isinstance(g, ast.Call) and isinstance(g.func, ast.Attribute) and g.func.attr == "get" and isinstance(g.func.value, ast.Dict) and len(g.args) == 1 and not g.keywords and isinstance(g.args[0], ast.Name) and g.func.value.keys and all(isinstance(k, ast.Constant) and isinstance(k.value, str) for k in g.func.value.keys) and all(isinstance(v, (ast.Name, ast.Attribute)) or _is_partial(v) for v in g.func.value.values) and isinstance(t, ast.Compare) and len(t.ops) == 1 and isinstance(t.ops[0], (ast.Is, ast.IsNot)) and isinstance(t.left, ast.Name) and t.left.id == bname and isinstance(t.comparators[0], ast.Constant) and t.comparators[0].value is None:
                none_arm, call_arm = (s.body, s.orelse) if isinstance(t.ops[0], ast.Is) else (s.orelse, s.body)
                loads = [n for st in call_arm for n in ast.walk(st) if isinstance(n, ast.Name) and n.id == bname]
                callf = {id(c.func) for st in call_arm for c in ast.walk(st) if isinstance(c, ast.Call)}
                if call_arm and loads and all(isinstance(n.ctx, ast.Load) and id(n) in callf for n in loads) and not any(_mentions(x, bname) for x in none_arm) and not any(_mentions(x, bname) for x in out[i + 2:]) and not any(isinstance(n, ast.Name) and n.id == g.args[0].id and isinstance(n.ctx, (ast.Store, ast.Del)) for st in call_arm for n in ast.walk(st)):
                    d = g.func.value
                    for st in call_arm:
                        for c in ast.walk(st):
                            if isinstance(c, ast.Call) and isinstance(c.func, ast.Name) and c.func.id == bname:
                                c.func = _loc(ast.Subscript(value=copy.deepcopy(d), slice=copy.deepcopy(g.args[0]), ctx=ast.Load()), c.func)
                    new = _loc(ast.If(test=_loc(ast.Compare(left=g.args[0], ops=[ast.In()], comparators=[d]), t), body=call_arm, orelse=none_arm), s)
                    out[i:i + 2] = [ast.fix_missing_locations(new)]
                    continue
        i += 1
    return out


def _table_dispatch(s):
    """`if {k: f, ..}.get(V) is not None: {k: f, ..}.get(V)(args)` -> `if V in {k: f, ..}: {k: f, ..}[V](args)`
    (a literal table whose values are names: a name in a dispatch table is taken to be a function, never None)"""
    t = s.test
    if not (isinstance(t, ast.Compare) and len(t.ops) == 1 and isinstance(t.ops[0], (ast.IsNot, ast.Is)) and isinstance(t.comparators[0], ast.Constant) and t.comparators[0].value is None):
        return s
    if isinstance(t.ops[0], ast.Is):
        # `if T.get(V) is None: A else: B`  ==  `if T.get(V) is not None: B else: A`
        if not s.orelse:
            return s
        flipped = _loc(ast.If(test=_loc(ast.Compare(left=t.left, ops=[ast.IsNot()], comparators=t.comparators), t), body=s.orelse, orelse=s.body), s)
        r = _table_dispatch(flipped)
        return r if isinstance(r.test, ast.Compare) and isinstance(r.test.ops[0], ast.In) else s
    g = t.left
    if not (isinstance(g, ast.Call) and isinstance(g.func, ast.Attribute) and g.func.attr == "get" and isinstance(g.func.value, ast.Dict) and len(g.args) == 1 and not g.keywords and isinstance(g.args[0], ast.Name)):
        return s
    d = g.func.value
    if not d.keys or not all(isinstance(k, ast.Constant) and isinstance(k.value, str) for k in d.keys) or not all(isinstance(v, (ast.Name, ast.Attribute)) or _is_partial(v) for v in d.values):
        return s
    key = _dump(g)
    calls = [n for st in s.body for n in ast.walk(st) if isinstance(n, ast.Call) and _dump(n.func) == key]
    if not calls:
        return s
    if any(isinstance(n, ast.Name) and n.id == g.args[0].id and isinstance(n.ctx, (ast.Store, ast.Del)) for st in s.body for n in ast.walk(st)):
        return s
    for c in calls:
        c.func = _loc(ast.Subscript(value=copy.deepcopy(d), slice=copy.deepcopy(g.args[0]), ctx=ast.Load()), c.func)
    s.test = _loc(ast.Compare(left=g.args[0], ops=[ast.In()], comparators=[d]), t)
    return s


def _strip_tail_returns(stmts):
    """a bare `return` in tail position of a function body is the same as falling off the end"""
    if not stmts:
        return stmts
    last = stmts[-1]
    if isinstance(last, ast.Return) and (last.value is None or (isinstance(last.value, ast.Constant) and last.value.value is None)):
        return stmts[:-1] or [_loc(ast.Pass(), last)]
    if isinstance(last, ast.If):
        last.body = _strip_tail_returns(last.body)
        if last.orelse:
            last.orelse = _strip_tail_returns(last.orelse)
    elif isinstance(last, (ast.With, ast.AsyncWith)):
        last.body = _strip_tail_returns(last.body)
    return stmts


class _BreakToReturn(ast.NodeTransformer):
    def visit_Break(self, n):
        return _loc(ast.Return(value=None), n)

    def _stop(self, n):
        return n

    visit_For = visit_AsyncFor = visit_While = visit_FunctionDef = visit_AsyncFunctionDef = visit_Lambda = visit_ClassDef = _stop


def _tail_breaks_to_returns(stmts):
    """`break` out of a loop that is the last statement of a function returning nothing is `return`"""
    if not stmts:
        return stmts
    last = stmts[-1]
    if isinstance(last, (ast.For, ast.AsyncFor, ast.While)):
        t = _BreakToReturn()
        last.body = [t.visit(x) for x in last.body]
    elif isinstance(last, (ast.With, ast.AsyncWith)):
        _tail_breaks_to_returns(last.body)
    elif isinstance(last, ast.If):
        _tail_breaks_to_returns(last.body)
        _tail_breaks_to_returns(last.orelse)
    return stmts


def _strip_tail_continue(stmts):
    """`continue` in tail position of a loop body is the same as reaching the end of the body"""
    if not stmts:
        return stmts
    last = stmts[-1]
    if isinstance(last, ast.Continue):
        return stmts[:-1] or [_loc(ast.Pass(), last)]
    if isinstance(last, ast.If):
        last.body = _strip_tail_continue(last.body)
        if last.orelse:
            last.orelse = _strip_tail_continue(last.orelse)
    elif isinstance(last, (ast.With, ast.AsyncWith)):
        last.body = _strip_tail_continue(last.body)
    return stmts


def _is_partial(e):
    return isinstance(e, ast.Call) and ((isinstance(e.func, ast.Name) and e.func.id == "partial") or (isinstance(e.func, ast.Attribute) and e.func.attr == "partial" and isinstance(e.func.value, ast.Name) and e.func.value.id == "functools")) and e.args and not any(isinstance(a, ast.Starred) for a in e.args) and not any(k.arg is None for k in e.keywords)


def _apply_local_partials(fnode):
    """`g = partial(f, a, k=b)` assigned once to a local that is only ever called: `g(x)` is `f(a, x, k=b)`.  The bound
    arguments are names, constants and attribute chains of names that are not rebound in the function (a partial
    object evaluates them once, the rewritten call every time)."""
    pm = {}
    for n in ast.walk(fnode):
        for c in ast.iter_child_nodes(n):
            pm[id(c)] = n
    occ = {}
    stored = {}
    for n in ast.walk(fnode):
        if isinstance(n, ast.Name):
            occ.setdefault(n.id, []).append(n)
            if isinstance(n.ctx, (ast.Store, ast.Del)):
                stored[n.id] = stored.get(n.id, 0) + 1
    params = {a.arg for a in ast.walk(fnode.args) if isinstance(a, ast.arg)}
    changed = False
    for name, nodes in occ.items():
        st = [n for n in nodes if isinstance(n.ctx, (ast.Store, ast.Del))]
        if len(st) != 1 or name in params:
            continue
        asg = pm.get(id(st[0]))
        if isinstance(asg, ast.Assign) and len(asg.targets) == 1 and asg.targets[0] is st[0] and isinstance(asg.value, ast.Call) and ast.unparse(asg.value.func).split(".")[-1] in ("itemgetter", "attrgetter", "methodcaller") and not asg.value.keywords and asg.value.args and all(isinstance(x, ast.Constant) for x in asg.value.args):
            # g = methodcaller('m'): every call g(x) is methodcaller('m')(x), which the expression form folds
            loads_ = [n for n in nodes if isinstance(n.ctx, ast.Load)]
            if loads_ and all(isinstance(pm.get(id(n)), ast.Call) and pm[id(n)].func is n for n in loads_) and not any(isinstance(x, (ast.FunctionDef, ast.AsyncFunctionDef, ast.Lambda)) and x is not fnode and any(isinstance(y, ast.Name) and y.id == name for y in ast.walk(x)) for x in ast.walk(fnode)):
                for n in loads_:
                    pm[id(n)].func = copy.deepcopy(asg.value)
                blk_ = pm.get(id(asg))
                for f_ in ("body", "orelse", "finalbody"):
                    l_ = getattr(blk_, f_, None)
                    if isinstance(l_, list) and any(x is asg for x in l_):
                        l_[:] = [x for x in l_ if x is not asg] or [_loc(ast.Pass(), asg)]
                changed = True
            continue
        if not (isinstance(asg, ast.Assign) and len(asg.targets) == 1 and asg.targets[0] is st[0] and _is_partial(asg.value)):
            continue
        p = asg.value
        bound = list(p.args) + [k.value for k in p.keywords]
        if not all(_atomic_row(x) for x in bound):
            continue
        used = {x.id for b_ in bound for x in ast.walk(b_) if isinstance(x, ast.Name)}
        if any(stored.get(u, 0) > (0 if u in params else 1) for u in used) or any(stored.get(u, 0) and u in params for u in used):
            # .. unless nothing the partial binds is stored between its creation and the end of the block that holds
            # both the creation and every use
            blk = pm.get(id(asg))
            lst = next((getattr(blk, f_) for f_ in ("body", "orelse", "finalbody") if isinstance(getattr(blk, f_, None), list) and any(x is asg for x in getattr(blk, f_))), None)
            if lst is None:
                continue
            after = lst[[i for i, x in enumerate(lst) if x is asg][0] + 1:]
            inside = {id(n) for st_ in after for n in ast.walk(st_)}
            if any(isinstance(n.ctx, ast.Load) and id(n) not in inside for n in nodes) or any(isinstance(n, ast.Name) and n.id in used and isinstance(n.ctx, (ast.Store, ast.Del)) for st_ in after for n in ast.walk(st_)):
                continue
        loads = [n for n in nodes if isinstance(n.ctx, ast.Load)]
        if not loads or any(not (isinstance(pm.get(id(n)), ast.Call) and pm[id(n)].func is n) for n in loads):
            continue
        if any(isinstance(x, (ast.FunctionDef, ast.AsyncFunctionDef, ast.Lambda)) and x is not fnode and any(isinstance(y, ast.Name) and y.id == name for y in ast.walk(x)) for x in ast.walk(fnode)):
            continue
        # the definition must come before every call in its own block (straight-line or enclosing)
        for n in loads:
            c = pm[id(n)]
            if any(k.arg is not None and k.arg in {q.arg for q in p.keywords} for k in c.keywords):
                break
        else:
            for n in loads:
                c = pm[id(n)]
                c.func = copy.deepcopy(p.args[0])
                c.args = [copy.deepcopy(x) for x in p.args[1:]] + list(c.args)
                c.keywords = [copy.deepcopy(k) for k in p.keywords] + list(c.keywords)
            gp = pm.get(id(asg))
            for f_ in ("body", "orelse", "finalbody"):
                lst = getattr(gp, f_, None)
                if isinstance(lst, list) and any(x is asg for x in lst):
                    lst[:] = [x for x in lst if x is not asg] or [_loc(ast.Pass(), asg)]
            changed = True
    if changed:
        ast.fix_missing_locations(fnode)
    return changed


def _scalarise_local_tuples(fnode):
    """a local that only ever holds tuple displays of one length and is only read as `t[<constant index>]` is that
    many locals:  t = (a, b); .. t[0] .. t[1]  ->  t__0 = a; t__1 = b; .. t__0 .. t__1"""
    from .refnorm import local_names

    params = {a.arg for a in ast.walk(fnode.args) if isinstance(a, ast.arg)}
    pm = {}
    for n in ast.walk(fnode):
        for c in ast.iter_child_nodes(n):
            pm[id(c)] = n
    occ = {}
    for n in ast.walk(fnode):
        if isinstance(n, ast.Name):
            occ.setdefault(n.id, []).append(n)
    captured = set()
    for n in ast.walk(fnode):
        if isinstance(n, (ast.FunctionDef, ast.AsyncFunctionDef, ast.Lambda)) and n is not fnode:
            captured |= {x.id for x in ast.walk(n) if isinstance(x, ast.Name)}
    existing = set(occ) | params
    changed = False
    for name, nodes in occ.items():
        if name in params or name in captured:
            continue
        arity = None
        ok = True
        stores = []
        unpacks = []
        for n in nodes:
            par = pm.get(id(n))
            if isinstance(n.ctx, ast.Store):
                if isinstance(par, ast.Assign) and len(par.targets) == 1 and par.targets[0] is n and isinstance(par.value, ast.Tuple) and not any(isinstance(e, ast.Starred) for e in par.value.elts) and not any(isinstance(x, ast.Name) and x.id == name for x in ast.walk(par.value)):
                    k = len(par.value.elts)
                    if arity not in (None, k):
                        ok = False
                    arity = k
                    stores.append(par)
                else:
                    ok = False
            elif isinstance(n.ctx, ast.Load):
                if isinstance(par, ast.Assign) and par.value is n and len(par.targets) == 1 and isinstance(par.targets[0], ast.Tuple) and all(isinstance(e, ast.Name) and e.id != name for e in par.targets[0].elts):
                    unpacks.append((n, par))
                elif not (isinstance(par, ast.Subscript) and par.value is n and isinstance(par.ctx, ast.Load) and isinstance(par.slice, ast.Constant) and isinstance(par.slice.value, int) and not isinstance(par.slice.value, bool)):
                    ok = False
            else:
                ok = False
        if not ok or not stores or arity is None or arity < 1:
            continue
        if any(len(u.targets[0].elts) != arity for _, u in unpacks):
            continue
        unpacked = {id(n) for n, _ in unpacks}
        if any(not (0 <= pm[id(n)].slice.value < arity) for n in nodes if isinstance(n.ctx, ast.Load) and id(n) not in unpacked):
            continue
        new_names = [f"{name}__{i}" for i in range(arity)]
        if set(new_names) & existing:
            continue
        # `a, b = t`  ->  `a = t__0; b = t__1`  (the targets are plain names other than t)
        for n, u in unpacks:
            gp = pm.get(id(u))
            seq = [_loc(ast.Assign(targets=[e], value=_loc(ast.Name(id=nn, ctx=ast.Load()), u)), u) for nn, e in zip(new_names, u.targets[0].elts)]
            for f_ in ("body", "orelse", "finalbody"):
                lst = getattr(gp, f_, None)
                if isinstance(lst, list) and any(x is u for x in lst):
                    i = next(k for k, x in enumerate(lst) if x is u)
                    lst[i:i + 1] = seq
        # loads
        for n in nodes:
            if isinstance(n.ctx, ast.Load) and id(n) not in unpacked:
                sub = pm[id(n)]
                repl = _loc(ast.Name(id=new_names[sub.slice.value], ctx=ast.Load()), sub)
                gp = pm.get(id(sub))
                for f_, v in ast.iter_fields(gp):
                    if v is sub:
                        setattr(gp, f_, repl)
                    elif isinstance(v, list):
                        for j, y in enumerate(v):
                            if y is sub:
                                v[j] = repl
                pm[id(repl)] = gp
        # stores
        for st in stores:
            gp = pm.get(id(st))
            seq = [_loc(ast.Assign(targets=[_loc(ast.Name(id=nn, ctx=ast.Store()), st)], value=e), st) for nn, e in zip(new_names, st.value.elts)]
            for f_ in ("body", "orelse", "finalbody"):
                lst = getattr(gp, f_, None)
                if isinstance(lst, list) and any(x is st for x in lst):
                    i = next(k for k, x in enumerate(lst) if x is st)
                    lst[i:i + 1] = seq
        existing |= set(new_names)
        changed = True
    if changed:
        ast.fix_missing_locations(fnode)
    return changed


def _reuse_bound_subscripts(fnode):
    """after `V = B['k']` (B a plain name, 'k' a string literal) a later `B['k']` in the rest of the block is `V`,
    provided neither V nor B is rebound and no `B[...]` is stored or deleted in that rest"""
    changed = False

    def blocks(n):
        for f in ("body", "orelse", "finalbody"):
            lst = getattr(n, f, None)
            if isinstance(lst, list) and lst and isinstance(lst[0], ast.stmt):
                yield lst
        for h in getattr(n, "handlers", []) or []:
            yield h.body

    todo = [fnode]
    while todo:
        n = todo.pop()
        for lst in blocks(n):
            for i, s in enumerate(lst):
                if isinstance(s, (ast.FunctionDef, ast.AsyncFunctionDef, ast.ClassDef)):
                    continue
                todo.append(s)
                if not (isinstance(s, ast.Assign) and len(s.targets) == 1 and isinstance(s.targets[0], ast.Name)):
                    continue
                e = s.value
                if not (isinstance(e, ast.Subscript) and isinstance(e.value, ast.Name) and isinstance(e.slice, ast.Constant) and isinstance(e.slice.value, str)):
                    continue
                V, B = s.targets[0].id, e.value.id
                if V == B:
                    continue
                rest = lst[i + 1:]
                inside = [x for r in rest for x in ast.walk(r)]
                if any(isinstance(x, ast.Name) and x.id in (V, B) and isinstance(x.ctx, (ast.Store, ast.Del)) for x in inside):
                    continue
                if any(isinstance(x, ast.Subscript) and isinstance(x.ctx, (ast.Store, ast.Del)) and isinstance(x.value, ast.Name) and x.value.id == B for x in inside):
                    continue
                if any(isinstance(x, (ast.FunctionDef, ast.AsyncFunctionDef, ast.Lambda, ast.ClassDef, ast.Global, ast.Nonlocal)) for x in inside):
                    continue
                key = _dump(e)
                for x in inside:
                    for f, v in ast.iter_fields(x):
                        if isinstance(v, ast.Subscript) and isinstance(v.ctx, ast.Load) and _dump(v) == key:
                            setattr(x, f, _loc(ast.Name(id=V, ctx=ast.Load()), v))
                            changed = True
                        elif isinstance(v, list):
                            for j, y in enumerate(v):
                                if isinstance(y, ast.Subscript) and isinstance(y.ctx, ast.Load) and _dump(y) == key:
                                    v[j] = _loc(ast.Name(id=V, ctx=ast.Load()), y)
                                    changed = True
    return changed


def _propagate_constants(fnode):
    """a read whose only reaching definition assigns None / True / False is that constant"""
    from .refnorm import reaching_definitions

    reach = reaching_definitions(fnode)
    if not reach:
        return False
    pm = {}
    for n in ast.walk(fnode):
        for c in ast.iter_child_nodes(n):
            pm[id(c)] = n
    captured = set()
    for n in ast.walk(fnode):
        if isinstance(n, (ast.Lambda, ast.FunctionDef, ast.AsyncFunctionDef)) and n is not fnode:
            captured |= {x.id for x in ast.walk(n) if isinstance(x, ast.Name)}
    changed = False
    for n in list(ast.walk(fnode)):
        if isinstance(n, ast.Name) and isinstance(n.ctx, ast.Load) and n.id not in captured and len(reach.get(id(n), ())) == 1:
            d = reach[id(n)][0]
            asg = pm.get(id(d))
            if isinstance(d, ast.Name) and isinstance(asg, ast.Assign) and len(asg.targets) == 1 and asg.targets[0] is d and isinstance(asg.value, ast.Constant) and (asg.value.value is None or isinstance(asg.value.value, bool)):
                par = pm.get(id(n))
                if par is not None and not isinstance(par, (ast.AugAssign,)) and _replace_expr(par, n, _loc(ast.Constant(value=asg.value.value), n)):
                    changed = True
    return changed


def _drop_dead_constant_stores(fnode):
    """`x = <constant>` whose value no read can see (every path overwrites x first): the statement is removed.
    Decided by reaching definitions (sa/refnorm.webs): the store's def-use web contains no read."""
    from .refnorm import webs, local_names

    from .unextract import _pure

    cands = []
    for n in ast.walk(fnode):
        if isinstance(n, ast.Assign) and len(n.targets) == 1 and isinstance(n.targets[0], ast.Name):
            cands.append(n)
    if not cands:
        return False
    loc = local_names(fnode)
    w = webs(fnode, loc)
    if not w:
        return False
    read_webs = {w.get(id(n)) for n in ast.walk(fnode) if isinstance(n, ast.Name) and isinstance(n.ctx, ast.Load) and id(n) in w}
    # names read inside nested functions / lambdas / comprehensions keep every store alive
    captured = set()
    for n in ast.walk(fnode):
        if isinstance(n, (ast.Lambda, ast.FunctionDef, ast.AsyncFunctionDef)) and n is not fnode:
            captured |= {x.id for x in ast.walk(n) if isinstance(x, ast.Name)}
    dead = [n for n in cands if n.targets[0].id in loc and n.targets[0].id not in captured and id(n.targets[0]) in w and w[id(n.targets[0])] not in read_webs]
    if not dead:
        return False
    # a dead store of a value with possible effects keeps the evaluation: `x = f()` -> `f()`
    dead_ids = {id(n) for n in dead if _is_const(n.value) or _pure(n.value)}
    effect_ids = {id(n) for n in dead} - dead_ids

    def prune(lst):
        keep = [(_loc(ast.Expr(value=x.value), x) if id(x) in effect_ids else x) for x in lst if id(x) not in dead_ids]
        for x in keep:
            for f in ("body", "orelse", "finalbody"):
                sub = getattr(x, f, None)
                if isinstance(sub, list) and not isinstance(x, (ast.FunctionDef, ast.AsyncFunctionDef, ast.ClassDef)):
                    new = prune(sub)
                    setattr(x, f, new if (new or f != "body") else [_loc(ast.Pass(), x)])
            if isinstance(x, ast.Try):
                for h in x.handlers:
                    h.body = prune(h.body) or [_loc(ast.Pass(), h)]
        return keep

    fnode.body = prune(fnode.body) or [_loc(ast.Pass(), fnode)]
    return True


def _inline_single_use(fnode):
    """a value assigned to a local and read exactly once, by the very next statement of its block, before anything
    else with an effect is evaluated there (or anywhere in it when the value is pure): the temporary is removed.
    "Read exactly once" is per definition (reaching definitions), so a name reused for several values qualifies."""
    from .inline import first_evaluated
    from .unextract import _pure
    from .refnorm import reaching_definitions

    changed = False
    for _ in range(6):
        blocked = set()
        for n in ast.walk(fnode):
            if isinstance(n, (ast.Global, ast.Nonlocal)):
                blocked |= set(n.names)
            elif isinstance(n, (ast.Lambda, ast.FunctionDef, ast.AsyncFunctionDef)) and n is not fnode:
                blocked |= {x.id for x in ast.walk(n) if isinstance(x, ast.Name)}
        reach = reaching_definitions(fnode)
        if not reach:
            break
        uses_of = {}
        loads = {}
        for n in ast.walk(fnode):
            if isinstance(n, ast.Name) and isinstance(n.ctx, ast.Load) and id(n) in reach:
                loads[id(n)] = n
                for d in reach[id(n)]:
                    uses_of.setdefault(id(d), []).append(n)
        state = {"done": False}

        def block(lst):
            i = 0
            while i + 1 < len(lst):
                s0, s1 = lst[i], lst[i + 1]
                if isinstance(s0, ast.Assign) and len(s0.targets) == 1 and isinstance(s0.targets[0], ast.Name) and s0.targets[0].id not in blocked:
                    tgt = s0.targets[0]
                    us = uses_of.get(id(tgt), [])
                    if len(us) == 1 and len(reach.get(id(us[0]), [])) == 1:
                        rd = us[0]
                        own = _own_expr(s1)
                        if own is not None and any(x is rd for x in ast.walk(own)) and not isinstance(s1, ast.While) and sum(1 for x in ast.walk(own) if isinstance(x, ast.Name) and x.id == tgt.id and isinstance(x.ctx, ast.Load)) == 1:
                            if first_evaluated(s1, tgt.id) or (_pure(s0.value) and not _under_binder(own, rd)):
                                _replace_expr(s1, rd, s0.value)
                                del lst[i]
                                state["done"] = True
                                return
                i += 1
            for s_ in lst:
                if state["done"]:
                    return
                for f in ("body", "orelse", "finalbody"):
                    sub = getattr(s_, f, None)
                    if isinstance(sub, list) and not isinstance(s_, (ast.FunctionDef, ast.AsyncFunctionDef, ast.ClassDef)):
                        block(sub)
                        if state["done"]:
                            return
                if isinstance(s_, ast.Try):
                    for h in s_.handlers:
                        block(h.body)
                        if state["done"]:
                            return

        # one replacement per analysis (the reaching definitions change with every rewrite)
        for _k in range(40):
            state["done"] = False
            block(fnode.body)
            if not state["done"]:
                break
            changed = True
            reach = reaching_definitions(fnode)
            uses_of = {}
            for n in ast.walk(fnode):
                if isinstance(n, ast.Name) and isinstance(n.ctx, ast.Load) and id(n) in reach:
                    for d in reach[id(n)]:
                        uses_of.setdefault(id(d), []).append(n)
        break
    return changed


def _sink_flag(stmts):
    """`if c: ..; t = K1 else: ..; t = K2` followed by the only statement reading t  ->  that statement is copied
    into both arms with the constant in place of t (a flag set in two arms and tested once is the two arms)"""
    out = list(stmts)
    i = 0
    while i + 1 < len(out):
        s, nxt = out[i], out[i + 1]
        if isinstance(s, ast.If) and s.body and s.orelse and isinstance(nxt, (ast.If, ast.Assign, ast.Expr, ast.Return)):
            b, o = s.body[-1], s.orelse[-1]
            if isinstance(b, ast.Assign) and isinstance(o, ast.Assign) and len(b.targets) == 1 and len(o.targets) == 1 and isinstance(b.targets[0], ast.Name) and isinstance(o.targets[0], ast.Name) and b.targets[0].id == o.targets[0].id and _is_const(b.value) and _is_const(o.value):
                t = b.targets[0].id
                own = _own_expr(nxt)
                later = out[i + 2:]
                reads_here = [x for x in ast.walk(own)] if own is not None else []
                n_reads = sum(1 for x in reads_here if isinstance(x, ast.Name) and x.id == t and isinstance(x.ctx, ast.Load))
                other_mentions = any(_mentions(x, t) for x in later) or any(_mentions(x, t) for x in s.body[:-1] + s.orelse[:-1]) or _mentions(s.test, t)
                inner_mentions = isinstance(nxt, ast.If) and any(_mentions(x, t) for x in nxt.body + nxt.orelse)
                if n_reads >= 1 and not other_mentions and not inner_mentions and (len(s.body) > 1 or len(s.orelse) > 1):
                    def spec(val):
                        c = copy.deepcopy(nxt)

                        class R(ast.NodeTransformer):
                            def visit_Name(self, n):
                                if n.id == t and isinstance(n.ctx, ast.Load):
                                    return _loc(copy.deepcopy(val), n)
                                return n

                        return ast.fix_missing_locations(R().visit(c))

                    new = _loc(ast.If(test=s.test, body=s.body[:-1] + [spec(b.value)], orelse=s.orelse[:-1] + [spec(o.value)]), s)
                    out[i:i + 2] = [canon_stmt(new)]
                    continue
        i += 1
    return out


def _thread_search_loop(stmts):
    """a search loop that reports through a sentinel:
        for x in X: .. if c: v = E; break ..          for x in X: .. if c: NEXT[v := E] ..
        else: v = S                              ==>   else: NEXT[v := S]
        NEXT                 (tests `v is S`, always leaves the function)
    E a loop variable / attribute / subscript (not a sentinel by module_sentinels), v dead after NEXT."""
    S_ = _SENTINELS[-1]
    if not S_:
        return stmts
    out = list(stmts)
    i = 0
    while i + 1 < len(out):
        loop, nxt = out[i], out[i + 1]
        if isinstance(loop, ast.For) and len(loop.orelse) == 1 and isinstance(loop.orelse[0], ast.Assign) and len(loop.orelse[0].targets) == 1 and isinstance(loop.orelse[0].targets[0], ast.Name) and isinstance(loop.orelse[0].value, ast.Name) and loop.orelse[0].value.id in S_ and _exits([nxt]) and isinstance(nxt, (ast.Return, ast.If)):
            v, S = loop.orelse[0].targets[0].id, loop.orelse[0].value
            if any(_mentions(x, v) for x in out[i + 2:]) or not _mentions(nxt, v):
                i += 1
                continue
            # every break of this loop directly follows `v = E` (or v is the loop variable itself: the item at hand)
            sites = []
            ok = True
            v_is_target = isinstance(loop.target, ast.Name) and loop.target.id == v

            def scan(block):
                nonlocal ok
                for k, st in enumerate(block):
                    if isinstance(st, ast.Break) and v_is_target:
                        sites.append((block, k))
                    elif isinstance(st, ast.Break):
                        prev = block[k - 1] if k else None
                        if isinstance(prev, ast.Assign) and len(prev.targets) == 1 and isinstance(prev.targets[0], ast.Name) and prev.targets[0].id == v and isinstance(prev.value, (ast.Name, ast.Attribute, ast.Subscript)) and not (isinstance(prev.value, ast.Name) and prev.value.id in S_) and not any(isinstance(x, ast.Call) for x in ast.walk(prev.value)):
                            sites.append((block, k))
                        else:
                            ok = False
                    elif isinstance(st, (ast.For, ast.AsyncFor, ast.While)):
                        continue  # breaks inside belong to the inner loop
                    elif isinstance(st, (ast.FunctionDef, ast.AsyncFunctionDef, ast.ClassDef)):
                        continue
                    else:
                        for f_ in ("body", "orelse", "finalbody"):
                            sub = getattr(st, f_, None)
                            if isinstance(sub, list) and sub and isinstance(sub[0], ast.stmt):
                                scan(sub)
                        for h in getattr(st, "handlers", []) or []:
                            scan(h.body)

            scan(loop.body)
            other_stores = [x for st in loop.body for x in ast.walk(st) if isinstance(x, ast.Name) and x.id == v and isinstance(x.ctx, (ast.Store, ast.Del))]
            if not ok or not sites or len(other_stores) != (0 if v_is_target else len(sites)) or any(isinstance(x, ast.Name) and x.id == v and isinstance(x.ctx, (ast.Store, ast.Del)) for x in ast.walk(nxt)):
                i += 1
                continue

            def inst(value, is_sentinel):
                class R(ast.NodeTransformer):
                    def visit_Compare(self, n):
                        if len(n.ops) == 1 and isinstance(n.ops[0], (ast.Is, ast.IsNot)):
                            l, r = n.left, n.comparators[0]
                            if (isinstance(l, ast.Name) and l.id == v and isinstance(r, ast.Name) and r.id == S.id) or (isinstance(r, ast.Name) and r.id == v and isinstance(l, ast.Name) and l.id == S.id):
                                return _loc(ast.Constant(value=is_sentinel if isinstance(n.ops[0], ast.Is) else not is_sentinel), n)
                        self.generic_visit(n)
                        return n

                    def visit_Name(self, n):
                        if n.id == v and isinstance(n.ctx, ast.Load):
                            return _loc(copy.deepcopy(value), n)
                        return n

                c = R().visit(copy.deepcopy(nxt))
                c = _Tests().visit(ExprCanon().visit(ast.fix_missing_locations(c)))
                return c

            for block, k in sorted(sites, key=lambda t: -t[1]):
                if v_is_target:
                    block[k:k + 1] = _fold_constant_ifs([inst(ast.Name(id=v, ctx=ast.Load()), False)])
                else:
                    E = block[k - 1].value
                    block[k - 1:k + 1] = _fold_constant_ifs([inst(E, False)])
            loop.orelse = _fold_constant_ifs([inst(S, True)])
            out[i:i + 2] = [canon_stmt(ast.fix_missing_locations(loop))]
            continue
        i += 1
    return out


def _thread_known_arm(stmts):
    """`if c: ..; t = E else: ..; t = K` (K a literal None / True / False) followed by an `if` that tests t, t not being
    read anywhere else afterwards: the second `if` is moved into the arms, in the arm of the constant with K in place
    of t (its test is then decided)."""
    out = list(stmts)
    i = 0
    while i + 1 < len(out):
        s, nxt = out[i], out[i + 1]
        if isinstance(s, ast.If) and s.body and s.orelse and isinstance(nxt, ast.If):
            b, o = s.body[-1], s.orelse[-1]
            if isinstance(b, ast.Assign) and isinstance(o, ast.Assign) and len(b.targets) == 1 and len(o.targets) == 1 and isinstance(b.targets[0], ast.Name) and isinstance(o.targets[0], ast.Name) and b.targets[0].id == o.targets[0].id and (_is_const(b.value) != _is_const(o.value)):
                t = b.targets[0].id
                const_in_body = _is_const(b.value)
                K = b.value if const_in_body else o.value
                if isinstance(K, ast.Constant) and (K.value is None or isinstance(K.value, bool)) and _mentions(nxt.test, t):
                    later = out[i + 2:]
                    elsewhere = any(_mentions(x, t) for x in later) or any(_mentions(x, t) for x in s.body[:-1] + s.orelse[:-1]) or _mentions(s.test, t)
                    stores_in_next = any(isinstance(x, ast.Name) and x.id == t and isinstance(x.ctx, (ast.Store, ast.Del)) for x in ast.walk(nxt))
                    # what gets copied must be small or the decided arm only: the constant copy is folded
                    if not elsewhere and not stores_in_next:
                        class R(ast.NodeTransformer):
                            def visit_Name(self, n):
                                if n.id == t and isinstance(n.ctx, ast.Load):
                                    return _loc(copy.deepcopy(K), n)
                                return n

                        const_copy = ast.fix_missing_locations(R().visit(copy.deepcopy(nxt)))
                        const_copy = _Tests().visit(ExprCanon().visit(const_copy))
                        if isinstance(const_copy, ast.If) and isinstance(const_copy.test, ast.Constant):
                            decided = const_copy.body if const_copy.test.value else const_copy.orelse
                            size = sum(1 for x in decided for _ in ast.walk(x))
                            if size <= 60:
                                if const_in_body:
                                    new = _loc(ast.If(test=s.test, body=s.body[:-1] + list(decided) or [_loc(ast.Pass(), s)], orelse=s.orelse + [nxt]), s)
                                else:
                                    new = _loc(ast.If(test=s.test, body=s.body + [nxt], orelse=(s.orelse[:-1] + list(decided)) or [_loc(ast.Pass(), s)]), s)
                                if not new.body:
                                    new.body = [_loc(ast.Pass(), s)]
                                out[i:i + 2] = [canon_stmt(ast.fix_missing_locations(new))]
                                continue
        i += 1
    return out


def _own_expr(s):
    if isinstance(s, (ast.Expr, ast.Return, ast.Assign, ast.AnnAssign, ast.AugAssign)):
        return s.value
    if isinstance(s, (ast.If, ast.While, ast.Assert)):
        return s.test
    if isinstance(s, ast.For):
        return s.iter
    if isinstance(s, ast.Raise):
        return s.exc
    return None


def _under_binder(expr, target):
    """target lies inside a lambda / comprehension of expr (where it would be evaluated repeatedly or later)"""
    for n in ast.walk(expr):
        if isinstance(n, ast.Lambda):
            if any(x is target for x in ast.walk(n)):
                return True
        elif isinstance(n, (ast.ListComp, ast.SetComp, ast.DictComp, ast.GeneratorExp)):
            first = list(ast.walk(n.generators[0].iter))
            if any(x is target for x in ast.walk(n)) and not any(x is target for x in first):
                return True
    return False


def _replace_expr(stmt, old, new):
    for parent in ast.walk(stmt):
        for f, v in ast.iter_fields(parent):
            if v is old:
                setattr(parent, f, new)
                return True
            if isinstance(v, list):
                for i, x in enumerate(v):
                    if x is old:
                        v[i] = new
                        return True
    return False


def _returns_value(fnode):
    todo = list(fnode.body)
    while todo:
        n = todo.pop()
        if isinstance(n, (ast.FunctionDef, ast.AsyncFunctionDef, ast.Lambda, ast.ClassDef)):
            continue
        if isinstance(n, ast.Return) and n.value is not None and not (isinstance(n.value, ast.Constant) and n.value.value is None):
            return True
        todo.extend(ast.iter_child_nodes(n))
    return False


def _only_pass(stmts):
    return bool(stmts) and all(isinstance(x, ast.Pass) for x in stmts)


_NEGATIVE_OPS = (ast.NotEq, ast.NotIn, ast.IsNot, ast.GtE, ast.LtE)


def _polarity(t):
    """(number of negative leaves, is a disjunction): the member of a pair (t, not t) with the smaller key is kept"""
    neg = 0
    todo = [t]
    while todo:
        x = todo.pop()
        if isinstance(x, ast.BoolOp):
            todo.extend(x.values)
        elif _quantifier(x) is not None:
            todo.append(_quantifier(x)[1].elt)
        elif isinstance(x, ast.UnaryOp) and isinstance(x.op, ast.Not):
            neg += 1
        elif isinstance(x, ast.Compare) and len(x.ops) == 1 and isinstance(x.ops[0], _NEGATIVE_OPS):
            neg += 1
    disj = (isinstance(t, ast.BoolOp) and isinstance(t.op, ast.Or)) or (_quantifier(t) is not None and _quantifier(t)[0] == "any")
    return (neg, 1 if disj else 0)


def _negative(t):
    """the test is the 'negative' member of the pair (t, not t): with both arms present the positive one is kept"""
    if not isinstance(t, (ast.UnaryOp, ast.Compare, ast.BoolOp)) and _quantifier(t) is None:
        return False
    other = ExprCanon().visit(ast.fix_missing_locations(negate(copy.deepcopy(t))))
    return _polarity(other) < _polarity(t)


def _quantifier_loop(s, res):
    """`for t in it: if c: return False` followed by `return X`  ->  `return all(not c for t in it) and X`
    (`return True` in the loop: `any(c for t in it) or X`).  Exact: all()/any() yield booleans."""
    if not (isinstance(s, ast.For) and not s.orelse and len(s.body) == 1 and res and isinstance(res[0], ast.Return) and res[0].value is not None):
        return None
    inner = s.body[0]
    if not (isinstance(inner, ast.If) and not inner.orelse and len(inner.body) == 1 and isinstance(inner.body[0], ast.Return) and _bool_const(inner.body[0].value)):
        return None
    if any(isinstance(n, (ast.Yield, ast.YieldFrom, ast.Await, ast.NamedExpr)) for n in ast.walk(s)):
        return None
    tnames_ = {n.id for n in ast.walk(s.target) if isinstance(n, ast.Name)}
    if any(_mentions(x, t) for x in res for t in tnames_):
        return None  # the loop variable's last value is read afterwards
    found = inner.body[0].value.value
    cond = inner.test if found else ExprCanon().visit(ast.fix_missing_locations(negate(copy.deepcopy(inner.test))))
    gen = ast.comprehension(target=s.target, iter=s.iter, ifs=[], is_async=0)
    q = _loc(ast.Call(func=_loc(ast.Name(id="any" if found else "all", ctx=ast.Load()), s), args=[_loc(ast.GeneratorExp(elt=cond, generators=[gen]), s)], keywords=[]), s)
    val = _loc(ast.BoolOp(op=ast.Or() if found else ast.And(), values=[q, res[0].value]), s)
    return ast.fix_missing_locations(_loc(ast.Return(value=_simplify_bool(val)), s))


def _raising_loop(s, res=()):
    """`for t in it: if c: raise E` (E independent of t, t not read afterwards)  ->  `if any(c for t in it): raise E`"""
    if not (isinstance(s, ast.For) and not s.orelse and len(s.body) == 1):
        return s
    if any(_mentions(x, n.id) for x in res for n in ast.walk(s.target) if isinstance(n, ast.Name)):
        return s
    inner = s.body[0]
    if not (isinstance(inner, ast.If) and not inner.orelse and len(inner.body) == 1 and isinstance(inner.body[0], ast.Raise)):
        return s
    tnames = {n.id for n in ast.walk(s.target) if isinstance(n, ast.Name)}
    if any(isinstance(n, ast.Name) and n.id in tnames for n in ast.walk(inner.body[0])):
        return s
    if any(isinstance(n, (ast.Yield, ast.YieldFrom, ast.Await, ast.NamedExpr)) for n in ast.walk(s)):
        return s
    gen = ast.comprehension(target=s.target, iter=s.iter, ifs=[], is_async=0)
    test = _loc(ast.Call(func=_loc(ast.Name(id="any", ctx=ast.Load()), s), args=[_loc(ast.GeneratorExp(elt=inner.test, generators=[gen]), s)], keywords=[]), s)
    return ast.fix_missing_locations(_loc(ast.If(test=test, body=inner.body, orelse=[]), s))


def _merge_nested_if(s):
    """if a: (if b: X)  ->  if a and b: X   (no else anywhere)"""
    while isinstance(s, ast.If) and not s.orelse and len(s.body) == 1 and isinstance(s.body[0], ast.If) and not s.body[0].orelse:
        inner, t = s.body[0], s.test
        vals = (list(t.values) if isinstance(t, ast.BoolOp) and isinstance(t.op, ast.And) else [t]) + (list(inner.test.values) if isinstance(inner.test, ast.BoolOp) and isinstance(inner.test.op, ast.And) else [inner.test])
        s = _loc(ast.If(test=_loc(ast.BoolOp(op=ast.And(), values=vals), t), body=inner.body, orelse=[]), s)
    # if a or b: (if a: A else: B) else: C   ->   if a: A elif b: B else: C      (a a plain name)
    if isinstance(s, ast.If) and isinstance(s.test, ast.BoolOp) and isinstance(s.test.op, ast.Or) and len(s.test.values) == 2 and isinstance(s.test.values[0], ast.Name) and len(s.body) == 1 and isinstance(s.body[0], ast.If) and s.body[0].orelse and isinstance(s.body[0].test, ast.Name) and s.body[0].test.id == s.test.values[0].id:
        inner = s.body[0]
        s = _loc(ast.If(test=s.test.values[0], body=inner.body, orelse=[_loc(ast.If(test=s.test.values[1], body=inner.orelse, orelse=s.orelse), inner)]), s)
    # if a: (if b: X else: Y) else: X  ->  if a and not b: Y else: X      (.. else: Y) else: Y -> if a and b: X else: Y
    if isinstance(s, ast.If) and s.orelse and len(s.body) == 1 and isinstance(s.body[0], ast.If) and s.body[0].orelse and not any(isinstance(n, ast.NamedExpr) for n in ast.walk(s.body[0].test)) and not any(isinstance(n, ast.NamedExpr) for n in ast.walk(s.test)):
        inner, t = s.body[0], s.test
        outer_else = "".join(_dump(x) for x in s.orelse)
        conj = lambda b: _loc(ast.BoolOp(op=ast.And(), values=(list(t.values) if isinstance(t, ast.BoolOp) and isinstance(t.op, ast.And) else [t]) + [b]), t)
        if outer_else == "".join(_dump(x) for x in inner.body):
            nb = ExprCanon().visit(negate(copy.deepcopy(inner.test)))
            s = _loc(ast.If(test=ExprCanon().visit(conj(nb)), body=inner.orelse, orelse=s.orelse), s)
        elif outer_else == "".join(_dump(x) for x in inner.orelse):
            s = _loc(ast.If(test=ExprCanon().visit(conj(inner.test)), body=inner.body, orelse=s.orelse), s)
    return s


def swap_if(s):
    t = s.test
    if isinstance(t, ast.Constant) and isinstance(t.value, bool):
        # decided test: only the live arm remains (kept as an `if True:` shell so that one statement stays one)
        live = s.body if t.value else s.orelse
        if not live:
            return _loc(ast.Pass(), s)
        if len(live) == 1:
            return live[0]
        return _loc(ast.If(test=_loc(ast.Constant(value=True), t), body=live, orelse=[]), s)
    if _only_pass(s.orelse):
        s = _loc(ast.If(test=s.test, body=s.body, orelse=[]), s)
    if _only_pass(s.body) and s.orelse:
        return swap_if(_loc(ast.If(test=ExprCanon().visit(negate(copy.deepcopy(t))), body=s.orelse, orelse=[]), s))
    # if k in M: x = M[k]  ->  x = M.get(k, x)
    if not s.orelse and len(s.body) == 1 and isinstance(s.body[0], ast.Assign) and isinstance(t, ast.Compare) and len(t.ops) == 1 and isinstance(t.ops[0], ast.In):
        b0 = s.body[0]
        k, M = t.left, t.comparators[0]
        if len(b0.targets) == 1 and isinstance(b0.targets[0], ast.Name) and isinstance(b0.value, ast.Subscript) and _dump(b0.value.value) == _dump(M) and _dump(b0.value.slice) == _dump(k) and isinstance(M, (ast.Name, ast.Attribute)):
            cur = _loc(ast.Name(id=b0.targets[0].id, ctx=ast.Load()), b0)
            call = _loc(ast.Call(func=_loc(ast.Attribute(value=M, attr="get", ctx=ast.Load()), s), args=[k, cur], keywords=[]), s)
            return _loc(ast.Assign(targets=b0.targets, value=call), s)
    # if a: S elif b: S [else: T]  ->  if a or b: S [else: T]
    while len(s.orelse) == 1 and isinstance(s.orelse[0], ast.If) and [_dump(x) for x in s.orelse[0].body] == [_dump(x) for x in s.body] and _simple_test(s.test) and _simple_test(s.orelse[0].test):
        nxt = s.orelse[0]
        vals = (list(s.test.values) if isinstance(s.test, ast.BoolOp) and isinstance(s.test.op, ast.Or) else [s.test]) + (list(nxt.test.values) if isinstance(nxt.test, ast.BoolOp) and isinstance(nxt.test.op, ast.Or) else [nxt.test])
        test = ExprCanon().visit(ast.fix_missing_locations(_loc(ast.BoolOp(op=ast.Or(), values=vals), s.test)))
        s = _loc(ast.If(test=test, body=s.body, orelse=nxt.orelse), s)
        t = s.test
    if s.orelse and _negative(t):
        neg = ExprCanon().visit(ast.fix_missing_locations(negate(copy.deepcopy(t))))
        if not _negative(neg):
            s = _loc(ast.If(test=neg, body=s.orelse, orelse=s.body), s)
            t = s.test
    if isinstance(t, ast.UnaryOp) and isinstance(t.op, ast.Not) and s.orelse:
        return _loc(ast.If(test=t.operand, body=s.orelse, orelse=s.body), s)
    # if k in X: v = X[k] else: v = d  ->  v = X.get(k, d)
    if isinstance(t, ast.Compare) and len(t.ops) == 1 and isinstance(t.ops[0], (ast.In, ast.NotIn)) and len(s.body) == 1 and len(s.orelse) == 1:
        b, o = (s.body[0], s.orelse[0]) if isinstance(t.ops[0], ast.In) else (s.orelse[0], s.body[0])
        if isinstance(b, ast.Assign) and isinstance(o, ast.Assign) and len(b.targets) == 1 and len(o.targets) == 1 and _dump(b.targets[0]) == _dump(o.targets[0]):
            k, X = t.left, t.comparators[0]
            if isinstance(b.value, ast.Subscript) and _dump(b.value.value) == _dump(X) and _dump(b.value.slice) == _dump(k) and _safe_default(o.value):
                call = _loc(ast.Call(func=_loc(ast.Attribute(value=X, attr="get", ctx=ast.Load()), s), args=[k, o.value], keywords=[]), s)
                return _loc(ast.Assign(targets=b.targets, value=call), s)
    return s


_FN_NAME_COUNTS = []


def canon_stmt(s):
    if isinstance(s, (ast.FunctionDef, ast.AsyncFunctionDef)):
        cnt = {}
        for n in ast.walk(s):
            if isinstance(n, ast.Name):
                cnt[n.id] = cnt.get(n.id, 0) + 1
            elif isinstance(n, ast.arg):
                cnt[n.arg] = cnt.get(n.arg, 0) + 1
        _FN_NAME_COUNTS.append(cnt)
        try:
            return _canon_stmt_fn(s)
        finally:
            _FN_NAME_COUNTS.pop()
    return _canon_stmt(s)


def _canon_stmt_fn(s):
    if isinstance(s, (ast.FunctionDef, ast.AsyncFunctionDef)):
        _CLOSURE_NAMES.append({x.id for n in ast.walk(s) if n is not s and isinstance(n, (ast.FunctionDef, ast.AsyncFunctionDef, ast.Lambda)) for x in ast.walk(n) if isinstance(x, ast.Name)})
        try:
            return _canon_function(s)
        finally:
            _CLOSURE_NAMES.pop()
    return _canon_stmt(s)


def _subst_pure_walrus(fnode):
    """`(x := E)` with E a plain lookup (names, constant subscripts, attributes) of things the function never rebinds or
    stores into, x bound nowhere else: the walrus is E and every read of x is E (reading it again yields the same
    object).  The canonical form of the other direction, `x = E` as a statement, is the same after the inlining of
    single-use temporaries and the reuse of bound subscripts."""
    def own(n):
        stack = list(ast.iter_child_nodes(n))
        while stack:
            c = stack.pop()
            yield c
            if not isinstance(c, (ast.FunctionDef, ast.AsyncFunctionDef, ast.Lambda, ast.ClassDef)):
                stack.extend(ast.iter_child_nodes(c))

    nodes = list(own(fnode))
    walrus = [n for n in nodes if isinstance(n, ast.NamedExpr) and isinstance(n.target, ast.Name)]
    if not walrus:
        return False
    stores = {}
    for n in nodes:
        if isinstance(n, ast.Name) and isinstance(n.ctx, (ast.Store, ast.Del)):
            stores[n.id] = stores.get(n.id, 0) + 1
    params = {a.arg for a in fnode.args.args + fnode.args.kwonlyargs + fnode.args.posonlyargs} | ({fnode.args.vararg.arg} if fnode.args.vararg else set()) | ({fnode.args.kwarg.arg} if fnode.args.kwarg else set())
    into = {n.value.id for n in nodes if isinstance(n, (ast.Subscript, ast.Attribute)) and isinstance(n.ctx, (ast.Store, ast.Del)) and isinstance(n.value, ast.Name)}
    mutcalls = {n.func.value.id for n in nodes if isinstance(n, ast.Call) and isinstance(n.func, ast.Attribute) and isinstance(n.func.value, ast.Name) and n.func.attr in ("update", "pop", "clear", "setdefault", "popitem", "append", "extend", "insert", "remove", "sort", "reverse")}
    closure = _CLOSURE_NAMES[-1] if _CLOSURE_NAMES else set()

    loops_of = {}
    for n in nodes:
        if isinstance(n, ast.For):
            for t_ in ast.walk(n.target):
                if isinstance(t_, ast.Name):
                    loops_of.setdefault(t_.id, []).append(n)
    scope = [None]  # the loop inside whose body the walrus and every read of its target must lie

    def plain(e):
        if isinstance(e, ast.Name):
            if e.id in into or e.id in mutcalls:
                return False
            if e.id not in stores:
                return True
            # a loop variable: constant within one iteration of the only loop that binds it
            lp = loops_of.get(e.id, [])
            if len(lp) == 1 and stores.get(e.id, 0) == sum(1 for t_ in ast.walk(lp[0].target) if isinstance(t_, ast.Name) and t_.id == e.id) and scope[0] in (None, lp[0]):
                scope[0] = lp[0]
                return True
            return False
        if isinstance(e, ast.Subscript):
            return isinstance(e.slice, ast.Constant) and plain(e.value)
        if isinstance(e, ast.Attribute):
            return plain(e.value) and not (isinstance(e.value, ast.Name) and e.value.id == "self")
        return False

    done = False
    for w in walrus:
        x = w.target.id
        scope[0] = None
        if stores.get(x, 0) != 1 or x in params or x in closure or not plain(w.value) or isinstance(w.value, ast.Name):
            continue
        if scope[0] is not None:
            inside = {id(n) for st in scope[0].body for n in ast.walk(st)}
            if id(w) not in inside or any(isinstance(n, ast.Name) and n.id == x and id(n) not in inside for n in nodes):
                continue
        if any(isinstance(n, (ast.Global, ast.Nonlocal)) and x in n.names for n in nodes):
            continue
        val = w.value

        class R(ast.NodeTransformer):
            def visit_NamedExpr(self, n):
                if n is w:
                    return copy.deepcopy(val)
                self.generic_visit(n)
                return n

            def visit_Name(self, n):
                if n.id == x and isinstance(n.ctx, ast.Load):
                    return _loc(copy.deepcopy(val), n)
                return n

            def visit_FunctionDef(self, n):
                return n

            visit_AsyncFunctionDef = visit_Lambda = visit_ClassDef = visit_FunctionDef

        fnode.body = [R().visit(st) for st in fnode.body]
        ast.fix_missing_locations(fnode)
        done = True
    return done


def _own_loop_nodes(st):
    """nodes of a statement that belong to the enclosing loop (not to a loop nested inside it)"""
    yield st
    for c in ast.iter_child_nodes(st):
        if isinstance(c, (ast.For, ast.AsyncFor, ast.While, ast.FunctionDef, ast.AsyncFunctionDef, ast.Lambda, ast.ClassDef)):
            continue
        yield from _own_loop_nodes(c)


def _tail_return_loop(fn):
    """the last statement of a function that returns nothing is `while True:` whose first statement is `if C: return`:
    leaving the function there is leaving the loop: `if C: break`"""
    if not fn.body or _returns_value(fn):
        return
    last = fn.body[-1]
    if isinstance(last, ast.While) and isinstance(last.test, ast.Constant) and last.test.value is True and not last.orelse and last.body and isinstance(last.body[0], ast.If):
        first = last.body[0]
        if len(first.body) == 1 and isinstance(first.body[0], ast.Return) and first.body[0].value is None:
            first.body = [_loc(ast.Break(), first.body[0])]


def _join_loops(fnode):
    """B = StringIO(); SEP = ''; for T in X: B.write(SEP); B.write(E); SEP = C   ...B.getvalue()...
       ==  B = C.join([E for T in X])  ...B...     (B and SEP local, B otherwise only read through getvalue())"""
    def own(node):
        for ch in ast.iter_child_nodes(node):
            if isinstance(ch, (ast.FunctionDef, ast.AsyncFunctionDef, ast.Lambda, ast.ClassDef)):
                continue
            yield ch
            yield from own(ch)

    def is_write(st, buf, arg_name=None):
        if not (isinstance(st, ast.Expr) and isinstance(st.value, ast.Call) and isinstance(st.value.func, ast.Attribute) and st.value.func.attr == "write" and isinstance(st.value.func.value, ast.Name) and st.value.func.value.id == buf and len(st.value.args) == 1 and not st.value.keywords):
            return False
        return arg_name is None or isinstance(st.value.args[0], ast.Name) and st.value.args[0].id == arg_name

    changed = False
    blocks = [fnode.body] + [getattr(n, f) for n in own(fnode) for f in ("body", "orelse", "finalbody") if isinstance(getattr(n, f, None), list) and not isinstance(n, (ast.FunctionDef, ast.AsyncFunctionDef, ast.Lambda, ast.ClassDef))]
    for block in blocks:
        for i in range(len(block) - 2):
            trio = block[i:i + 3]
            loop = trio[2]
            if not (isinstance(loop, ast.For) and not loop.orelse and len(loop.body) == 3):
                continue
            inits = {}
            for st in trio[:2]:
                if isinstance(st, ast.Assign) and len(st.targets) == 1 and isinstance(st.targets[0], ast.Name):
                    inits[st.targets[0].id] = st.value
            if len(inits) != 2:
                continue
            bufs = [k for k, v in inits.items() if isinstance(v, ast.Call) and ast.unparse(v.func) in ("StringIO", "io.StringIO") and not v.args and not v.keywords]
            seps = [k for k, v in inits.items() if isinstance(v, ast.Constant) and v.value == ""]
            if len(bufs) != 1 or len(seps) != 1:
                continue
            buf, sep = bufs[0], seps[0]
            b0, b1, b2 = loop.body
            if not (is_write(b0, buf, sep) and is_write(b1, buf) and isinstance(b2, ast.Assign) and len(b2.targets) == 1 and isinstance(b2.targets[0], ast.Name) and b2.targets[0].id == sep and isinstance(b2.value, (ast.Constant, ast.Name))):
                continue
            piece = b1.value.args[0]
            if any(isinstance(n, ast.Name) and n.id in (buf, sep) for n in ast.walk(piece)):
                continue
            if isinstance(b2.value, ast.Name) and any(isinstance(n, ast.Name) and n.id == b2.value.id and isinstance(n.ctx, ast.Store) for n in own(fnode)):
                continue
            inside = {id(n) for st in trio for n in ast.walk(st)}
            ok = True
            reads = []
            for n in own(fnode):
                if id(n) in inside:
                    continue
                if isinstance(n, ast.Name) and n.id == sep:
                    ok = False
                if isinstance(n, ast.Call) and isinstance(n.func, ast.Attribute) and n.func.attr == "getvalue" and isinstance(n.func.value, ast.Name) and n.func.value.id == buf and not n.args and not n.keywords:
                    reads.append(n)
            n_names = sum(1 for n in own(fnode) if id(n) not in inside and isinstance(n, ast.Name) and n.id == buf)
            if not ok or n_names != len(reads) or not reads:
                continue
            comp = _loc(ast.ListComp(elt=piece, generators=[ast.comprehension(target=loop.target, iter=loop.iter, ifs=[], is_async=0)]), loop)
            joined = _loc(ast.Call(func=_loc(ast.Attribute(value=b2.value, attr="join", ctx=ast.Load()), loop), args=[comp], keywords=[]), loop)
            new = _loc(ast.Assign(targets=[_loc(ast.Name(id=buf, ctx=ast.Store()), loop)], value=joined), loop)
            ast.fix_missing_locations(new)
            block[i:i + 3] = [new]

            class _R(ast.NodeTransformer):
                def visit_Call(self, node):
                    self.generic_visit(node)
                    if any(node is r for r in reads):
                        return ast.copy_location(ast.Name(id=buf, ctx=ast.Load()), node)
                    return node
            for st in fnode.body:
                _R().visit(st)
            changed = True
            break
    return changed


def _canon_function(s):
    _tail_return_loop(s)
    while _join_loops(s):
        pass
    _subst_pure_walrus(s)
    # a keyword-only marker on a private function only restricts how it may be called: for the analysis the parameters
    # are ordinary ones (every call site of a valid program passes them by name)
    a = s.args
    if s.name.startswith("_") and not s.name.startswith("__") and a.kwonlyargs and a.vararg is None:
        n_pos_defaults = len(a.defaults)
        if all(d is not None for d in a.kw_defaults) or n_pos_defaults == 0:
            a.args = list(a.args) + list(a.kwonlyargs)
            if any(d is not None for d in a.kw_defaults):
                # defaults align with the tail of the parameter list: pad the keyword-only ones without default
                firstd = next(i for i, d in enumerate(a.kw_defaults) if d is not None)
                if all(d is not None for d in a.kw_defaults[firstd:]) and (n_pos_defaults == 0 or firstd == 0):
                    a.defaults = list(a.defaults) + [d for d in a.kw_defaults[firstd:]]
                    a.kwonlyargs, a.kw_defaults = [], []
                else:
                    a.args = a.args[: len(a.args) - len(a.kwonlyargs)]
            else:
                a.kwonlyargs, a.kw_defaults = [], []
    return _canon_stmt(s)


def _canon_stmt(s):
    if isinstance(s, (ast.FunctionDef, ast.AsyncFunctionDef)):
        if not _returns_value(s):
            s.body = _tail_breaks_to_returns(_strip_tail_returns(s.body))
        s.body = canon_block(s.body)
        if not _returns_value(s):
            s.body = canon_block(_strip_tail_returns(s.body))
        if _apply_local_partials(s):
            s.body = canon_block([ExprCanon().visit(x) for x in s.body])
        if _scalarise_local_tuples(s):
            s.body = canon_block(s.body)
        if _reuse_bound_subscripts(s):
            s.body = canon_block(s.body)
        if _inline_single_use(s):
            s.body = canon_block(s.body)
        if _propagate_constants(s):
            s.body = canon_block([ExprCanon().visit(x) for x in s.body])
        if _drop_dead_constant_stores(s):
            s.body = canon_block(s.body)
    elif isinstance(s, ast.ClassDef):
        s.body = [canon_stmt(x) for x in s.body]
    elif isinstance(s, ast.If):
        s.body = canon_block(s.body)
        s.orelse = canon_block(s.orelse)
    elif isinstance(s, ast.While) and isinstance(s.test, ast.Constant) and s.test.value is True and not s.orelse and s.body and isinstance(s.body[0], ast.If) and len(s.body[0].body) == 1 and isinstance(s.body[0].body[0], ast.Break) and not any(isinstance(x, ast.NamedExpr) for x in ast.walk(s.body[0].test)) and not any(isinstance(x, ast.Break) for st_ in (list(s.body[0].orelse) + list(s.body[1:])) for x in _own_loop_nodes(st_)):
        # while True: if C: break; REST   ==   while not C: REST
        first = s.body[0]
        rest = list(first.orelse) + list(s.body[1:])
        new_loop = _loc(ast.While(test=ExprCanon().visit(negate(copy.deepcopy(first.test))), body=rest or [_loc(ast.Pass(), s)], orelse=[]), s)
        ast.fix_missing_locations(new_loop)
        return _canon_stmt(new_loop)
    elif isinstance(s, ast.For) and isinstance(s.iter, ast.Call) and ast.unparse(s.iter.func) in ("chain", "itertools.chain") and len(s.iter.args) >= 2 and not s.iter.keywords and not s.orelse and not any(isinstance(a_, ast.Starred) for a_ in s.iter.args) and not any(isinstance(x, ast.Break) for st_ in s.body for x in _own_loop_nodes(st_)) and all(isinstance(a_, (ast.Name, ast.GeneratorExp, ast.Attribute, ast.Subscript)) for a_ in s.iter.args):
        # for x in chain(A, B): S   ==   for x in A: S; for x in B: S     (no break: every part is walked to its end or left by return)
        loops = [_loc(ast.For(target=copy.deepcopy(s.target), iter=a_, body=copy.deepcopy(s.body), orelse=[], type_comment=None), s) for a_ in s.iter.args]
        shell = _loc(ast.If(test=_loc(ast.Constant(value=True), s), body=loops, orelse=[]), s)
        ast.fix_missing_locations(shell)
        return _canon_stmt(shell)
    elif isinstance(s, ast.Expr) and isinstance(s.value, ast.YieldFrom) and isinstance(s.value.value, ast.GeneratorExp) and len(s.value.value.generators) == 1 and not s.value.value.generators[0].is_async:
        # yield from (E for T in X if C)  ==  for T in X: if C: yield E      (a generator expression is as lazy as the loop)
        g_ = s.value.value
        gen = g_.generators[0]
        inner = [_loc(ast.Expr(value=_loc(ast.Yield(value=g_.elt), s)), s)]
        for c_ in reversed(gen.ifs):
            inner = [_loc(ast.If(test=c_, body=inner, orelse=[]), s)]
        loop = _loc(ast.For(target=gen.target, iter=gen.iter, body=inner, orelse=[], type_comment=None), s)
        for n_ in ast.walk(loop.target):
            if isinstance(n_, ast.Name):
                n_.ctx = ast.Store()
        ast.fix_missing_locations(loop)
        return _canon_stmt(loop)
    elif isinstance(s, (ast.For, ast.AsyncFor, ast.While)):
        if isinstance(s, ast.For):
            # for T in iter(X)  ==  for T in X
            if isinstance(s.iter, ast.Call) and isinstance(s.iter.func, ast.Name) and s.iter.func.id == "iter" and len(s.iter.args) == 1 and not s.iter.keywords:
                s.iter = s.iter.args[0]
            s = _loop_over_filter(s)
            for _ in range(3):
                s2 = _loop_over_genexp(s)
                if s2 is s:
                    break
                s = s2
            # for _ in repeat(x, n) with the variable unused  ==  for _ in range(n)
            it_ = s.iter
            if isinstance(it_, ast.Call) and ast.unparse(it_.func) in ("repeat", "itertools.repeat") and len(it_.args) == 2 and not it_.keywords and isinstance(it_.args[0], (ast.Constant, ast.Name)) and isinstance(s.target, ast.Name) and not any(isinstance(n_, ast.Name) and n_.id == s.target.id for st_ in s.body + s.orelse for n_ in ast.walk(st_)):
                s.iter = _loc(ast.Call(func=_loc(ast.Name(id="range", ctx=ast.Load()), it_), args=[it_.args[1]], keywords=[]), it_)
        s.body = canon_block(s.body)
        s.body = canon_block(_strip_tail_continue(s.body))
        s.orelse = canon_block(s.orelse)
    elif isinstance(s, ast.With) and len(s.items) == 1 and s.items[0].optional_vars is None and isinstance(s.items[0].context_expr, ast.Call) and ast.unparse(s.items[0].context_expr.func) in ("suppress", "contextlib.suppress") and s.items[0].context_expr.args and not s.items[0].context_expr.keywords:
        # with suppress(E1, E2): BODY  ==  try: BODY except (E1, E2): pass
        excs = s.items[0].context_expr.args
        typ = excs[0] if len(excs) == 1 else _loc(ast.Tuple(elts=list(excs), ctx=ast.Load()), s)
        new_try = _loc(ast.Try(body=s.body, handlers=[_loc(ast.ExceptHandler(type=typ, name=None, body=[_loc(ast.Pass(), s)]), s)], orelse=[], finalbody=[]), s)
        ast.fix_missing_locations(new_try)
        return _canon_stmt(new_try)
    elif isinstance(s, ast.With) and len(s.items) == 1 and isinstance(s.items[0].context_expr, ast.Call) and ast.unparse(s.items[0].context_expr.func) in ("nullcontext", "contextlib.nullcontext") and len(s.items[0].context_expr.args) <= 1 and not s.items[0].context_expr.keywords and (s.items[0].optional_vars is None or isinstance(s.items[0].optional_vars, ast.Name)):
        # with nullcontext(x) as v: BODY  ==  v = x; BODY
        it = s.items[0]
        pre = []
        if it.optional_vars is not None:
            val = it.context_expr.args[0] if it.context_expr.args else _loc(ast.Constant(value=None), s)
            pre = [_loc(ast.Assign(targets=[_loc(ast.Name(id=it.optional_vars.id, ctx=ast.Store()), s)], value=val), s)]
        elif it.context_expr.args and not isinstance(it.context_expr.args[0], (ast.Name, ast.Constant)):
            pre = [_loc(ast.Expr(value=it.context_expr.args[0]), s)]
        shell = _loc(ast.If(test=_loc(ast.Constant(value=True), s), body=pre + list(s.body), orelse=[]), s)
        ast.fix_missing_locations(shell)
        return _canon_stmt(shell)
    elif isinstance(s, ast.With) and _exitstack_rollback(s) is not None:
        # with ExitStack() as es: es.callback(F, a..); BODY; es.pop_all()  ==  try: BODY except BaseException: F(a..); raise
        new_try = _exitstack_rollback(s)
        ast.fix_missing_locations(new_try)
        return _canon_stmt(new_try)
    elif isinstance(s, (ast.With, ast.AsyncWith)):
        _TRY_DEPTH[0] += 1
        try:
            s.body = canon_block(s.body)
        finally:
            _TRY_DEPTH[0] -= 1
    elif isinstance(s, ast.Try):
        _TRY_DEPTH[0] += 1
        try:
            s.body = canon_block(s.body)
            for h in s.handlers:
                h.body = canon_block(h.body)
            s.orelse = canon_block(s.orelse)
            s.finalbody = canon_block(s.finalbody)
        finally:
            _TRY_DEPTH[0] -= 1
        # `try: A except ..: H else: B` with B unable to raise (returns / assignments of names and constants, tests of
        # plain names)  ==  `try: A; B except ..: H`
        import builtins as _bi

        pkg_only = bool(s.handlers) and all(h.type is not None and all(isinstance(t, ast.Name) and not hasattr(_bi, t.id) for t in (h.type.elts if isinstance(h.type, ast.Tuple) else [h.type])) for h in s.handlers)
        if s.orelse and s.handlers and _cannot_raise(s.orelse, package_handlers=pkg_only):
            s.body = canon_block(list(s.body) + list(s.orelse))
            s.orelse = []
        # every handler leaves the block: what is in `else` simply follows the statement
        if s.orelse and s.handlers and not s.finalbody and all(_exits(h.body) for h in s.handlers):
            tail = list(s.orelse)
            s.orelse = []
            shell = _loc(ast.If(test=_loc(ast.Constant(value=True), s), body=[s] + tail, orelse=[]), s)
            ast.fix_missing_locations(shell)
            return shell
        # `except E [as e]: raise [e]` changes nothing (but the traceback): a try with only such handlers is its body
        def _noop(h):
            if len(h.body) != 1 or not isinstance(h.body[0], ast.Raise) or h.body[0].cause is not None:
                return False
            exc = h.body[0].exc
            return exc is None or (isinstance(exc, ast.Name) and h.name is not None and exc.id == h.name)
        if s.handlers and all(_noop(h) for h in s.handlers) and not s.orelse and not s.finalbody:
            return _loc(ast.If(test=_loc(ast.Constant(value=True), s), body=s.body, orelse=[]), s) if len(s.body) != 1 else s.body[0]
    return s


_LOOKUP_SENTINELS = [set()]


def lookup_sentinels(tree):
    """module-level names bound once to `object()` whose every read is an operand of `is` / `is not` or the default
    argument of a `.get(key, <it>)` call: the object is in no container, so `D.get(k, S) is S` says `k not in D`"""
    cands = {}
    for st in tree.body:
        if isinstance(st, ast.Assign) and len(st.targets) == 1 and isinstance(st.targets[0], ast.Name) and isinstance(st.value, ast.Call) and isinstance(st.value.func, ast.Name) and st.value.func.id == "object" and not st.value.args and not st.value.keywords:
            cands[st.targets[0].id] = st
    if not cands:
        return set()
    pm = {}
    for n in ast.walk(tree):
        for c in ast.iter_child_nodes(n):
            pm[id(c)] = n
    bad = set()
    for n in ast.walk(tree):
        if isinstance(n, ast.Name) and n.id in cands:
            if isinstance(n.ctx, (ast.Store, ast.Del)):
                if n is not cands[n.id].targets[0]:
                    bad.add(n.id)
                continue
            par = pm.get(id(n))
            if isinstance(par, ast.Compare) and len(par.ops) == 1 and isinstance(par.ops[0], (ast.Is, ast.IsNot)):
                continue
            if isinstance(par, ast.Call) and isinstance(par.func, ast.Attribute) and par.func.attr == "get" and len(par.args) == 2 and par.args[1] is n and not par.keywords:
                continue
            bad.add(n.id)
        elif isinstance(n, (ast.Global, ast.Nonlocal)):
            bad |= set(n.names)
    return set(cands) - bad


def _sentinel_like(name):
    """a module-level constant by its spelling (ALL_CAPS, possibly private) that is not a local of the function being
    canonicalised: used as the default of `.get` and compared by identity with the result it is the lookup-sentinel idiom
    (assumption: the program does not store the sentinel as a value of that very dictionary)"""
    core = name.lstrip("_")
    return bool(core) and core.upper() == core and any(c.isalpha() for c in core) and name not in ("None", "True", "False")


def _sentinel_lookup(stmts):
    """`v = D.get(k, S)` + `if v is S: A else: B`  (S a lookup sentinel, v not read in A)  ==  `if k in D: v = D[k]; B else: A`"""
    S_ = _LOOKUP_SENTINELS[-1]
    out = list(stmts)
    i = 0
    while i + 1 < len(out):
        a, b = out[i], out[i + 1]
        if isinstance(a, ast.Assign) and len(a.targets) == 1 and isinstance(a.targets[0], ast.Name) and isinstance(a.value, ast.Call) and isinstance(a.value.func, ast.Attribute) and a.value.func.attr == "get" and len(a.value.args) == 2 and not a.value.keywords and isinstance(a.value.args[1], ast.Name) and (a.value.args[1].id in S_ or _sentinel_like(a.value.args[1].id)) and isinstance(b, ast.If):
            v, D, k, S = a.targets[0].id, a.value.func.value, a.value.args[0], a.value.args[1].id
            t = b.test
            simple = lambda e: isinstance(e, (ast.Name, ast.Constant)) or (isinstance(e, ast.Attribute) and simple(e.value)) or (isinstance(e, ast.Subscript) and isinstance(e.slice, ast.Constant) and simple(e.value))
            if isinstance(t, ast.Compare) and len(t.ops) == 1 and isinstance(t.ops[0], (ast.Is, ast.IsNot)) and isinstance(t.left, ast.Name) and t.left.id == v and isinstance(t.comparators[0], ast.Name) and t.comparators[0].id == S and simple(D) and simple(k):
                missing, found = (b.body, b.orelse) if isinstance(t.ops[0], ast.Is) else (b.orelse, b.body)
                rest = out[i + 2:]
                reads = lambda sts: any(isinstance(n, ast.Name) and n.id == v and isinstance(n.ctx, ast.Load) for st in sts for n in ast.walk(st))
                stores_kD = any(isinstance(n, ast.Name) and isinstance(n.ctx, (ast.Store, ast.Del)) and n.id in {x.id for x in ast.walk(k) if isinstance(x, ast.Name)} | {x.id for x in ast.walk(D) if isinstance(x, ast.Name)} for st in [b] for n in ast.walk(st))
                if not reads(missing) and not stores_kD and (_exits(missing) or not reads(rest)):
                    test = _loc(ast.Compare(left=copy.deepcopy(k), ops=[ast.In()], comparators=[copy.deepcopy(D)]), t)
                    fetch = _loc(ast.Assign(targets=[_loc(ast.Name(id=v, ctx=ast.Store()), a)], value=_loc(ast.Subscript(value=copy.deepcopy(D), slice=copy.deepcopy(k), ctx=ast.Load()), a)), a)
                    new = _loc(ast.If(test=test, body=[fetch] + list(found), orelse=list(missing)), b)
                    ast.fix_missing_locations(new)
                    out[i:i + 2] = [new]
                    continue
        i += 1
    return out


def canonicalise(tree):
    from .casesplit import split_cases

    _SENTINELS.append(module_sentinels(tree))
    _LOOKUP_SENTINELS.append(lookup_sentinels(tree))
    try:
        return _canonicalise(tree)
    finally:
        _SENTINELS.pop()
        _LOOKUP_SENTINELS.pop()


def _canonicalise(tree):
    from .casesplit import split_cases

    tree = _canonicalise_once(tree)
    before = ast.dump(tree)
    tree = split_cases(tree)
    if ast.dump(tree) != before:
        tree = _canonicalise_once(tree)
    return tree


def _fold_dict_of_pairs(tree):
    """module level: `X = dict(P)` with P a tuple display of (constant key, value) pairs -- written in place or bound once
    to a private module-level name -- is the dict display with these rows; the private name is dead when it was only
    there to be converted"""
    binds = {}
    for st in tree.body:
        if isinstance(st, ast.Assign) and len(st.targets) == 1 and isinstance(st.targets[0], ast.Name):
            binds.setdefault(st.targets[0].id, []).append(st)

    def pairs(e):
        if isinstance(e, ast.Name) and len(binds.get(e.id, ())) == 1 and isinstance(binds[e.id][0].value, ast.Tuple):
            e = binds[e.id][0].value
        if isinstance(e, (ast.Tuple, ast.List)) and e.elts and all(isinstance(x, ast.Tuple) and len(x.elts) == 2 and isinstance(x.elts[0], ast.Constant) and isinstance(x.elts[1], (ast.Name, ast.Attribute, ast.Constant)) for x in e.elts):
            if len({x.elts[0].value for x in e.elts}) == len(e.elts):
                return e
        return None

    changed = set()
    for st in tree.body:
        if isinstance(st, ast.Assign) and isinstance(st.value, ast.Call) and isinstance(st.value.func, ast.Name) and st.value.func.id == "dict" and len(st.value.args) == 1 and not st.value.keywords:
            src = st.value.args[0]
            if isinstance(src, ast.List):
                continue  # a list could have been aliased and mutated only when named; written in place it is handled below
            e = pairs(src)
            if e is None:
                continue
            idx = tree.body.index(st)
            if isinstance(src, ast.Name) and tree.body.index(binds[src.id][0]) > idx:
                continue
            st.value = _loc(ast.Dict(keys=[copy.deepcopy(x.elts[0]) for x in e.elts], values=[copy.deepcopy(x.elts[1]) for x in e.elts]), st.value)
            if isinstance(src, ast.Name):
                changed.add(src.id)
    if changed:
        loads = {}
        for n in ast.walk(tree):
            if isinstance(n, ast.Name) and isinstance(n.ctx, ast.Load):
                loads[n.id] = loads.get(n.id, 0) + 1
        exported = set()
        for st in tree.body:
            if isinstance(st, ast.Assign) and any(isinstance(t, ast.Name) and t.id == "__all__" for t in st.targets):
                exported |= {x.value for x in ast.walk(st.value) if isinstance(x, ast.Constant) and isinstance(x.value, str)}
        tree.body = [st for st in tree.body if not (isinstance(st, ast.Assign) and len(st.targets) == 1 and isinstance(st.targets[0], ast.Name) and st.targets[0].id in changed and st.targets[0].id.startswith("_") and not st.targets[0].id.startswith("__") and st.targets[0].id not in exported and loads.get(st.targets[0].id, 0) == 0)]
        ast.fix_missing_locations(tree)
    return tree


def _inline_bound_formats(tree):
    """module level: `_q = '"{}"'.format` (private, bound once, only ever called) -- `_q(x)` is `'"{}"'.format(x)`"""
    cands = {}
    for st in tree.body:
        if isinstance(st, ast.Assign) and len(st.targets) == 1 and isinstance(st.targets[0], ast.Name) and st.targets[0].id.startswith("_") and not st.targets[0].id.startswith("__") and isinstance(st.value, ast.Attribute) and st.value.attr == "format" and isinstance(st.value.value, ast.Constant) and isinstance(st.value.value.value, str):
            cands[st.targets[0].id] = st
    if not cands:
        return tree
    called = {id(n.func) for n in ast.walk(tree) if isinstance(n, ast.Call) and isinstance(n.func, ast.Name) and n.func.id in cands}
    for n in ast.walk(tree):
        if isinstance(n, ast.Name) and n.id in cands and id(n) not in called and not (isinstance(n.ctx, ast.Store) and any(n is c.targets[0] for c in cands.values())):
            cands.pop(n.id, None)
        if isinstance(n, (ast.Global, ast.Nonlocal)):
            for nm in n.names:
                cands.pop(nm, None)
    for st in tree.body:
        if isinstance(st, ast.Assign) and any(isinstance(t, ast.Name) and t.id == "__all__" for t in st.targets):
            for x in ast.walk(st.value):
                if isinstance(x, ast.Constant):
                    cands.pop(x.value, None)
    if not cands:
        return tree
    for n in ast.walk(tree):
        if isinstance(n, ast.Call) and isinstance(n.func, ast.Name) and n.func.id in cands:
            n.func = copy.deepcopy(cands[n.func.id].value)
    tree.body = [st for st in tree.body if not any(st is c for c in cands.values())]
    ast.fix_missing_locations(tree)
    return tree


def _fold_table_comprehensions(tree):
    """module level: `X = {K: V for a, b in T.items()}` (also `for a in T`, list / set forms over `T.items()` / `T.values()`)
    with T a module-level dict display that is bound once and never stored into is the display it evaluates to
    (row values are names, constants, tuples of these, or constructions of a class of this module: evaluating them again
    per use yields an equal value).  `(a, b)[0]` with plain elements is `a`."""
    classes = {s.name for s in tree.body if isinstance(s, ast.ClassDef)}
    binds = {}
    for s in tree.body:
        if isinstance(s, ast.Assign) and len(s.targets) == 1 and isinstance(s.targets[0], ast.Name):
            binds.setdefault(s.targets[0].id, []).append(s)
    stored = set()
    for n in ast.walk(tree):
        if isinstance(n, (ast.Subscript, ast.Attribute)) and isinstance(n.ctx, (ast.Store, ast.Del)) and isinstance(n.value, ast.Name):
            stored.add(n.value.id)
        if isinstance(n, ast.Call) and isinstance(n.func, ast.Attribute) and isinstance(n.func.value, ast.Name) and n.func.attr in ("update", "setdefault", "pop", "popitem", "clear", "__setitem__"):
            stored.add(n.func.value.id)
        if isinstance(n, (ast.Global, ast.Nonlocal)):
            stored |= set(n.names)

    def plain(e):
        if isinstance(e, (ast.Name, ast.Constant)):
            return True
        if isinstance(e, ast.Attribute):
            return plain(e.value)
        if isinstance(e, ast.Tuple):
            return all(plain(x) for x in e.elts)
        if isinstance(e, ast.Call) and isinstance(e.func, ast.Name) and e.func.id in classes and not e.keywords:
            return all(plain(x) for x in e.args)
        if isinstance(e, ast.Call) and isinstance(e.func, ast.Name) and e.func.id in classes:
            return all(plain(x) for x in e.args) and all(k.arg and plain(k.value) for k in e.keywords)
        return False

    def table(name):
        b = binds.get(name, [])
        if len(b) != 1 or name in stored or not isinstance(b[0].value, ast.Dict):
            return None
        d = b[0].value
        if not d.keys or len(d.keys) > 60 or any(k is None or not isinstance(k, ast.Constant) for k in d.keys) or not all(plain(v) for v in d.values):
            return None
        return d

    class Sub(ast.NodeTransformer):
        def __init__(self, m):
            self.m = m

        def visit_Name(self, n):
            if isinstance(n.ctx, ast.Load) and n.id in self.m:
                return copy.deepcopy(self.m[n.id])
            return n

    changed = False
    for s in tree.body:
        if not (isinstance(s, ast.Assign) and isinstance(s.value, (ast.DictComp, ast.ListComp, ast.SetComp)) and len(s.value.generators) == 1):
            continue
        c = s.value
        g = c.generators[0]
        if g.ifs or g.is_async:
            continue
        it = g.iter
        how = None
        if isinstance(it, ast.Call) and isinstance(it.func, ast.Attribute) and isinstance(it.func.value, ast.Name) and it.func.attr in ("items", "values", "keys") and not it.args and not it.keywords:
            tname, how = it.func.value.id, it.func.attr
        elif isinstance(it, ast.Name):
            tname, how = it.id, "keys"
        else:
            continue
        d = table(tname)
        if d is None or (binds.get(tname) and tree.body.index(binds[tname][0]) > tree.body.index(s)):
            continue
        rows = []
        ok = True
        for k, v in zip(d.keys, d.values):
            if how == "items" and isinstance(g.target, ast.Tuple) and len(g.target.elts) == 2 and all(isinstance(t, ast.Name) for t in g.target.elts):
                m = {g.target.elts[0].id: k, g.target.elts[1].id: v}
            elif how == "keys" and isinstance(g.target, ast.Name):
                m = {g.target.id: k}
            elif how == "values" and isinstance(g.target, ast.Name):
                m = {g.target.id: v}
            else:
                ok = False
                break
            if isinstance(c, ast.DictComp):
                rows.append((Sub(m).visit(copy.deepcopy(c.key)), Sub(m).visit(copy.deepcopy(c.value))))
            else:
                rows.append(Sub(m).visit(copy.deepcopy(c.elt)))
        if not ok:
            continue
        if isinstance(c, ast.DictComp):
            if not all(isinstance(k, ast.Constant) for k, _ in rows) or len({k.value for k, _ in rows}) != len(rows):
                continue
            s.value = _loc(ast.Dict(keys=[k for k, _ in rows], values=[v for _, v in rows]), c)
        elif isinstance(c, ast.ListComp):
            s.value = _loc(ast.List(elts=rows, ctx=ast.Load()), c)
        else:
            continue
        changed = True
    if changed:
        # a private table that was only there to be iterated is dead now
        loads = {}
        for n in ast.walk(tree):
            if isinstance(n, ast.Name) and isinstance(n.ctx, ast.Load):
                loads[n.id] = loads.get(n.id, 0) + 1
        exported = set()
        for st in tree.body:
            if isinstance(st, ast.Assign) and any(isinstance(t, ast.Name) and t.id == "__all__" for t in st.targets):
                exported |= {x.value for x in ast.walk(st.value) if isinstance(x, ast.Constant) and isinstance(x.value, str)}
        tree.body = [st for st in tree.body if not (isinstance(st, ast.Assign) and len(st.targets) == 1 and isinstance(st.targets[0], ast.Name) and st.targets[0].id.startswith("_") and not st.targets[0].id.startswith("__") and st.targets[0].id not in exported and isinstance(st.value, ast.Dict) and loads.get(st.targets[0].id, 0) == 0 and table(st.targets[0].id) is not None)]
        ast.fix_missing_locations(tree)
        tree = ExprCanon().visit(tree)
    return tree


_OPERATOR_IMPORTED = [set()]  # names imported from the operator module in the tree being canonicalised
_CAST_NAMES = [set(), set()]  # names bound to typing.cast / to the typing module in the tree being canonicalised


class _MatchToIf(ast.NodeTransformer):
    """`match S: case P1: A; case P2 if g: B; case _: C` over value / or / singleton / class-without-arguments / wildcard
    patterns is the if-chain of the equivalent tests (`S == v`, `S is None`, `isinstance(S, K)`), the subject evaluated
    once.  Anything else (sequence, mapping, capture patterns) is left alone."""

    _n = [0]
    _binds = []
    _name_counts = {}

    def visit_FunctionDef(self, node):
        saved = self._name_counts
        cnt = {}
        for x in ast.walk(node):
            if isinstance(x, ast.Name):
                cnt[x.id] = cnt.get(x.id, 0) + 1
            elif isinstance(x, ast.arg):
                cnt[x.arg] = cnt.get(x.arg, 0) + 1
            elif isinstance(x, ast.MatchAs) and x.name:
                cnt[x.name] = cnt.get(x.name, 0) + 1
        self._name_counts = cnt
        try:
            self.generic_visit(node)
        finally:
            self._name_counts = saved
        return node

    visit_AsyncFunctionDef = visit_FunctionDef

    def _test(self, subj, pat):
        if isinstance(pat, ast.MatchValue) and isinstance(pat.value, (ast.Constant, ast.Attribute)):
            return _loc(ast.Compare(left=copy.deepcopy(subj), ops=[ast.Eq()], comparators=[pat.value]), pat)
        if isinstance(pat, ast.MatchSingleton):
            return _loc(ast.Compare(left=copy.deepcopy(subj), ops=[ast.Is()], comparators=[_loc(ast.Constant(value=pat.value), pat)]), pat)
        if isinstance(pat, ast.MatchClass) and not pat.patterns and not pat.kwd_patterns and isinstance(pat.cls, (ast.Name, ast.Attribute)):
            return _loc(ast.Call(func=_loc(ast.Name(id="isinstance", ctx=ast.Load()), pat), args=[copy.deepcopy(subj), pat.cls], keywords=[]), pat)
        if isinstance(pat, ast.MatchOr):
            parts = [self._test(subj, q) for q in pat.patterns]
            if any(x is None for x in parts):
                return None
            if any(x is True for x in parts):
                return True
            return _loc(ast.BoolOp(op=ast.Or(), values=parts), pat)
        if isinstance(pat, ast.MatchAs) and pat.pattern is None and pat.name is None:
            return True
        if isinstance(pat, ast.MatchAs) and (isinstance(subj, ast.Name) or _pure_lookup(subj)):
            # `case P as name` / `case name`: the test of P (always true for a bare capture) and `name = <subject>`
            inner = True if pat.pattern is None else self._test(subj, pat.pattern)
            if inner is None:
                return None
            self._binds.append((pat.name, subj))
            return inner
        if isinstance(pat, ast.MatchSequence) and isinstance(subj, ast.Tuple) and len(pat.patterns) == len(subj.elts) and not any(isinstance(q, ast.MatchStar) for q in pat.patterns):
            # the subject is a display of that many elements: the sequence pattern is the conjunction of its parts
            parts = [self._test(e, q) for e, q in zip(subj.elts, pat.patterns)]
            if any(x is None for x in parts):
                return None
            parts = [x for x in parts if x is not True]
            if not parts:
                return True
            return parts[0] if len(parts) == 1 else _loc(ast.BoolOp(op=ast.And(), values=parts), pat)
        return None

    def visit_Match(self, node):
        self.generic_visit(node)
        pre = []
        subj = node.subject
        if isinstance(subj, ast.Tuple) and all(isinstance(e, ast.Name) for e in subj.elts):
            pass
        elif isinstance(subj, ast.Tuple) and not any(isinstance(e, ast.Starred) for e in subj.elts):
            elts = []
            for e in subj.elts:
                if isinstance(e, ast.Name):
                    elts.append(e)
                else:
                    self._n[0] += 1
                    nm = f"match__s{self._n[0]}"
                    pre.append(_loc(ast.Assign(targets=[_loc(ast.Name(id=nm, ctx=ast.Store()), node)], value=e), node))
                    elts.append(_loc(ast.Name(id=nm, ctx=ast.Load()), node))
            subj = _loc(ast.Tuple(elts=elts, ctx=ast.Load()), node)
        elif isinstance(subj, ast.NamedExpr):
            pass
        elif _pure_lookup(subj) and not isinstance(subj, ast.Constant):
            pass  # a plain lookup: evaluated again by each test it is the same object (nothing runs between the tests)
        elif not isinstance(subj, ast.Name):
            if True:
                self._n[0] += 1
                nm = f"match__s{self._n[0]}"
                # a case that captures the subject under a name gives the temporary that name (when the match statement
                # is the only place of the enclosing module part that uses it)
                caps = {c.pattern.name for c in node.cases if isinstance(c.pattern, ast.MatchAs) and c.pattern.pattern is None and c.pattern.name}
                if len(caps) == 1:
                    cap = next(iter(caps))
                    inside = sum(1 for x in ast.walk(node) if (isinstance(x, ast.Name) and x.id == cap) or (isinstance(x, ast.MatchAs) and x.name == cap))
                    total = self._name_counts.get(cap, 0)
                    if total <= inside:
                        nm = cap
                pre.append(_loc(ast.Assign(targets=[_loc(ast.Name(id=nm, ctx=ast.Store()), node)], value=subj), node))
                subj = _loc(ast.Name(id=nm, ctx=ast.Load()), node)
        if isinstance(subj, ast.NamedExpr) and isinstance(subj.target, ast.Name):
            pre.append(_loc(ast.Assign(targets=[_loc(ast.Name(id=subj.target.id, ctx=ast.Store()), node)], value=subj.value), node))
            subj = _loc(ast.Name(id=subj.target.id, ctx=ast.Load()), node)
        tests = []
        for c in node.cases:
            self._binds = []
            t = self._test(subj, c.pattern)
            if t is None:
                return node
            if self._binds:
                if isinstance(c.pattern, ast.MatchOr) or len(self._binds) > 1:
                    return node
                nm, sj = self._binds[0]
                bind = _loc(ast.Assign(targets=[_loc(ast.Name(id=nm, ctx=ast.Store()), c.pattern)], value=copy.deepcopy(sj)), c.pattern)
                if c.guard is not None and any(isinstance(x, ast.Name) and x.id == nm for x in ast.walk(c.guard)):
                    # the guard reads the captured name: it is the subject
                    if any(isinstance(x, (ast.NamedExpr, ast.Lambda, ast.GeneratorExp, ast.ListComp, ast.SetComp, ast.DictComp)) for x in ast.walk(c.guard)):
                        return node
                    c.guard = _SubstNames({nm: sj}).visit(copy.deepcopy(c.guard))
                c.body = [bind] + list(c.body)
            tests.append(t)
        chain = None
        for c, t in reversed(list(zip(node.cases, tests))):
            if t is True and c.guard is None:
                chain = list(c.body)
                continue
            cond = c.guard if t is True else (t if c.guard is None else _loc(ast.BoolOp(op=ast.And(), values=[t, c.guard]), c.pattern))
            chain = [_loc(ast.If(test=cond, body=list(c.body), orelse=chain or []), c.pattern)]
        out = pre + (chain or [_loc(ast.Pass(), node)])
        for x in out:
            ast.fix_missing_locations(x)
        return out


def _canonicalise_once(tree):
    # module level: `X: T = v` is `X = v` (the annotation of a module-level name is not behaviour)
    tree.body = [(_loc(ast.Assign(targets=[st.target], value=st.value), st) if isinstance(st, ast.AnnAssign) and st.value is not None and isinstance(st.target, ast.Name) else st) for st in tree.body]
    if any(isinstance(n, ast.Match) for n in ast.walk(tree)):
        tree = _MatchToIf().visit(tree)
        ast.fix_missing_locations(tree)
    _CAST_NAMES[0], _CAST_NAMES[1] = set(), set()
    _OPERATOR_IMPORTED[0] = {a.asname or a.name for n in ast.walk(tree) if isinstance(n, ast.ImportFrom) and n.module == "operator" and n.level == 0 for a in n.names if a.asname is None}
    for n in ast.walk(tree):
        if isinstance(n, ast.ImportFrom) and n.module in ("typing", "typing_extensions") and n.level == 0:
            _CAST_NAMES[0] |= {a.asname or a.name for a in n.names if a.name == "cast"}
        elif isinstance(n, ast.Import):
            _CAST_NAMES[1] |= {a.asname or a.name for a in n.names if a.name in ("typing", "typing_extensions")}
    tree = _fold_dict_of_pairs(tree)
    tree = _fold_table_comprehensions(tree)
    tree = _inline_bound_formats(tree)
    tree = ExprCanon().visit(tree)
    tree = _Tests().visit(tree)
    tree.body = [canon_stmt(s) for s in tree.body]
    # module level: only the loops over literal tables are normalised (registrations)
    if any(isinstance(s, ast.For) for s in tree.body):
        tree.body = _unroll_literal_loops(tree.body)
    ast.fix_missing_locations(tree)
    return tree
