"""CLI: python -m sa.run <ID> [--tier quick|thorough] [--replay FILE]

Exit 0: every structural obligation discharged (known findings printed as KNOWN-FINDING).
Exit 1: `VIOLATION property=<id> replay=<path>` for a violation not listed in known_findings.json.
Exit 2: `ANALYSIS-ERROR ...` (missing anchor, unrecognised construct, floor not met, traceback).
"""
import argparse
import importlib
import json
import os
import sys
import time
import traceback

from .loader import Program, AnalysisError
from . import report

BASE_ASSUMPTIONS = [
    "CPython ast parses the package faithfully; Python evaluation order",
    "the pure-Python implementation (_x_py modules) is the build under test; Cython .pyx mirrors are not analysed",
    "call graph: class-hierarchy analysis inside the package, sound while the dynamic-feature census stays clean",
    "frozen specification tables under sa/spec transcribed from the Avro 1.11 specification",
    "third-party codec libraries and stdlib internals are not analysed",
]


def repo_path():
    return os.environ.get("VERIF_REPO", "/repo")


def run_property(prop, tier, program=None, quiet=False):
    """Run all rules of a property on a Program, return the Ctx (no output)."""
    mod = importlib.import_module(f"rules.{prop.lower()}")
    if program is None:
        program = Program.from_dir(repo_path())
    ctx = report.Ctx(program, prop, tier)
    mod.run(ctx)
    if tier == "thorough" and hasattr(mod, "thorough"):
        mod.thorough(ctx)
    return ctx, mod


def main(argv=None):
    ap = argparse.ArgumentParser()
    ap.add_argument("prop")
    ap.add_argument("--tier", default=os.environ.get("VERIF_TIER", "quick"), choices=["quick", "thorough"])
    ap.add_argument("--replay")
    args = ap.parse_args(argv)
    prop = args.prop.upper()
    t0 = time.time()
    try:
        seed = int(os.environ.get("VERIF_SEED", "0"))
    except ValueError:
        seed = 0
    try:
        ctx, mod = run_property(prop, args.tier)
        if hasattr(mod, "builtin_examples"):
            ctx.builtin = True
            try:
                mod.builtin_examples(ctx)
            finally:
                ctx.builtin = False
        if args.replay:
            with open(args.replay) as fh:
                want = json.load(fh)["key"]
            hit = [o for o in ctx.violations() if report.finding_key(prop, o) == want]
            if hit:
                o = hit[0]
                print(f"VIOLATION property={prop} replay={args.replay}")
                print(f"  rule={o['rule']} instance={o['instance']} at {o['where']}\n  construct: {o['construct']}\n  why: {o['detail']}")
                return 1
            print(f"[{prop}] replayed finding no longer present on the current tree")
            return 0
        assumptions = BASE_ASSUMPTIONS + list(getattr(mod, "ASSUMPTIONS", []))
        return report.finish(ctx, t0, seed, assumptions, getattr(mod, "TECHNIQUE", "ast rules"))
    except AnalysisError as e:
        print(f"ANALYSIS-ERROR property={prop} {e}")
        _error_evidence(prop, args.tier, seed, t0, str(e))
        return 2
    except Exception:
        traceback.print_exc()
        print(f"ANALYSIS-ERROR property={prop} internal error (traceback above)")
        _error_evidence(prop, args.tier, seed, t0, "internal error")
        return 2


def _error_evidence(prop, tier, seed, t0, msg):
    d = os.path.join(report.VERIF, "evidence")
    os.makedirs(d, exist_ok=True)
    ev = {
        "property_id": prop,
        "tier": tier,
        "seed": seed,
        "level": "other",
        "coverage": {"explanation": f"analysis could not be carried out: {msg}", "evaluations": 1, "distinct_nontrivial": 0, "analysis_errors": [msg]},
        "wall_s": round(time.time() - t0, 3),
        "violations": 0,
    }
    with open(os.path.join(d, f"{prop}.json"), "w") as fh:
        json.dump(ev, fh, indent=1)


if __name__ == "__main__":
    sys.exit(main())
