"""CLI: python -m sa.run <ID> [--tier quick|thorough] [--replay FILE]

Exit 0: every structural obligation discharged (known findings printed as KNOWN-FINDING).
Exit 1: `VIOLATION property=<id> replay=<path>` for a violation not listed in known_findings.json.
Exit 2: `ANALYSIS-ERROR ...` (missing anchor, unrecognised construct, floor not met, traceback).
"""
import argparse
import importlib
import json
import os
import sys
import time
import traceback

from .loader import Program, AnalysisError
from . import report

BASE_ASSUMPTIONS = [
    "CPython ast parses the package faithfully; Python evaluation order",
    "the pure-Python implementation (_x_py modules) is the build under test; Cython .pyx mirrors are not analysed",
    "call graph: class-hierarchy analysis inside the package, sound while the dynamic-feature census stays clean",
    "frozen specification tables under sa/spec transcribed from the Avro 1.11 specification",
    "third-party codec libraries and stdlib internals are not analysed",
]


def repo_path():
    return os.environ.get("VERIF_REPO", "/repo")


def run_property(prop, tier, program=None, quiet=False):
    """Run all rules of a property on a Program, return the Ctx (no output)."""
    mod = importlib.import_module(f"rules.{prop.lower()}")
    if program is None:
        program = Program.from_dir(repo_path())
    ctx = report.Ctx(program, prop, tier)
    try:
        mod.run(ctx)
    except AnalysisError as e:
        # an anchor vanished half way: what was decided before stays decided (violations are still reported),
        # the rest of the property is undecided -> ANALYSIS-ERROR, never a silent pass
        ctx.unrecognised(prop + ".anchor", "analysis could not continue", "", str(e))
    if tier == "thorough" and hasattr(mod, "thorough"):
        mod.thorough(ctx)
    return ctx, mod


def _replay_seeded(job):
    """one seeded change re-analysed on a patched scratch copy (worker process)"""
    import shutil
    import subprocess
    import tempfile

    prop, name, patch, repo = job
    tmp = tempfile.mkdtemp(prefix="verif-thorough-")
    try:
        shutil.copytree(os.path.join(repo, "fastavro"), os.path.join(tmp, "fastavro"), ignore=shutil.ignore_patterns("__pycache__", "*.pyx", "*.so"))
        r = subprocess.run(["patch", "-p1", "-s", "-i", patch], cwd=tmp, capture_output=True, text=True)
        if r.returncode != 0:
            return name, "no-apply", []
        vctx, _ = run_property(prop, "quick", Program.from_dir(tmp))
        return name, "ok", sorted({o["rule"] for o in vctx.violations()})
    finally:
        shutil.rmtree(tmp, ignore_errors=True)


def thorough_extras(ctx, prop):
    """Thorough tier: (1) sensitivity witnesses - every firing variant of the self-test corpus that
    targets this property must flip the verdict to VIOLATION at the expected rule, every silent
    (behaviour-preserving) variant must leave it untouched; (2) every confirmed seeded mutant that
    this property's rules are recorded to catch is re-analysed on a patched scratch copy and must
    still be caught; (3) path enumeration (loops taken 0/1/2 times) over the functions whose CFG the
    rules of this property consult.  All of it analyses variants of the source; nothing is executed."""
    import json as _json
    import shutil
    import subprocess
    import tempfile

    errors = []
    # (1) self-test corpus
    from selftest.run_selftest import run as run_selftest

    results, dt = run_selftest([prop])
    fire_ok = sum(1 for r in results if r[1] == "fire" and r[2] == "OK")
    silent_ok = sum(1 for r in results if r[1] == "silent" and r[2] == "OK")
    skipped = [r[0] for r in results if r[2] == "SKIPPED"]
    for vid, kind, status, detail, _ in results:
        if status == "FAILED":
            errors.append(f"self-test variant {vid} ({kind}): {detail}")
    ctx.extra["sensitivity_witnesses"] = {
        "firing_variants_flipped": fire_ok,
        "silent_variants_silent": silent_ok,
        "skipped_edit_site_absent": skipped,
        "wall_s": round(dt, 1),
        "samples": [f"{r[0]} [{r[1]}]: {r[3]}" for r in results[:6]],
    }
    # (2) seeded mutants recorded as caught by this property
    seeded_dir = os.path.join(report.VERIF, "seeded")
    replayed, lost = [], []
    try:
        matrix = _json.load(open(os.path.join(seeded_dir, "RESULTS.json")))
    except Exception:
        matrix = {}
    jobs = [(prop, name, os.path.join(seeded_dir, name, "patch.diff"), repo_path()) for name, rec in sorted(matrix.items()) if any(f.startswith(prop + ".") for f in rec.get("fired", []))]
    if jobs:
        from concurrent.futures import ProcessPoolExecutor

        with ProcessPoolExecutor(max_workers=min(16, os.cpu_count() or 4, len(jobs))) as ex:
            for name, status, rules_now in ex.map(_replay_seeded, jobs):
                if status == "no-apply":
                    ctx.note(prop + ".seeded", f"seeded mutant {name} no longer applies to the tree (skipped)")
                elif rules_now:
                    replayed.append(f"{name}: {rules_now}")
                else:
                    lost.append(name)
    for name in lost:
        errors.append(f"seeded mutant {name} was recorded as caught by {prop} but is no longer reported")
    ctx.extra["seeded_mutants_replayed"] = replayed
    # (3) path enumeration over the functions whose statements the obligations point at
    from .cfg import cfg_of

    funcs = {}
    for o in ctx.obligations:
        w = o["where"].split(":")
        if len(w) >= 2 and w[0].endswith(".py"):
            short = w[0][len("fastavro/"):-3].replace("/", ".")
            f = ctx.program.maybe_func(f"{short}:{w[1]}")
            if f is not None:
                funcs[f.id] = f
    stats = {}
    total = 0
    for fid, f in sorted(funcs.items())[:60]:
        cfg = cfg_of(f)
        n_exit = len(cfg.paths(cfg.entry, cfg.exit, max_paths=5000))
        n_raise = len(cfg.paths(cfg.entry, cfg.raise_exit, max_paths=5000))
        stats[fid] = {"nodes": len(cfg.nodes), "paths_to_return": n_exit, "paths_to_raise": n_raise}
        total += n_exit + n_raise
    ctx.extra["paths_enumerated"] = {"functions": len(stats), "paths": total, "loop_bound": 2, "per_function": stats}
    return errors


def main(argv=None):
    ap = argparse.ArgumentParser()
    ap.add_argument("prop")
    ap.add_argument("--tier", default=os.environ.get("VERIF_TIER", "quick"), choices=["quick", "thorough"])
    ap.add_argument("--replay")
    args = ap.parse_args(argv)
    prop = args.prop.upper()
    t0 = time.time()
    try:
        seed = int(os.environ.get("VERIF_SEED", "0"))
    except ValueError:
        seed = 0
    try:
        ctx, mod = run_property(prop, args.tier)
        if args.tier == "thorough" and not args.replay:
            for e in thorough_extras(ctx, prop):
                ctx.unrecognised(prop + ".selftest", "thorough tier self-test", "", e)
        if hasattr(mod, "builtin_examples"):
            ctx.builtin = True
            try:
                mod.builtin_examples(ctx)
            finally:
                ctx.builtin = False
        if args.replay:
            with open(args.replay) as fh:
                want = json.load(fh)["key"]
            hit = [o for o in ctx.violations() if report.finding_key(prop, o) == want]
            if hit:
                o = hit[0]
                print(f"VIOLATION property={prop} replay={args.replay}")
                print(f"  rule={o['rule']} instance={o['instance']} at {o['where']}\n  construct: {o['construct']}\n  why: {o['detail']}")
                return 1
            print(f"[{prop}] replayed finding no longer present on the current tree")
            return 0
        assumptions = BASE_ASSUMPTIONS + list(getattr(mod, "ASSUMPTIONS", []))
        return report.finish(ctx, t0, seed, assumptions, getattr(mod, "TECHNIQUE", "ast rules"))
    except AnalysisError as e:
        print(f"ANALYSIS-ERROR property={prop} {e}")
        _error_evidence(prop, args.tier, seed, t0, str(e))
        return 2
    except Exception:
        traceback.print_exc()
        print(f"ANALYSIS-ERROR property={prop} internal error (traceback above)")
        _error_evidence(prop, args.tier, seed, t0, "internal error")
        return 2


def _error_evidence(prop, tier, seed, t0, msg):
    d = os.path.join(report.VERIF, "evidence")
    os.makedirs(d, exist_ok=True)
    ev = {
        "property_id": prop,
        "tier": tier,
        "seed": seed,
        "level": "other",
        "coverage": {"explanation": f"analysis could not be carried out: {msg}", "evaluations": 1, "distinct_nontrivial": 0, "analysis_errors": [msg]},
        "wall_s": round(time.time() - t0, 3),
        "violations": 0,
    }
    with open(os.path.join(d, f"{prop}.json"), "w") as fh:
        json.dump(ev, fh, indent=1)


if __name__ == "__main__":
    sys.exit(main())
