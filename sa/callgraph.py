"""Resolved call graph (class-hierarchy analysis inside the package).

Edges: direct calls of resolved names; ``self.m()`` through the class, its
package-local bases and overriding subclasses; protocol calls
``encoder.m()`` / ``decoder.m()`` / ``self.encoder.m()`` through the classes the
receiver may hold (annotations, constructor assignments, isinstance tests and
the frozen role-name table); via-table edges (``fn = T.get(x); fn(...)``);
stored callables (``self.block_writer = BLOCK_WRITERS[codec]``); constructor
calls -> ``__init__``; ``super().m()``.

The dynamic-feature census (``census``) is the soundness prerequisite.
"""
import ast

from .loader import walk_local, norm, AnalysisError
from .tables import load_table

# parameter names that denote a protocol role (frozen, confirmed by reading)
ROLE_NAMES = {
    "encoder": ["io.binary_encoder:BinaryEncoder", "io.json_encoder:AvroJSONEncoder"],
    "decoder": ["io.binary_decoder:BinaryDecoder", "io.json_decoder:AvroJSONDecoder"],
}

# method names that exist on stdlib containers / streams / scalars: with an
# unknown receiver they are treated as external calls, not package calls
GENERIC_METHODS = {
    "get", "items", "keys", "values", "append", "extend", "insert", "pop", "popitem", "remove", "clear",
    "update", "setdefault", "add", "discard", "sort", "reverse", "index", "count", "copy", "split", "rsplit",
    "encode", "decode", "join", "format", "strip", "startswith", "endswith", "read", "write", "seek", "tell",
    "flush", "close", "truncate", "getvalue", "seekable", "readable", "writable", "readline", "hex",
    "to_bytes", "bit_length", "as_tuple", "intersection", "union", "fullmatch", "match", "replace",
    "toordinal", "timetuple", "hexdigest", "create_decimal", "scaleb", "decompress", "compress",
    "decompressobj", "fromordinal", "fromisoformat", "from_bytes", "lower", "upper", "isoformat",
}

DYNAMIC_BUILTINS = {"eval", "exec", "setattr", "delattr", "globals", "vars", "__import__", "compile"}
DECORATOR_WHITELIST = {"property", "abstractmethod", "staticmethod", "classmethod"}


class CallSite:
    def __init__(self, caller, node, targets, kind, external=None):
        self.caller = caller
        self.node = node
        self.targets = targets  # [FuncInfo]
        self.kind = kind  # direct | method | table | stored | ctor | super | cha | external | unresolved
        self.external = external  # dotted name when external
        self.ctor_of = None  # ClassInfo when the call constructs an instance


class CallGraph:
    def __init__(self, program):
        self.p = program
        self._local_types = {}
        self._attr_types = {}
        self._tables = {}
        self.sites = {}  # func id -> [CallSite]
        self.by_node = {}  # id(call node) -> CallSite
        self.callers = {}  # func id -> [CallSite]
        self.instantiations = {}  # class id -> [CallSite]
        self._build()

    # ------------------------------------------------------------------ types
    def _classes_from_annotation(self, mod, ann):
        out = []
        if ann is None:
            return out
        for n in ast.walk(ann):
            if isinstance(n, (ast.Name, ast.Attribute)):
                r = self.p.resolve_expr(mod, n)
                if r and r[0] == "class" and r[1] not in out:
                    out.append(r[1])
            elif isinstance(n, ast.Constant) and isinstance(n.value, str):
                r = self.p.resolve(mod, n.value)
                if r and r[0] == "class" and r[1] not in out:
                    out.append(r[1])
        return out

    def local_types(self, f):
        if f.id in self._local_types:
            return self._local_types[f.id]
        env = {}
        self._local_types[f.id] = env

        def add(name, classes):
            if classes:
                cur = env.setdefault(name, [])
                for c in classes:
                    if c not in cur:
                        cur.append(c)

        a = f.node.args
        allp = a.posonlyargs + a.args + a.kwonlyargs
        defaults = f.param_defaults()
        for p in allp:
            add(p.arg, self._classes_from_annotation(f.mod, p.annotation))
            if p.arg in ROLE_NAMES:
                add(p.arg, [self.p.cls(c) for c in ROLE_NAMES[p.arg] if self._has_cls(c)])
        if f.cls is not None and f.pos_params[:1] == ["self"]:
            add("self", [f.cls])
        if f.parent is not None:
            for k, v in self.local_types(f.parent).items():
                if k not in env:
                    add(k, v)
        # two passes so that x = y chains settle
        for _ in range(2):
            for n in walk_local(f.node):
                if isinstance(n, ast.Assign) and len(n.targets) == 1 and isinstance(n.targets[0], ast.Name):
                    add(n.targets[0].id, self.expr_types(f, n.value, env))
                elif isinstance(n, ast.AnnAssign) and isinstance(n.target, ast.Name):
                    add(n.target.id, self._classes_from_annotation(f.mod, n.annotation))
                    if n.value is not None:
                        add(n.target.id, self.expr_types(f, n.value, env))
                elif isinstance(n, ast.Call) and isinstance(n.func, ast.Name) and n.func.id == "isinstance" and len(n.args) == 2:
                    if isinstance(n.args[0], ast.Name):
                        add(n.args[0].id, self._classes_from_annotation(f.mod, n.args[1]))
        # a parameter whose default is a package class holds that class itself, not an instance:
        for pname, d in defaults.items():
            pass
        return env

    def _has_cls(self, cid):
        try:
            self.p.cls(cid)
            return True
        except AnalysisError:
            return False

    def expr_types(self, f, e, env=None):
        """Package classes an expression's value may be an instance of."""
        env = self.local_types(f) if env is None else env
        if isinstance(e, ast.Name):
            return list(env.get(e.id, []))
        if isinstance(e, ast.Attribute):
            base = self.expr_types(f, e.value, env)
            out = []
            for c in base:
                for t in self.attr_types(c, e.attr):
                    if t not in out:
                        out.append(t)
            return out
        if isinstance(e, ast.Call):
            out = []
            for t in self._callee_classes(f, e.func, env):
                if t not in out:
                    out.append(t)
            return out
        if isinstance(e, ast.IfExp):
            return self.expr_types(f, e.body, env) + [t for t in self.expr_types(f, e.orelse, env)]
        if isinstance(e, ast.BoolOp):
            out = []
            for v in e.values:
                for t in self.expr_types(f, v, env):
                    if t not in out:
                        out.append(t)
            return out
        return []

    def _callee_classes(self, f, fn, env):
        """classes constructed by calling `fn`"""
        if isinstance(fn, (ast.Name, ast.Attribute)):
            if isinstance(fn, ast.Name):
                # parameter with a class default (decoder=AvroJSONDecoder)
                d = self._param_default(f, fn.id)
                if d is not None:
                    r = self.p.resolve_expr(f.mod, d)
                    if r and r[0] == "class":
                        return [r[1]]
            r = self.p.resolve_expr(f.mod, fn)
            if r and r[0] == "class":
                return [r[1]]
        return []

    def _param_default(self, f, name):
        g = f
        while g is not None:
            if name in g.params:
                return g.param_defaults().get(name)
            g = g.parent
        return None

    def attr_types(self, ci, attr):
        key = (ci.id, attr)
        if key in self._attr_types:
            return self._attr_types[key]
        out = []
        self._attr_types[key] = out
        fam = self.p.mro(ci) + self.p.subclasses(ci)
        for c in fam:
            for m in set(c.methods.values()):
                for n in walk_local(m.node):
                    if isinstance(n, ast.Assign):
                        for t in n.targets:
                            if isinstance(t, ast.Attribute) and isinstance(t.value, ast.Name) and t.value.id == "self" and t.attr == attr:
                                for cl in self.expr_types(m, n.value):
                                    if cl not in out:
                                        out.append(cl)
        return out

    # ---------------------------------------------------------------- tables
    def table_of(self, mod, expr):
        """expr is T.get(k) / T[k] with T a dispatch table -> Table or None"""
        base = None
        if isinstance(expr, ast.Call) and isinstance(expr.func, ast.Attribute) and expr.func.attr == "get":
            base = expr.func.value
        elif isinstance(expr, ast.Subscript):
            base = expr.value
        if base is None or not isinstance(base, (ast.Name, ast.Attribute)):
            return None
        r = self.p.resolve_expr(mod, base)
        if r and r[0] == "value" and isinstance(r[2], ast.Dict):
            key = (r[1].name, id(r[2]))
            if key not in self._tables:
                name = norm(base).split(".")[-1]
                try:
                    self._tables[key] = load_table(self.p, mod, name) if isinstance(base, ast.Name) else load_table(self.p, r[1], self._lit_name(r[1], r[2]))
                except AnalysisError:
                    self._tables[key] = None
            t = self._tables[key]
            if t is not None and t.all_funcs():
                return t
        return None

    def _lit_name(self, mod, lit):
        for n, vals in mod.assigns.items():
            if any(v is lit for v in vals):
                return n
        raise AnalysisError("literal without a name")

    # ------------------------------------------------------- callable values
    def callable_values(self, f, e, depth=0):
        """FuncInfos an expression may evaluate to (as a callable)."""
        out = []
        if depth > 6:
            return out

        def add(xs):
            for x in xs:
                if x not in out:
                    out.append(x)

        if isinstance(e, ast.IfExp):
            add(self.callable_values(f, e.body, depth + 1))
            add(self.callable_values(f, e.orelse, depth + 1))
            return out
        if isinstance(e, ast.BoolOp):
            for v in e.values:
                add(self.callable_values(f, v, depth + 1))
            return out
        t = self.table_of(f.mod, e)
        if t is not None:
            add(t.all_funcs())
            return out
        if isinstance(e, ast.Name):
            g = f
            while g is not None:
                if e.id in g.nested:
                    add(g.nested[e.id])
                    return out
                g = g.parent
            # local assignments
            found_local = False
            for n in walk_local(f.node):
                if isinstance(n, ast.Assign):
                    for tg in n.targets:
                        if isinstance(tg, ast.Name) and tg.id == e.id and n.value is not e:
                            found_local = True
                            add(self.callable_values(f, n.value, depth + 1))
            if found_local:
                return out
            if e.id in f.params or (f.parent and e.id in f.parent.params):
                d = self._param_default(f, e.id)
                if d is not None:
                    add(self.callable_values(f, d, depth + 1))
                # bound from call sites of f
                for cs in self.callers.get(f.id, []):
                    arg = bind_args(f, cs.node, ctor=cs.ctor_of is not None or cs.kind in ("method", "super")).get(e.id)
                    if arg is not None:
                        add(self.callable_values(cs.caller, arg, depth + 1))
                return out
            r = self.p.resolve(f.mod, e.id)
            if r:
                if r[0] == "func":
                    add([r[1]])
                elif r[0] == "class":
                    init = self.p.find_method(r[1], "__init__")
                    if init:
                        add([init])
                elif r[0] == "multi":
                    for v in r[2]:
                        if isinstance(v, (ast.Name, ast.Attribute)):
                            ff = self.p.resolve_func(r[1], v)
                            if ff:
                                add([ff])
            return out
        if isinstance(e, ast.Attribute):
            # bound method self.do_action, module.func
            r = self.p.resolve_expr(f.mod, e)
            if r and r[0] == "func":
                add([r[1]])
                return out
            for c in self.expr_types(f, e.value):
                m = self.p.find_method(c, e.attr)
                if m:
                    add([m])
                    for sc in self.p.subclasses(c):
                        if e.attr in sc.methods:
                            add([sc.methods[e.attr]])
                else:
                    add(self.stored_callables(c, e.attr, depth + 1))
            return out
        return out

    def stored_callables(self, ci, attr, depth=0):
        out = []
        fam = self.p.mro(ci) + self.p.subclasses(ci)
        for c in fam:
            for m in set(c.methods.values()):
                for n in walk_local(m.node):
                    if isinstance(n, ast.Assign):
                        for t in n.targets:
                            if isinstance(t, ast.Attribute) and isinstance(t.value, ast.Name) and t.value.id == "self" and t.attr == attr:
                                for x in self.callable_values(m, n.value, depth + 1):
                                    if x not in out:
                                        out.append(x)
        return out

    # ----------------------------------------------------------------- build
    def _build(self):
        funcs = self.p.all_functions()
        # pass 1 resolves everything that does not need caller information; pass 2
        # re-resolves callables that flow through parameters (action_function)
        for rnd in range(2):
            self.sites = {}
            self.by_node = {}
            new_callers = {}
            self.instantiations = {}
            for f in funcs:
                lst = []
                for n in walk_local(f.node):
                    if isinstance(n, ast.Call):
                        cs = self._resolve_call(f, n)
                        lst.append(cs)
                        self.by_node[id(n)] = cs
                        for t in cs.targets:
                            new_callers.setdefault(t.id, []).append(cs)
                        if cs.ctor_of is not None:
                            self.instantiations.setdefault(cs.ctor_of.id, []).append(cs)
                self.sites[f.id] = lst
            self.callers = new_callers
        # module-level calls (import time) are recorded under '<module>' pseudo ids
        self.module_sites = {}
        for m in self.p.modules.values():
            lst = []
            for stmt, ctx in m.toplevel_stmts:
                if isinstance(stmt, (ast.FunctionDef, ast.ClassDef, ast.Try, ast.If, ast.With)):
                    continue
                for n in ast.walk(stmt):
                    if isinstance(n, ast.Call):
                        lst.append(n)
            self.module_sites[m.name] = lst

    def _resolve_call(self, f, call):
        fn = call.func
        p = self.p
        # super().m(...)
        if (
            isinstance(fn, ast.Attribute)
            and isinstance(fn.value, ast.Call)
            and isinstance(fn.value.func, ast.Name)
            and fn.value.func.id == "super"
            and f.cls is not None
        ):
            for b in p.mro(f.cls)[1:]:
                if fn.attr in b.methods:
                    return CallSite(f, call, [b.methods[fn.attr]], "super")
            return CallSite(f, call, [], "external", "super()." + fn.attr)
        if isinstance(fn, ast.Name):
            # nested defs, locals holding callables, params
            vals = self.callable_values(f, fn)
            local_bound = self._is_local_binding(f, fn.id)
            if vals:
                kind = "direct"
                ctor = None
                if not local_bound:
                    r = p.resolve(f.mod, fn.id)
                    if r and r[0] == "class":
                        kind, ctor = "ctor", r[1]
                else:
                    kind = "table" if any(self.table_of(f.mod, v) for v in self._local_values(f, fn.id)) else "stored"
                    d = self._param_default(f, fn.id)
                    if d is not None:
                        r = p.resolve_expr(f.mod, d)
                        if r and r[0] == "class":
                            kind, ctor = "ctor", r[1]
                cs = CallSite(f, call, vals, kind)
                cs.ctor_of = ctor
                return cs
            if local_bound:
                return CallSite(f, call, [], "unresolved", fn.id)
            r = p.resolve(f.mod, fn.id)
            if r and r[0] == "class":
                cs = CallSite(f, call, [], "ctor")
                cs.ctor_of = r[1]
                return cs
            if r and r[0] == "external":
                return CallSite(f, call, [], "external", r[1])
            return CallSite(f, call, [], "external", fn.id)  # builtin
        if isinstance(fn, ast.Attribute):
            r = p.resolve_expr(f.mod, fn)
            if r:
                if r[0] == "func":
                    return CallSite(f, call, [r[1]], "direct")
                if r[0] == "class":
                    init = p.find_method(r[1], "__init__")
                    cs = CallSite(f, call, [init] if init else [], "ctor")
                    cs.ctor_of = r[1]
                    return cs
                if r[0] == "external":
                    return CallSite(f, call, [], "external", r[1])
            types = self.expr_types(f, fn.value)
            if types:
                targets = []
                for c in types:
                    m = p.find_method(c, fn.attr)
                    if m is not None:
                        if m not in targets:
                            targets.append(m)
                        for sc in p.subclasses(c):
                            if fn.attr in sc.methods and sc.methods[fn.attr] not in targets:
                                targets.append(sc.methods[fn.attr])
                    else:
                        for x in self.stored_callables(c, fn.attr):
                            if x not in targets:
                                targets.append(x)
                if targets:
                    kind = "method"
                    if not any(p.find_method(c, fn.attr) for c in types):
                        kind = "stored"
                    return CallSite(f, call, targets, kind)
                return CallSite(f, call, [], "external", norm(fn))
            # unknown receiver
            if fn.attr in GENERIC_METHODS:
                return CallSite(f, call, [], "external", norm(fn))
            targets = []
            for c in p.all_classes():
                if fn.attr in c.methods and c.methods[fn.attr] not in targets:
                    targets.append(c.methods[fn.attr])
            if targets:
                return CallSite(f, call, targets, "cha")
            return CallSite(f, call, [], "external", norm(fn))
        # call of a call / subscript: T[k](...)
        vals = self.callable_values(f, fn)
        if vals:
            return CallSite(f, call, vals, "table")
        return CallSite(f, call, [], "unresolved", norm(fn))

    def _is_local_binding(self, f, name):
        g = f
        while g is not None:
            if name in g.params or name in g.nested:
                return True
            for n in walk_local(g.node):
                if isinstance(n, ast.Name) and n.id == name and isinstance(n.ctx, ast.Store):
                    return True
            g = g.parent
        return False

    def _local_values(self, f, name):
        out = []
        for n in walk_local(f.node):
            if isinstance(n, ast.Assign):
                for tg in n.targets:
                    if isinstance(tg, ast.Name) and tg.id == name:
                        out.append(n.value)
        return out

    # --------------------------------------------------------------- queries
    def callees(self, f):
        out = []
        for cs in self.sites.get(f.id, []):
            for t in cs.targets:
                if t not in out:
                    out.append(t)
        return out

    def reachable(self, roots):
        seen, todo = [], list(roots)
        while todo:
            f = todo.pop()
            if f in seen:
                continue
            seen.append(f)
            todo.extend(self.callees(f))
            # instantiating a class makes its dunder protocol reachable
        return seen

    def reaches(self, f, pred, _memo=None):
        """does any function reachable from f satisfy pred?"""
        for g in self.reachable([f]):
            if pred(g):
                return True
        return False

    def census(self):
        """dynamic features that would make the call graph unsound"""
        bad = []
        for m in self.p.modules.values():
            for n in ast.walk(m.tree):
                if isinstance(n, ast.Call) and isinstance(n.func, ast.Name):
                    if n.func.id in DYNAMIC_BUILTINS:
                        bad.append(f"{m.relpath}:{n.lineno}: {n.func.id}()")
                    if n.func.id == "getattr" and (len(n.args) < 2 or not isinstance(n.args[1], ast.Constant)):
                        bad.append(f"{m.relpath}:{n.lineno}: getattr with a non-constant name")
                if isinstance(n, (ast.Global, ast.Nonlocal)):
                    bad.append(f"{m.relpath}:{n.lineno}: {type(n).__name__.lower()} statement")
                if isinstance(n, (ast.FunctionDef, ast.ClassDef)):
                    for d in n.decorator_list:
                        nm = norm(d).split("(")[0].split(".")[-1]
                        if nm not in DECORATOR_WHITELIST:
                            bad.append(f"{m.relpath}:{n.lineno}: decorator {norm(d)}")
                if isinstance(n, ast.Attribute) and n.attr in ("__dict__", "__class__") and isinstance(n.ctx, ast.Store):
                    bad.append(f"{m.relpath}:{n.lineno}: store to {n.attr}")
        return bad

    def unresolved(self):
        out = []
        for fid, lst in self.sites.items():
            for cs in lst:
                if cs.kind == "unresolved":
                    out.append(f"{cs.caller.where(cs.node)}: {norm(cs.node.func)}")
        return out


def bind_args(callee, call, ctor=False):
    """parameter name -> argument expr for a call of `callee` (self skipped for methods/ctors)."""
    params = callee.pos_params
    if callee.cls is not None and params[:1] == ["self"]:
        params = params[1:]
    out = {}
    i = 0
    for a in call.args:
        if isinstance(a, ast.Starred):
            break
        if i < len(params):
            out[params[i]] = a
        i += 1
    allp = set(callee.params)
    for kw in call.keywords:
        if kw.arg is not None and kw.arg in allp:
            out[kw.arg] = kw.value
    return out
