"""Effect (mutation / ownership) analysis: summary-based points-to with
allocation sites, formal-parameter markers, a key-sensitive heap and
instance-field cells.

Abstract objects
    A:<func>:<line>:<col>     allocation site (display, comprehension, shallow copy, fresh call result),
                              with a kind: dict / list / tuple / set / gen
    F:<func>.<param>          the object a caller passed for <param> (formal marker); FI:... = anything inside it
    G:<mod>.<name>            mutable module-level object;  GI:... inside it
    D:<func>.<param>          mutable default argument;     DI:... inside it
    K:<class>.<attr>          mutable class-level attribute; KI:... inside it

Values are sets of abstract objects (scalars have none).  The heap maps
(allocation, key) to a set of objects, where key is a constant dictionary key /
tuple position, or '*' for "some element / unknown key"; iterating a dict
allocation yields its keys (no tracked objects), iterating a list its elements.
Root objects (F/G/D/K) have one summary "inside" object each.  Instances of
package classes are represented only by their field cells (root class, attr).

Per-function summaries are computed by chaotic iteration to a global fixpoint:
what may be returned (own formals / insides of own formals / other objects),
which own formals are mutated, and what is stored inside own formals (per key).
At a call site the callee's summary is instantiated with the actual arguments,
so `parse_schema` returning its argument, or a helper editing its parameter, is
resolved per call site; values that travel through the heap or instance fields
are resolved over all call sites of the analysed sub-program.  The analysis is
run per entry-point group on the functions reachable from the group's entries,
whose role-carrying formals (SCHEMA / DATA / NAMED / OTHER) are the roots.

Every mutation primitive (store / delete through subscript or attribute,
aug-assign with a container display, call of a mutating container method) is
then evaluated and the abstract objects it may touch, fully expanded, reported.
"""
import ast

from .loader import walk_local, norm, AnalysisError
from .callgraph import bind_args

MUTATORS = {"append", "extend", "insert", "pop", "popitem", "remove", "clear", "update", "setdefault", "add", "discard", "sort", "reverse", "appendleft", "popleft", "__setitem__", "__delitem__",
            # stream objects: content and position are state
            "write", "writelines", "seek", "truncate", "read", "readline", "readlines", "readinto", "read1"}
ADDERS = {"append", "extend", "insert", "add", "update", "setdefault", "appendleft"}
LOADERS = {"get", "pop", "popitem", "setdefault", "__getitem__"}
SHALLOW_FUNCS = {"list": "list", "dict": "dict", "set": "set", "frozenset": "set", "tuple": "list", "sorted": "list", "reversed": "list", "iter": "list", "filter": "list", "map": "list"}
PICK_FUNCS = {"next", "min", "max"}
ANY = "*"


CONST_INSIDE = set()  # module-level displays all of whose elements are immutable constants: nothing inside to alias


def inside_of(o):
    """the summary object standing for everything inside root `o` (None for allocation sites)"""
    c = o[0]
    if c == "A":
        return None
    if c == "G" and o in CONST_INSIDE:
        return None
    if c == "F":
        return o if o[1] == "I" else "FI:" + o[2:]
    if c == "G":
        return o if o[1] == "I" else "GI:" + o[2:]
    if c == "D":
        return o if o[1] == "I" else "DI:" + o[2:]
    if c == "K":
        return o if o[1] == "I" else "KI:" + o[2:]
    return o


class Part:
    """a set of objects relative to one function, partitioned into the function's own formals
    (by parameter name), the insides of its formals, and everything else"""

    __slots__ = ("F", "FI", "rest")

    def __init__(self):
        self.F = set()
        self.FI = set()
        self.rest = set()

    def add(self, fid, objs):
        changed = False
        pf, pfi = "F:" + fid + ".", "FI:" + fid + "."
        for o in objs:
            if o[0] == "F":
                if o.startswith(pf) and "." not in o[len(pf):]:
                    pn = o[len(pf):]
                    if pn not in self.F:
                        self.F.add(pn)
                        changed = True
                    continue
                if o.startswith(pfi) and "." not in o[len(pfi):]:
                    pn = o[len(pfi):]
                    if pn not in self.FI:
                        self.FI.add(pn)
                        changed = True
                    continue
            if o not in self.rest:
                self.rest.add(o)
                changed = True
        return changed

    def __bool__(self):
        return bool(self.F or self.FI or self.rest)


class Summary:
    __slots__ = ("ret", "mut", "stored", "version")

    def __init__(self):
        self.ret = Part()
        self.mut = {}  # own formal object (F:/FI:) -> (how, where, text) first witness
        self.stored = {}  # (own formal object, key) -> Part stored inside it
        self.version = 0


class Effects:
    def __init__(self, program, cg, roles, skip_returns=(), funcs=None):
        self.p = program
        self.cg = cg
        self.roles = roles  # {func_id: {param: ROLE}} entries of this run
        self.skip_returns = set(skip_returns)
        self.skipped_returns_seen = set()
        self.funcs = list(funcs) if funcs is not None else program.all_functions()
        self.env = {}  # (fid, name) -> set(obj)
        self.cells = {}  # (root class id, attr) -> set(obj)
        self.heap = {}  # alloc -> {key: set(obj)}
        self.kind = {}  # alloc -> 'dict' | 'list' | 'tuple' | 'set' | 'gen'
        self.actuals = {}  # F:fid.param -> set(obj) over all call sites of this run
        self.summ = {f.id: Summary() for f in program.all_functions()}
        self._locals = {}
        self._glob = {}
        self.changed = False
        self.collect = False
        self.events = []
        self.heap_version = 0
        self._site_fp = {}
        self.iterations = 0
        self.E, self.EI, self._deep = {}, {}, {}
        self._solve()

    # ------------------------------------------------------------------ util
    def add(self, store, key, objs):
        if not objs:
            return
        cur = store.get(key)
        if cur is None:
            store[key] = set(objs)
            self.changed = True
        elif not objs <= cur:
            cur |= objs
            self.changed = True

    def alloc(self, f, node, kind, tag=""):
        a = f"A:{f.id}:{getattr(node, 'lineno', 0)}:{getattr(node, 'col_offset', 0)}{tag}"
        if a not in self.kind:
            self.kind[a] = kind
            self.heap[a] = {}
        return a

    def store(self, objs, key, vals):
        """vals become contents of every allocation in objs under `key` (ANY = unknown key / element)"""
        if not vals:
            return
        for o in objs:
            if o[0] != "A":
                continue
            h = self.heap.setdefault(o, {})
            cur = h.get(key)
            if cur is None:
                h[key] = set(vals)
                self.changed = True
                self.heap_version += 1
            elif not vals <= cur:
                cur |= vals
                self.changed = True
                self.heap_version += 1

    def load(self, objs, key=None, iterate=False):
        """objects obtained by subscripting with constant `key` (None = unknown key) or by iterating"""
        out = set()
        for o in objs:
            i = inside_of(o)
            if i is not None:
                out.add(i)
                continue
            h = self.heap.get(o)
            if not h:
                continue
            k = self.kind.get(o)
            if iterate and k == "dict":
                continue  # iterating a dict yields its keys
            if key is None or iterate:
                for v in h.values():
                    out |= v
            else:
                if key in h:
                    out |= h[key]
                if ANY in h:
                    out |= h[ANY]
                if k == "list" and isinstance(key, int):
                    for kk, v in h.items():
                        out |= v
        return out

    def contents(self, objs):
        return self.load(objs, None)

    def locals_of(self, f):
        s = self._locals.get(f.id)
        if s is None:
            s = set(f.params)
            for n in walk_local(f.node):
                if isinstance(n, ast.Name) and isinstance(n.ctx, (ast.Store, ast.Del)):
                    s.add(n.id)
                elif isinstance(n, (ast.FunctionDef, ast.AsyncFunctionDef)):
                    s.add(n.name)
            self._locals[f.id] = s
        return s

    def var_key(self, f, name):
        g = f
        while g is not None:
            if name in self.locals_of(g):
                return (g.id, name)
            g = g.parent
        return None

    def root_class(self, ci):
        return self.p.mro(ci)[-1]

    def cell_key(self, ci, attr):
        return (self.root_class(ci).id, attr)

    def cells_named(self, attr):
        return [k for k in self.cells if k[1] == attr]

    def global_objs(self, mod, name):
        key = (mod.name, name)
        if key in self._glob:
            return self._glob[key]
        out = set()
        r = self.p.resolve(mod, name)
        if r is not None and r[0] in ("value", "multi"):
            exprs = [r[2]] if r[0] == "value" else r[2]
            if any(_mutable_display(e) or _is_ctor_call(e) for e in exprs):
                out = {f"G:{r[1].short}.{self._defname(r[1], exprs[0], name)}"}

                def _const(e):
                    if isinstance(e, ast.Constant):
                        return True
                    if isinstance(e, ast.Tuple):
                        return all(_const(x) for x in e.elts)
                    if isinstance(e, ast.UnaryOp) and isinstance(e.op, ast.USub):
                        return _const(e.operand)
                    return False

                if all(isinstance(e, (ast.List, ast.Set)) and all(_const(x) for x in e.elts) or (isinstance(e, ast.Dict) and all(k is not None and _const(k) for k in e.keys) and all(_const(v) for v in e.values)) for e in exprs):
                    # strings / numbers taken out of the display are values, not shared mutable objects
                    CONST_INSIDE.update(out)
        self._glob[key] = out
        return out

    def _defname(self, mod, expr, fallback):
        for n, vals in mod.assigns.items():
            if any(v is expr for v in vals):
                return n
        return fallback

    def is_entry(self, fid):
        return fid in self.roles

    # ----------------------------------------------------------------- solve
    def _solve(self):
        funcs = self.funcs
        for f in funcs:
            for pn in f.params:
                if pn == "self" and f.cls is not None:
                    continue
                self.add(self.env, (f.id, pn), {f"F:{f.id}.{pn}"})
            for pn, d in f.param_defaults().items():
                if _mutable_display(d):
                    self.add(self.env, (f.id, pn), {f"D:{f.id}.{pn}"})
        for ci in self.p.all_classes():
            for attr, v in ci.class_attrs.items():
                if _mutable_display(v):
                    self.add(self.cells, self.cell_key(ci, attr), {f"K:{ci.id}.{attr}"})
        for i in range(80):
            self.changed = False
            self._recompute()
            for f in funcs:
                self._exec_func(f)
            self.iterations = i + 1
            if not self.changed:
                break
        else:
            raise AnalysisError("effect analysis did not reach a fixpoint in 80 rounds")
        self._recompute()
        self.collect = True
        self.events = []
        for f in funcs:
            self._exec_func(f)
        self.collect = False

    def _exec_func(self, f):
        for n in walk_local(f.node):
            if isinstance(n, (ast.ListComp, ast.SetComp, ast.GeneratorExp, ast.DictComp)):
                for g in n.generators:
                    self._bind_target(f, g.target, self.load(self.eval(f, g.iter), iterate=True))
        for n in walk_local(f.node):
            if isinstance(n, ast.stmt):
                self._stmt(f, n)

    def _just_made(self, f, s):
        """the statement directly in front of `X += [..]` in the same block binds X to a container built there (a display,
        a comprehension, list(..) / dict(..) / set(..)): the object extended is that new one whatever else X may hold on
        other paths (a strong update the flow-insensitive summaries cannot see)"""
        pm = getattr(f, "_parents_cache", None)
        if pm is None:
            pm = {}
            for n in ast.walk(f.node):
                for c in ast.iter_child_nodes(n):
                    pm[id(c)] = n
            try:
                f._parents_cache = pm
            except Exception:
                pass
        blk = pm.get(id(s))
        for fld in ("body", "orelse", "finalbody"):
            lst = getattr(blk, fld, None)
            if isinstance(lst, list) and any(x is s for x in lst):
                i = [k for k, x in enumerate(lst) if x is s][0]
                if i == 0:
                    return False
                prev = lst[i - 1]
                if isinstance(prev, ast.Assign) and len(prev.targets) == 1 and isinstance(prev.targets[0], ast.Name) and prev.targets[0].id == s.target.id:
                    v = prev.value
                    return isinstance(v, (ast.List, ast.Set, ast.Dict, ast.ListComp, ast.SetComp, ast.DictComp)) or (isinstance(v, ast.Call) and isinstance(v.func, ast.Name) and v.func.id in ("list", "dict", "set", "sorted"))
        return False

    # ------------------------------------------------------------ statements
    def _stmt(self, f, s):
        if isinstance(s, ast.Assign):
            v = self.eval(f, s.value)
            for t in s.targets:
                self._assign(f, t, v, s)
        elif isinstance(s, ast.AnnAssign) and s.value is not None:
            self._assign(f, s.target, self.eval(f, s.value), s)
        elif isinstance(s, ast.AugAssign):
            v = self.eval(f, s.value)
            if isinstance(s.target, ast.Name):
                k = self.var_key(f, s.target.id)
                if k:
                    self.add(self.env, k, v)
                if isinstance(s.value, (ast.List, ast.Set, ast.Dict, ast.ListComp, ast.SetComp, ast.DictComp)) and isinstance(s.op, (ast.Add, ast.BitOr)) and not self._just_made(f, s):
                    self._mutation(f, s, s.target, "augmented assignment with a container display", ANY, self.contents(v))
            else:
                self._assign(f, s.target, v, s)
        elif isinstance(s, ast.Delete):
            for t in s.targets:
                if isinstance(t, (ast.Subscript, ast.Attribute)):
                    self._mutation(f, s, t.value, "del", ANY, set())
        elif isinstance(s, (ast.For, ast.AsyncFor)):
            self._bind_target(f, s.target, self.load(self.eval(f, s.iter), iterate=True))
        elif isinstance(s, ast.Return) and s.value is not None:
            v = self.eval(f, s.value)
            if (f.id, norm(s)) in self.skip_returns:
                self.skipped_returns_seen.add((f.id, norm(s)))
                return
            sm = self.summ[f.id]
            if sm.ret.add(f.id, v):
                sm.version += 1
                self.changed = True
        elif isinstance(s, ast.Expr):
            self.eval(f, s.value)
        elif isinstance(s, (ast.With, ast.AsyncWith)):
            for i in s.items:
                v = self.eval(f, i.context_expr)
                if i.optional_vars is not None:
                    self._bind_target(f, i.optional_vars, v)
        elif isinstance(s, (ast.If, ast.While)):
            self.eval(f, s.test)
        elif isinstance(s, ast.Raise):
            if s.exc is not None:
                self.eval(f, s.exc)
        elif isinstance(s, ast.Assert):
            self.eval(f, s.test)

    def unpack(self, v, n):
        return [self.load(v, i) for i in range(n)]

    def _bind_target(self, f, t, v):
        if isinstance(t, ast.Name):
            k = self.var_key(f, t.id)
            if k:
                self.add(self.env, k, v)
        elif isinstance(t, (ast.Tuple, ast.List)):
            if any(isinstance(e, ast.Starred) for e in t.elts):
                inner = self.contents(v)
                for e in t.elts:
                    self._bind_target(f, e.value if isinstance(e, ast.Starred) else e, inner)
            else:
                for e, pv in zip(t.elts, self.unpack(v, len(t.elts))):
                    self._bind_target(f, e, pv)

    def _assign(self, f, t, v, stmt):
        if isinstance(t, ast.Name):
            k = self.var_key(f, t.id)
            if k:
                self.add(self.env, k, v)
        elif isinstance(t, (ast.Tuple, ast.List)):
            if any(isinstance(e, ast.Starred) for e in t.elts):
                inner = self.contents(v)
                for e in t.elts:
                    self._assign(f, e.value if isinstance(e, ast.Starred) else e, inner, stmt)
            else:
                for e, pv in zip(t.elts, self.unpack(v, len(t.elts))):
                    self._assign(f, e, pv, stmt)
        elif isinstance(t, ast.Attribute):
            types = self.cg.expr_types(f, t.value)
            recv = self.eval(f, t.value)
            if types:
                for c in types:
                    self.add(self.cells, self.cell_key(c, t.attr), v)
                if recv:
                    # e.g. a module-level instance: `decimal_context.prec = ...`
                    self._mutation(f, stmt, t.value, f"store to .{t.attr}", t.attr, v, recv)
            else:
                self._mutation(f, stmt, t.value, f"store to .{t.attr}", t.attr, v, recv)
        elif isinstance(t, ast.Subscript):
            self.eval(f, t.slice)
            self._mutation(f, stmt, t.value, "store to a subscript", _const_key(t.slice), v)

    def _mutation(self, f, node, target, how, key, stored, recv=None):
        """`target` expression is mutated; `stored` objects become its contents under `key`"""
        objs = self.eval(f, target) if recv is None else recv
        sm = self.summ[f.id]
        if stored:
            self.store(objs, key, stored)
        for o in objs:
            if o[0] != "F":
                continue
            own = o[o.index(":") + 1 :].rsplit(".", 1)[0] == f.id
            if not own:
                continue
            if stored:
                pt = sm.stored.get((o, key))
                if pt is None:
                    pt = sm.stored[(o, key)] = Part()
                if pt.add(f.id, stored):
                    sm.version += 1
                    self.changed = True
            if o not in sm.mut:
                sm.mut[o] = (how, f.where(node), norm(node)[:90])
                sm.version += 1
                self.changed = True
        if self.collect:
            self.events.append({"func": f, "node": node, "target": norm(target), "how": how, "objs": set(objs)})

    # ----------------------------------------------------------- expressions
    def eval(self, f, e):
        if e is None or isinstance(e, (ast.Constant, ast.JoinedStr, ast.Lambda)):
            return set()
        if isinstance(e, ast.Compare):
            self.eval(f, e.left)
            for c in e.comparators:
                self.eval(f, c)
            return set()
        if isinstance(e, ast.Name):
            k = self.var_key(f, e.id)
            if k is not None:
                return self.env.get(k, set())
            return self.global_objs(f.mod, e.id)
        if isinstance(e, ast.Attribute):
            local_root = self.var_key(f, _root_name(e)) is not None
            if not local_root:
                r = self.p.resolve_expr(f.mod, e)
                if r is not None and r[0] in ("value", "multi"):
                    return self.global_objs(r[1], self._defname(r[1], r[2] if r[0] == "value" else r[2][0], e.attr))
                if r is not None and r[0] in ("func", "class", "module", "external"):
                    return set()
            types = self.cg.expr_types(f, e.value)
            out = set()
            if types:
                for c in types:
                    out |= self.load_cell(self.cell_key(c, e.attr), f)
                return out
            base = self.eval(f, e.value)
            out |= self.load(base, e.attr)
            if not base:
                for k in self.cells_named(e.attr):
                    out |= self.load_cell(k, f)
            return out
        if isinstance(e, ast.Subscript):
            base = self.eval(f, e.value)
            self.eval(f, e.slice)
            if isinstance(e.slice, ast.Slice):
                a = self.alloc(f, e, "list")
                self.store({a}, ANY, self.contents(base))
                return {a}
            ck = _const_key(e.slice)
            return self.load(base, None if ck == ANY else ck)
        if isinstance(e, ast.Slice):
            return set()
        if isinstance(e, ast.Tuple) and not any(isinstance(x, ast.Starred) for x in e.elts):
            a = self.alloc(f, e, "tuple")
            for i, x in enumerate(e.elts):
                self.store({a}, i, self.eval(f, x))
            return {a}
        if isinstance(e, (ast.List, ast.Tuple, ast.Set)):
            a = self.alloc(f, e, "set" if isinstance(e, ast.Set) else "list")
            for x in e.elts:
                if isinstance(x, ast.Starred):
                    self.store({a}, ANY, self.load(self.eval(f, x.value), iterate=True))
                else:
                    self.store({a}, ANY, self.eval(f, x))
            return {a}
        if isinstance(e, ast.Dict):
            a = self.alloc(f, e, "dict")
            for k, v in zip(e.keys, e.values):
                vv = self.eval(f, v)
                if k is None:
                    self.copy_into(a, vv)
                else:
                    self.eval(f, k)
                    self.store({a}, _const_key(k), vv)
            return {a}
        if isinstance(e, (ast.ListComp, ast.SetComp, ast.GeneratorExp)):
            a = self.alloc(f, e, "set" if isinstance(e, ast.SetComp) else "list")
            for g in e.generators:
                self.eval(f, g.iter)
                for c in g.ifs:
                    self.eval(f, c)
            self.store({a}, ANY, self.eval(f, e.elt))
            return {a}
        if isinstance(e, ast.DictComp):
            a = self.alloc(f, e, "dict")
            for g in e.generators:
                self.eval(f, g.iter)
                for c in g.ifs:
                    self.eval(f, c)
            self.eval(f, e.key)
            self.store({a}, _const_key(e.key), self.eval(f, e.value))
            return {a}
        if isinstance(e, ast.IfExp):
            self.eval(f, e.test)
            return self.eval(f, e.body) | self.eval(f, e.orelse)
        if isinstance(e, ast.BoolOp):
            out = set()
            for v in e.values:
                out |= self.eval(f, v)
            return out
        if isinstance(e, ast.BinOp):
            a_, b_ = self.eval(f, e.left), self.eval(f, e.right)
            if isinstance(e.op, (ast.Add, ast.BitOr, ast.Mult)) and any(o[0] == "A" and self.kind.get(o) in ("list", "tuple", "set", "dict") for o in a_ | b_):
                a = self.alloc(f, e, "list")
                self.store({a}, ANY, self.contents(a_) | self.contents(b_))
                return {a}
            return set()
        if isinstance(e, ast.UnaryOp):
            self.eval(f, e.operand)
            return set()
        if isinstance(e, ast.Starred):
            return self.eval(f, e.value)
        if isinstance(e, ast.NamedExpr):
            v = self.eval(f, e.value)
            self._bind_target(f, e.target, v)
            return v
        if isinstance(e, (ast.Yield, ast.YieldFrom, ast.Await)):
            if e.value is not None:
                v = self.eval(f, e.value)
                g = f"A:{f.id}:generator"
                if g not in self.kind:
                    self.kind[g] = "gen"
                    self.heap[g] = {}
                self.store({g}, ANY, v)
                sm = self.summ[f.id]
                if sm.ret.add(f.id, {g}):
                    sm.version += 1
                    self.changed = True
            return set()
        if isinstance(e, ast.Call):
            return self._call(f, e)
        return set()

    def copy_into(self, a, src_objs):
        """a shallow copy: allocation `a` gets the keyed contents of the source objects"""
        for o in src_objs:
            i = inside_of(o)
            if i is not None:
                self.store({a}, ANY, {i})
                continue
            for k, v in list(self.heap.get(o, {}).items()):
                self.store({a}, k if self.kind.get(a) == self.kind.get(o) else ANY, v)

    def load_cell(self, key, f):
        """objects held by an instance field, with foreign formals resolved over all call sites"""
        out = set()
        for o in self.cells.get(key, ()):
            out |= self.expand(o, keep_for=f.id)
        return out

    def _recompute(self):
        """expansion tables: E[F] = roots a formal may stand for over all call sites of this run,
        EI[F] = everything inside those; least fixpoint over the actuals graph"""
        self._deep = {}
        E, EI = {}, {}
        formals = set(self.actuals)
        for f in self.funcs:
            for pn in f.params:
                formals.add(f"F:{f.id}.{pn}")
        for F in formals:
            fid = F[2:].rsplit(".", 1)[0]
            E[F] = {F} if (self.is_entry(fid) or F not in self.actuals) else set()
            EI[F] = {"FI:" + F[2:]} if E[F] else set()
        def resolve(objs):
            out = set()
            for a in objs:
                if a[0] == "F":
                    if a[1] == ":":
                        out |= E.get(a, {a})
                    else:
                        out |= EI.get("F:" + a[3:], {a})
                else:
                    out.add(a)
            return out

        changed = True
        rounds = 0
        while changed and rounds < 200:
            changed = False
            rounds += 1
            for F, acts in self.actuals.items():
                new = resolve(acts)
                if not new <= E[F]:
                    E[F] |= new
                    changed = True
                ins = set()
                for x in E[F]:
                    ins |= self.deep_inside(x)
                # markers that leaked into the heap are resolved like actuals
                ins = resolve(ins)
                if not ins <= EI[F]:
                    EI[F] |= ins
                    changed = True
        # a resolvable marker (non-entry formal with call sites) is not a root: drop self references
        for F in list(E):
            fid = F[2:].rsplit(".", 1)[0]
            if F in self.actuals and not self.is_entry(fid):
                for tbl in (E, EI):
                    for k, v in tbl.items():
                        v.discard(F)
                        v.discard("FI:" + F[2:])
        self.E, self.EI = E, EI

    def expand(self, o, keep_for=None):
        """resolve a formal marker to what callers may pass for it over all call sites;
        formals of `keep_for` stay symbolic (they are resolved per call site)"""
        if o[0] != "F":
            return {o}
        if o[1] == ":":
            if keep_for is not None and o[2:].rsplit(".", 1)[0] == keep_for:
                return {o}
            return self.E.get(o, {o})
        if keep_for is not None and o[3:].rsplit(".", 1)[0] == keep_for:
            return {o}
        return self.EI.get("F:" + o[3:], {o})

    def deep_inside(self, o):
        """every object reachable inside `o` (closure of contents), memoised per round"""
        i = inside_of(o)
        if i is not None:
            return {i}
        memo = self._deep.get(o)
        if memo is not None:
            return memo
        seen, todo = set(), [o]
        while todo:
            x = todo.pop()
            for v in self.heap.get(x, {}).values():
                for y in v:
                    if y not in seen:
                        seen.add(y)
                        if y[0] == "A":
                            todo.append(y)
                        else:
                            j = inside_of(y)
                            if j is not None:
                                seen.add(j)
        self._deep[o] = seen
        return seen

    def _call(self, f, call):
        fn = call.func
        args = [self.eval(f, a.value if isinstance(a, ast.Starred) else a) for a in call.args]
        kws = {k.arg: self.eval(f, k.value) for k in call.keywords}
        cs = self.cg.by_node.get(id(call))
        if isinstance(fn, ast.Attribute) and not (cs is not None and cs.targets):
            m = fn.attr
            recv = self.eval(f, fn.value)
            if m in MUTATORS:
                stored = set()
                key = ANY
                if m in ADDERS:
                    if m == "setdefault" and call.args:
                        key = _const_key(call.args[0])
                        stored = set().union(*args[1:]) if len(args) > 1 else set()
                    elif m == "insert":
                        stored = set().union(*args[1:]) if len(args) > 1 else set()
                    elif m in ("extend", "update"):
                        for a in args:
                            stored |= self.contents(a)
                        for a in kws.values():
                            stored |= a
                    else:
                        for a in args:
                            stored |= a
                self._mutation(f, call, fn.value, f".{m}()", key, stored, recv)
            if m in LOADERS:
                key = _const_key(call.args[0]) if call.args and m in ("get", "pop", "setdefault") else ANY
                out = set(self.load(recv, None if key == ANY else key))
                if m in ("get", "pop", "setdefault"):
                    for a in args[1:]:
                        out |= a
                return out
            if m in ("items", "values", "keys", "copy"):
                if m == "copy":
                    a = self.alloc(f, call, "dict")
                    self.copy_into(a, recv)
                    return {a}
                a = self.alloc(f, call, "list")
                if m == "items":
                    t = self.alloc(f, call, "tuple", ":pair")
                    self.store({t}, 1, self.contents(recv))
                    self.store({a}, ANY, {t})
                elif m == "values":
                    self.store({a}, ANY, self.contents(recv))
                return {a}
            return set()
        if cs is None:
            return set()
        if not cs.targets:
            name = cs.external or (norm(fn) if isinstance(fn, (ast.Name, ast.Attribute)) else "")
            base = name.split(".")[-1]
            if base in SHALLOW_FUNCS and "." not in name:
                a = self.alloc(f, call, SHALLOW_FUNCS[base])
                if base == "dict":
                    for x in args:
                        self.copy_into(a, x)
                    for k, v in kws.items():
                        self.store({a}, k, v)
                else:
                    for x in args:
                        self.store({a}, ANY, self.load(x, iterate=True))
                return {a}
            if base == "enumerate" and "." not in name:
                a = self.alloc(f, call, "list")
                t = self.alloc(f, call, "tuple", ":pair")
                self.store({t}, 1, self.load(args[0], iterate=True) if args else set())
                self.store({a}, ANY, {t})
                return {a}
            if base == "zip" and "." not in name:
                a = self.alloc(f, call, "list")
                t = self.alloc(f, call, "tuple", ":pair")
                for i, x in enumerate(args):
                    self.store({t}, i, self.load(x, iterate=True))
                self.store({a}, ANY, {t})
                return {a}
            if base in PICK_FUNCS and "." not in name:
                out = set()
                for x in args:
                    out |= self.load(x, iterate=True)
                return out
            return set()
        out = set()
        for t in cs.targets:
            b = bind_args(t, call)
            binding = {}
            for pn, arg in b.items():
                v = self.eval(f, arg)
                binding[pn] = v
                if v:
                    self.add(self.actuals, f"F:{t.id}.{pn}", v)
            sm = self.summ[t.id]
            returns = cs.ctor_of is None and t.node.name != "__init__"
            fp = (sm.version, tuple(sorted((k, len(v)) for k, v in binding.items())), self.heap_version)
            key = (id(call), t.id)
            if self._site_fp.get(key) != fp or self.collect:
                self._site_fp[key] = fp
                mine = self.summ[f.id]
                for fo, wit in list(sm.mut.items()):
                    for o in self.subst1(fo, t, binding):
                        if o[0] == "F" and o[o.index(":") + 1 :].rsplit(".", 1)[0] == f.id and o not in mine.mut:
                            mine.mut[o] = wit
                            mine.version += 1
                            self.changed = True
                for (fo, skey), part in list(sm.stored.items()):
                    tgt = self.subst1(fo, t, binding)
                    val = self.subst(part, binding)
                    if not val or not tgt:
                        continue
                    self.store(tgt, skey, val)
                    for o in tgt:
                        if o[0] == "F" and o[o.index(":") + 1 :].rsplit(".", 1)[0] == f.id:
                            pt = mine.stored.get((o, skey))
                            if pt is None:
                                pt = mine.stored[(o, skey)] = Part()
                            if pt.add(f.id, val):
                                mine.version += 1
                                self.changed = True
            if returns:
                out |= self.subst(sm.ret, binding)
        return out

    def subst1(self, o, callee, binding):
        """instantiate one callee formal object (F:/FI:) with the actuals of a call site"""
        pref = callee.id + "."
        if o[1] == ":":
            return binding.get(o[2 + len(pref):], set())
        out = set()
        for x in binding.get(o[3 + len(pref):], set()):
            out |= self.deep_inside(x)
        return out

    def subst(self, part, binding):
        """instantiate a callee-relative Part with the actuals of one call site"""
        out = set(part.rest)
        for pn in part.F:
            out |= binding.get(pn, set())
        for pn in part.FI:
            for x in binding.get(pn, set()):
                out |= self.deep_inside(x)
        return out

    # ------------------------------------------------------------- reporting
    def event_roots(self, ev):
        """fully expanded abstract objects a mutation event may touch"""
        out = set()
        for o in ev["objs"]:
            out |= self.expand(o)
        return out


def _const_key(e):
    if isinstance(e, ast.Constant) and isinstance(e.value, (str, int)) and not isinstance(e.value, bool):
        return e.value
    return ANY


def _root_name(e):
    while isinstance(e, ast.Attribute):
        e = e.value
    return e.id if isinstance(e, ast.Name) else ""


def _mutable_display(e):
    if isinstance(e, (ast.Dict, ast.List, ast.Set, ast.ListComp, ast.DictComp, ast.SetComp)):
        return True
    if isinstance(e, ast.Call) and isinstance(e.func, ast.Name) and e.func.id in ("dict", "list", "set", "defaultdict", "OrderedDict", "deque", "bytearray"):
        return True
    return False


def _is_ctor_call(e):
    """module-level `X = SomeClass(...)`: a shared mutable object (e.g. decimal.Context())"""
    if isinstance(e, ast.Call) and isinstance(e.func, (ast.Name, ast.Attribute)):
        nm = norm(e.func).split(".")[-1]
        if nm[:1].isupper() and nm not in ("TypeVar", "Union", "Optional", "Dict", "List", "Tuple", "Set", "Any", "Generic", "IO", "NewType"):
            return True
        # lower-case factories of the standard library whose result carries state
        if nm in ("deque", "defaultdict", "bytearray", "array", "dict", "list", "set", "local", "getcontext", "compressobj", "decompressobj", "md5", "sha256", "sha1", "new", "count", "iter", "cycle", "localcontext"):
            return True
    # `factory(...)()`: an instance of a class looked up at import time (codecs.getincrementaldecoder('utf-8')())
    if isinstance(e, ast.Call) and isinstance(e.func, ast.Call):
        return True
    return False
