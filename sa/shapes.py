"""Wire-shape extraction: a syntax-directed effect analysis that maps a codec
function to the *term* of wire tokens it emits / consumes.

    term  ::= [item...]                       (sequence)
    item  ::= ('V', src, dst)                 varint (zig-zag base-128), the declared primitive
            | ('P', fmt, src, nbytes)         struct pack / unpack of a fixed-width value
            | ('R', what)                     raw bytes: what = value text (write) or byte count text (read)
            | ('D', mode, schema, extra)      recursive write_data / read_data / skip_data on a sub-schema
            | ('T', table, args)              call through a dispatch table with the codec object (block codecs)
            | ('if', cond, then, else)
            | ('for', iter, target, body)
            | ('while', cond, body)
            | ('set', var, value)             assignment to a state variable (self.<attr> or loop-carried)
            | ('raise', what) | ('ret', value)
            | ('unk', text)                   construct the extractor does not model

Values are canonical *texts*: parameters are renamed by position (C = codec
object, then P1, P2, ... or role names given by the caller), token results are
t1, t2, ...; so renaming locals or parameters leaves a term unchanged.

The arithmetic inside V (zig-zag, 7-bit groups), the numeric content of P and
the values themselves are deliberately *not* part of the term (DESIGN 3.9).
Nothing is executed: the walk is over the syntax tree, loops are visited once.
"""
import ast
import struct

from .loader import AnalysisError, norm

ENC = "io.binary_encoder:BinaryEncoder"
DEC = "io.binary_decoder:BinaryDecoder"
V_WRITE = "write_int"  # the declared varint primitive pair (found through aliases)
V_READ = "read_long"
DATA_FUNCS = {"write_data": "w", "read_data": "r", "skip_data": "s"}
PURE_BUILTINS = {"len", "range", "enumerate", "isinstance", "set", "int", "float", "str", "bytes", "type", "repr", "ord", "bool", "list", "dict", "tuple", "sorted", "min", "max", "abs", "getattr", "all", "any"}


def norm_fmt(fmt):
    """normalise a struct format: explicit byte order + codes, count 1 dropped"""
    if not isinstance(fmt, str):
        return None
    order = ""
    body = fmt
    if fmt[:1] in "<>=!@":
        order, body = fmt[0], fmt[1:]
    body = body.replace("1", "") if body not in ("1",) else body
    try:
        size = struct.calcsize(fmt)
    except struct.error:
        return None
    if size == 1:
        order = ""  # byte order is irrelevant for one byte
    elif order in ("", "@", "="):
        order = "native"
    elif order == "!":
        order = ">"
    return (order + body, size)


_MIRROR_CACHE = {}


def _tails(body):
    """the statements that can be the last one executed of a block that falls through"""
    if not body:
        return []
    last = body[-1]
    if isinstance(last, ast.If):
        return _tails(last.body) + _tails(last.orelse)
    return [last]


def _mirrors(fn):
    """{local: attribute text} for locals kept equal to a `self.<attr>`: every store to the local is a copy of the
    attribute or a chained assignment with it, and every store to the attribute in the function is chained with
    the local.  The shaper has one symbol for a state attribute; such a local is that symbol too."""
    assigns, other_store, attr_aug = [], set(), set()
    todo = list(fn.body)
    while todo:
        n = todo.pop()
        if isinstance(n, (ast.FunctionDef, ast.AsyncFunctionDef, ast.Lambda, ast.ClassDef)):
            return {}
        if isinstance(n, ast.Assign):
            assigns.append(n)
            todo.append(n.value)
            for t in n.targets:
                if not isinstance(t, (ast.Name, ast.Attribute)):
                    todo.append(t)
            continue
        if isinstance(n, ast.AugAssign) and isinstance(n.target, ast.Attribute):
            attr_aug.add(norm(n.target))
        if isinstance(n, ast.Name) and isinstance(n.ctx, (ast.Store, ast.Del)):
            other_store.add(n.id)
        todo.extend(ast.iter_child_nodes(n))
    cand = {}
    for s in assigns:
        names = [t.id for t in s.targets if isinstance(t, ast.Name)]
        attrs = [norm(t) for t in s.targets if isinstance(t, ast.Attribute) and isinstance(t.value, ast.Name) and t.value.id == "self"]
        if len(names) == 1 and len(attrs) == 1 and len(s.targets) == 2:
            cand.setdefault(names[0], set()).add(attrs[0])
    out = {}
    params = {a.arg for a in fn.args.args + fn.args.kwonlyargs + fn.args.posonlyargs}
    for L, As in cand.items():
        if len(As) != 1 or L in other_store or L in params:
            continue
        A = next(iter(As))
        if A in attr_aug:
            continue
        ok = True
        for s in assigns:
            tl = [t for t in s.targets if isinstance(t, ast.Name) and t.id == L]
            ta = [t for t in s.targets if isinstance(t, ast.Attribute) and norm(t) == A]
            if tl and ta and len(s.targets) == 2:
                continue
            if tl and not ta and len(s.targets) == 1 and norm(s.value) == A:
                continue
            if ta and not tl and len(s.targets) == 1 and any(isinstance(lp, (ast.While, ast.For)) and lp.body and any(x is s for x in _tails(lp.body)) and isinstance(lp.body[0], ast.Assign) and len(lp.body[0].targets) == 1 and isinstance(lp.body[0].targets[0], ast.Name) and lp.body[0].targets[0].id == L and norm(lp.body[0].value) == A for lp in ast.walk(fn)):
                continue  # stored at the very end of a loop body that begins by copying it into the local again
            if tl or ta:
                ok = False
                break
        if ok:
            out[L] = A
    return out


def demirrored(fn):
    """the function body with mirror locals replaced by the attribute they mirror"""
    key = id(fn)
    hit = _MIRROR_CACHE.get(key)
    if hit is not None and hit[0] is fn:
        return hit[1]
    m = _mirrors(fn)
    body = fn.body
    if m:
        import copy

        class T(ast.NodeTransformer):
            def visit_Name(self, n):
                if n.id in m and isinstance(n.ctx, ast.Load):
                    return ast.copy_location(ast.parse(m[n.id], mode="eval").body, n)
                return n

            def visit_Assign(self, s):
                s.value = self.visit(s.value)
                s.targets = [t for t in s.targets if not (isinstance(t, ast.Name) and t.id in m)]
                if not s.targets:
                    return None
                return s

        body = [x for x in (T().visit(copy.deepcopy(s)) for s in fn.body) if x is not None]
        for x in body:
            ast.fix_missing_locations(x)
    _MIRROR_CACHE[key] = (fn, body)
    return body


def _is_partial(e):
    return isinstance(e, ast.Call) and ((isinstance(e.func, ast.Name) and e.func.id == "partial") or (isinstance(e.func, ast.Attribute) and e.func.attr == "partial")) and bool(e.args) and not any(isinstance(a, ast.Starred) for a in e.args) and not any(k.arg is None for k in e.keywords)


class Shaper:
    def __init__(self, program, cg, side):
        self.p = program
        self.cg = cg
        self.side = side  # 'w' | 'r'
        self.codec_cls = program.cls(ENC if side == "w" else DEC)
        self.tok = 0
        self.depth = 0

    # ------------------------------------------------------------------ api
    def shape(self, finfo, names=None, codec_param=None, extra_env=None):
        """term of a module-level codec function; names: positional canonical names for its parameters;
        extra_env: canonical texts for attribute expressions, e.g. {'self.encoder': 'C'}"""
        self.tok = 0
        params = finfo.pos_params
        env = {}
        if finfo.cls is not None and params[:1] == ["self"]:
            env["self"] = "self"
            params = params[1:]
        for i, pn in enumerate(params):
            env[pn] = (names[i] if names and i < len(names) else f"P{i}")
        for pn in finfo.params:
            env.setdefault(pn, pn)
        if codec_param:
            env[codec_param] = "C"
        if extra_env:
            env.update(extra_env)
        self.root = finfo
        self.in_codec = finfo.cls is not None and self.codec_cls in self.p.mro(finfo.cls)
        try:
            return self._body(finfo, demirrored(finfo.node), env)
        finally:
            self.in_codec = False

    # ------------------------------------------------------------ statements
    def _body(self, f, stmts, env):
        out = []
        for s in stmts:
            self._stmt(f, s, env, out)
            if out and out[-1][0] in ("raise", "ret"):
                break
        return out

    def _state_vars(self, fnode):
        """names/attributes assigned inside a loop of this function: loop-carried state"""
        sv = set()
        for n in ast.walk(fnode):
            if isinstance(n, (ast.While, ast.For)):
                for m in ast.walk(n):
                    if isinstance(m, (ast.Assign, ast.AugAssign)):
                        tgts = m.targets if isinstance(m, ast.Assign) else [m.target]
                        for t in tgts:
                            if isinstance(t, ast.Attribute):
                                sv.add(norm(t))
        for n in ast.walk(fnode):
            if isinstance(n, ast.Assign):
                for t in n.targets:
                    if isinstance(t, ast.Attribute) and isinstance(t.value, ast.Name) and t.value.id == "self":
                        sv.add(norm(t))
        return sv

    def _stmt(self, f, s, env, out):
        if isinstance(s, ast.Expr):
            if isinstance(s.value, ast.Constant):
                return
            if isinstance(s.value, (ast.Yield, ast.YieldFrom)):
                if s.value.value is not None:
                    self._expr(f, s.value.value, env, out)
                out.append(("yield",))
                return
            n0 = len(out)
            txt = self._expr(f, s.value, env, out)
            if len(out) == n0 and isinstance(s.value, ast.Call):
                out.append(("call", txt))
            return
        if isinstance(s, ast.Assign) and len(s.targets) == 1 and isinstance(s.targets[0], ast.Name) and _is_partial(s.value):
            # `g = partial(f, a, ..)`: g is a callable standing for `f(a, .., <call arguments>)`; several such
            # bindings of one name (one per arm) are alternatives, like nested defs
            env.setdefault("<partials>", {})
            env["<partials>"] = dict(env["<partials>"])
            env["<partials>"].setdefault(s.targets[0].id, [])
            env["<partials>"][s.targets[0].id] = env["<partials>"][s.targets[0].id] + [s.value]
            return
        if isinstance(s, ast.Assign) and len(s.targets) == 1 and isinstance(s.targets[0], ast.Name) and isinstance(s.value, ast.Name) and s.value.id not in env and self.p.resolve_func(f.mod, s.value) is not None and self.p.resolve_func(f.mod, s.value).cls is None:
            # `g = helper` (a module-level function chosen per arm): g stands for the helper(s), like nested defs
            env["<fnalias>"] = dict(env.get("<fnalias>", {}))
            env["<fnalias>"][s.targets[0].id] = env["<fnalias>"].get(s.targets[0].id, []) + [s.value]
            return
        if isinstance(s, (ast.Assign, ast.AnnAssign)):
            if isinstance(s, ast.AnnAssign) and s.value is None:
                return
            val = self._expr(f, s.value, env, out)
            targets = s.targets if isinstance(s, ast.Assign) else [s.target]
            for t in targets:
                self._assign(f, t, val, env, out)
            return
        if isinstance(s, ast.AugAssign):
            val = self._expr(f, s.value, env, out)
            cur = self._expr(f, s.target, env, [])
            self._assign(f, s.target, f"({cur} {type(s.op).__name__} {val})", env, out)
            return
        if isinstance(s, ast.If):
            cond = self._expr(f, s.test, env, out)
            e1, e2 = dict(env), dict(env)
            a = self._body(f, s.body, e1)
            b = self._body(f, s.orelse, e2)
            self._merge(env, e1, e2, a, b)
            if a or b:
                out.append(("if", cond, a, b))
            return
        if isinstance(s, ast.For):
            it = s.iter
            # generator of the codec class: inline its body with our loop body at `yield`
            gen = self._codec_method(f, it, env) if isinstance(it, ast.Call) else None
            if gen is not None and gen.is_generator():
                self._target(s.target, "item", env)
                body_env = dict(env)
                body = self._body(f, s.body, body_env)
                inner = self._inline(gen, it, f, env, out, yield_body=body)
                return
            if gen is not None and not gen.is_generator():
                out.append(("unk", f"iteration over the object returned by {gen.qualname} (not a generator)"))
            ittext = self._expr(f, it, env, out)
            self._target(s.target, f"each({ittext})", env)
            e1 = dict(env)
            self._loop_vars(s, e1)
            self._depth = getattr(self, "_depth", 0) + 1
            body = self._body(f, s.body, e1)
            self._depth -= 1
            for k in e1:
                if k.startswith("<"):
                    env[k] = e1[k]
                elif k in env and env[k] != e1[k]:
                    env[k] = self._alpha(k)
                elif k not in env:
                    env[k] = self._alpha(k)
            if s.orelse:
                body_else = self._body(f, s.orelse, env)
                out.append(("forelse", ittext, body, body_else))
            elif body:
                out.append(("for", ittext, body))
            return
        if isinstance(s, ast.While) and isinstance(s.test, ast.Constant) and s.test.value is True and not s.orelse:
            # `while True: <plain assignments>; if C: return / break [else: REST]; REST'`: a loop with its test after a
            # few assignments of names; as a grammar it is `while not C: REST REST'` (the assignments emit nothing)
            k = 0
            while k < len(s.body) and isinstance(s.body[k], ast.Assign) and all(isinstance(t, ast.Name) for t in s.body[k].targets) and not any(isinstance(x, (ast.Call, ast.Yield, ast.YieldFrom, ast.Await)) for x in ast.walk(s.body[k].value)):
                k += 1
            if k < len(s.body) and isinstance(s.body[k], ast.If):
                gate = s.body[k]
                exit_ = lambda b: len(b) == 1 and (isinstance(b[0], ast.Break) or (isinstance(b[0], ast.Return) and b[0].value is None))
                rest = None
                if exit_(gate.body):
                    from .canon import negate
                    import copy as _copy

                    test, rest = negate(_copy.deepcopy(gate.test)), list(gate.orelse) + list(s.body[k + 1:])
                elif gate.orelse and exit_(gate.orelse):
                    test, rest = gate.test, list(gate.body) + list(s.body[k + 1:])
                if rest is not None:
                    new = ast.While(test=test, body=list(s.body[:k]) + rest, orelse=[])
                    ast.copy_location(new, s)
                    ast.fix_missing_locations(new)
                    # the assignments in front of the test are evaluated before it: bind them once for the test too
                    for pre_ in s.body[:k]:
                        self._stmt(f, pre_, env, [])
                    return self._stmt(f, new, env, out)
        if isinstance(s, ast.While):
            e1 = env
            self._loop_vars(s, e1)
            cond = self._expr(f, s.test, e1, out)
            # `while n:` on a count read off the wire is `while n != 0:` (the token is an integer)
            import re as _re
            if _re.fullmatch(r"\$\d+|n\d+", cond or "") or (isinstance(s.test, ast.Attribute) and isinstance(s.test.value, ast.Name) and s.test.value.id == "self" and self.in_codec):
                cond = f"({cond} != 0)"
            self._depth = getattr(self, "_depth", 0) + 1
            body = self._body(f, s.body, e1)
            self._depth -= 1
            out.append(("while", cond, body))
            return
        if isinstance(s, ast.Try):
            body = self._body(f, s.body, env)
            out.extend(body)
            alts = []
            for h in s.handlers:
                hb = self._body(f, h.body, dict(env))
                if not (len(hb) == 1 and hb[0][0] == "raise"):
                    alts.append(hb)
            for hb in alts:
                if hb:
                    out.append(("handler", hb))
            out.extend(self._body(f, s.orelse, env))
            out.extend(self._body(f, s.finalbody, env))
            return
        if isinstance(s, ast.Raise):
            out.append(("raise", norm(s.exc.func) if isinstance(s.exc, ast.Call) else (norm(s.exc) if s.exc else "")))
            return
        if isinstance(s, ast.Return):
            val = self._expr(f, s.value, env, out) if s.value is not None else "None"
            out.append(("ret", val))
            return
        if isinstance(s, (ast.FunctionDef, ast.AsyncFunctionDef)):
            env.setdefault("<defs>", {})
            env["<defs>"] = dict(env["<defs>"])
            env["<defs>"].setdefault(s.name, []).append(s)
            return
        if isinstance(s, (ast.Pass, ast.Import, ast.ImportFrom, ast.Break, ast.Continue, ast.Delete, ast.Assert, ast.Global)):
            if isinstance(s, ast.Break):
                out.append(("break",))
            if isinstance(s, ast.Continue):
                out.append(("continue",))
            return
        if isinstance(s, ast.With):
            for i in s.items:
                v = self._expr(f, i.context_expr, env, out)
                if i.optional_vars is not None:
                    self._target(i.optional_vars, v, env)
            out.extend(self._body(f, s.body, env))
            return
        out.append(("unk", type(s).__name__))

    def _alpha(self, name):
        return f"${name}"

    def _loop_vars(self, loop, env):
        """variables (re)assigned in a loop that already exist before it are loop-carried:
        refer to them by name inside the loop (a variable first bound inside the body is
        an ordinary per-iteration binding)"""
        for m in ast.walk(loop):
            if isinstance(m, (ast.Assign, ast.AugAssign)):
                tgts = m.targets if isinstance(m, ast.Assign) else [m.target]
                for t in tgts:
                    for n in ast.walk(t):
                        if isinstance(n, ast.Name) and isinstance(n.ctx, ast.Store):
                            if n.id in env:
                                env[n.id] = self._alpha(n.id)
                        elif isinstance(n, ast.Attribute) and isinstance(n.ctx, ast.Store):
                            env[norm(n)] = self._alpha(norm(n))

    def _merge(self, env, e1, e2, a, b):
        a_dead = bool(a) and a[-1][0] in ("raise", "ret")
        b_dead = bool(b) and b[-1][0] in ("raise", "ret")
        for k in set(e1) | set(e2):
            if k.startswith("<"):
                d = {}
                for e in (e1, e2):
                    for nm, lst in e.get(k, {}).items():
                        for x in lst:
                            if x not in d.setdefault(nm, []):
                                d[nm].append(x)
                env[k] = d
                continue
            v1, v2 = e1.get(k), e2.get(k)
            if a_dead and not b_dead:
                if v2 is not None:
                    env[k] = v2
            elif b_dead and not a_dead:
                if v1 is not None:
                    env[k] = v1
            elif v1 == v2 and v1 is not None:
                env[k] = v1
            else:
                env[k] = self._alpha(k)

    def _target(self, t, val, env):
        if isinstance(t, ast.Name):
            env[t.id] = val
        elif isinstance(t, (ast.Tuple, ast.List)):
            for i, e in enumerate(t.elts):
                self._target(e, f"{val}[{i}]", env)
        elif isinstance(t, ast.Attribute):
            env[norm(t)] = val

    def _assign(self, f, t, val, env, out):
        if isinstance(t, ast.Attribute):
            key = norm(t)
            state = isinstance(t.value, ast.Name) and t.value.id == "self"
            if state:
                out.append(("set", key, val))
                env[key] = self._alpha(key)
            else:
                env[key] = val
        elif isinstance(t, ast.Name):
            cur = env.get(t.id)
            if cur is not None and cur == self._alpha(t.id):
                out.append(("set", t.id, val))
                if getattr(self, "_depth", 0) == 0 and self._alpha(t.id) not in val:
                    # straight-line code after the loops: the name now stands for this value
                    env[t.id] = val
            else:
                env[t.id] = val
        elif isinstance(t, (ast.Tuple, ast.List)):
            for i, e in enumerate(t.elts):
                self._assign(f, e, f"{val}[{i}]", env, out)
        elif isinstance(t, ast.Subscript):
            self._expr(f, t.value, env, out)

    # ----------------------------------------------------------- expressions
    def _expr(self, f, e, env, out):
        """evaluate for tokens (appended to out in evaluation order); returns canonical value text"""
        if e is None:
            return "None"
        if isinstance(e, ast.Constant):
            return repr(e.value)
        if isinstance(e, ast.Name):
            if e.id in env and not e.id.startswith("<"):
                return env[e.id]
            r = self.p.resolve(f.mod, e.id)
            if r and r[0] == "value":
                try:
                    v = self.p.fold(r[1], r[2])
                    if isinstance(v, (int, str, bytes)):
                        return f"{e.id}={v!r}"
                except Exception:
                    pass
            return e.id
        if isinstance(e, ast.Attribute):
            key = norm(e)
            if key in env:
                return env[key]
            base = self._expr(f, e.value, env, out)
            return f"{base}.{e.attr}"
        if isinstance(e, ast.Subscript):
            base = self._expr(f, e.value, env, out)
            idx = self._expr(f, e.slice, env, out)
            return f"{base}[{idx}]"
        if isinstance(e, ast.Call):
            return self._call(f, e, env, out)
        if isinstance(e, ast.IfExp):
            c = self._expr(f, e.test, env, out)
            a = self._expr(f, e.body, env, out)
            b = self._expr(f, e.orelse, env, out)
            return f"({a} if {c} else {b})"
        if isinstance(e, ast.BoolOp):
            vals = [self._expr(f, v, env, out) for v in e.values]
            op = " and " if isinstance(e.op, ast.And) else " or "
            return "(" + op.join(vals) + ")"
        if isinstance(e, ast.UnaryOp):
            v = self._expr(f, e.operand, env, out)
            op = {ast.Not: "not ", ast.USub: "-", ast.UAdd: "+", ast.Invert: "~"}[type(e.op)]
            return f"{op}{v}"
        if isinstance(e, ast.BinOp):
            a = self._expr(f, e.left, env, out)
            b = self._expr(f, e.right, env, out)
            # a token (an integer read off the wire, a length) plus or minus the literal zero is the token
            if isinstance(e.op, (ast.Add, ast.Sub)) and b == "0" and (a.startswith(("n", "t", "len(")) and not a.startswith("not")):
                return a
            if isinstance(e.op, ast.Add) and a == "0" and b.startswith(("n", "t", "len(")):
                return b
            return f"({a} {_OPS.get(type(e.op), '?')} {b})"
        if isinstance(e, ast.Compare):
            parts = [self._expr(f, e.left, env, out)]
            ops = []
            for op, c in zip(e.ops, e.comparators):
                ops.append(_CMP.get(type(op), "?"))
                parts.append(self._expr(f, c, env, out))
            return canon_compare(parts, ops)
        if isinstance(e, (ast.Tuple, ast.List, ast.Set)):
            vals = [self._expr(f, v, env, out) for v in e.elts]
            return "[" + ", ".join(vals) + "]"
        if isinstance(e, ast.Dict):
            ks = [self._expr(f, k, env, out) if k is not None else "**" for k in e.keys]
            vs = [self._expr(f, v, env, out) for v in e.values]
            return "{" + ", ".join(f"{k}: {v}" for k, v in zip(ks, vs)) + "}"
        if isinstance(e, ast.JoinedStr):
            return "fstring"
        if isinstance(e, (ast.ListComp, ast.SetComp, ast.GeneratorExp, ast.DictComp)):
            # comprehensions: evaluate element for tokens inside a pseudo loop
            sub = []
            env2 = dict(env)
            g0 = e.generators[0]
            gen = self._codec_method(f, g0.iter, env) if len(e.generators) == 1 and isinstance(g0.iter, ast.Call) else None
            if gen is not None and gen.is_generator():
                # a comprehension over a generator of the codec class is the loop over it: the element is
                # evaluated at every `yield`
                self._target(g0.target, "item", env2)
                for c in g0.ifs:
                    self._expr(f, c, env2, sub)
                if isinstance(e, ast.DictComp):
                    self._expr(f, e.key, env2, sub)
                    self._expr(f, e.value, env2, sub)
                else:
                    self._expr(f, e.elt, env2, sub)
                self._inline(gen, g0.iter, f, env, out, yield_body=sub)
                return "comp"
            if gen is not None and not gen.is_generator():
                # iterating over an object a codec method returns: what each step consumes is that object's business
                out.append(("unk", f"iteration over the object returned by {gen.qualname} (not a generator)"))
            for g in e.generators:
                it = self._expr(f, g.iter, env2, out)
                self._target(g.target, f"each({it})", env2)
            if isinstance(e, ast.DictComp):
                self._expr(f, e.key, env2, sub)
                self._expr(f, e.value, env2, sub)
            else:
                self._expr(f, e.elt, env2, sub)
            if sub:
                out.append(("for", "comprehension", sub))
            return "comp"
        if isinstance(e, ast.Starred):
            return "*" + self._expr(f, e.value, env, out)
        if isinstance(e, (ast.Yield,)):
            if e.value is not None:
                self._expr(f, e.value, env, out)
            out.append(("yield",))
            return "None"
        if isinstance(e, ast.Lambda):
            return "lambda"
        if isinstance(e, ast.Slice):
            lo = self._expr(f, e.lower, env, out) if e.lower else ""
            hi = self._expr(f, e.upper, env, out) if e.upper else ""
            st = (":" + self._expr(f, e.step, env, out)) if e.step else ""
            return f"{lo}:{hi}{st}"
        if isinstance(e, ast.NamedExpr):
            v = self._expr(f, e.value, env, out)
            self._target(e.target, v, env)
            return v
        out.append(("unk", type(e).__name__))
        return "?"

    def _is_codec_text(self, text):
        return text == "C" or (text == "self" and self.in_codec)

    in_codec = False

    def _codec_method(self, f, call, env):
        """FuncInfo when `call` is <codec>.<method>(...)"""
        fn = call.func
        if isinstance(fn, ast.Attribute):
            recv = self._expr(f, fn.value, env, [])
            if self._is_codec_text(recv) or recv.startswith("NEWCODEC("):
                m = self.p.find_method(self.codec_cls, fn.attr)
                return m
        return None

    def _newtok(self):
        self.tok += 1
        return f"t{self.tok}"

    def _call(self, f, call, env, out):
        fn = call.func
        # --- stream primitives on the codec's stream -----------------------
        if isinstance(fn, ast.Attribute) and fn.attr in ("write", "read"):
            recv_txt = self._expr(f, fn.value, env, [])
            is_stream = recv_txt in ("C.fo", "C._fo") or (self.in_codec and recv_txt in ("self.fo", "self._fo")) or (recv_txt.startswith("NEWCODEC(") and recv_txt.endswith((".fo", "._fo")))
            if is_stream:
                if fn.attr == "write" and self.side == "w" and len(call.args) == 1:
                    a = call.args[0]
                    if isinstance(a, ast.Call) and isinstance(a.func, ast.Name) and a.func.id == "pack" and len(a.args) == 2:
                        fmt = self.p.try_fold(f.mod, a.args[0])
                        src = self._expr(f, a.args[1], env, out)
                        nf = norm_fmt(fmt)
                        out.append(("P", nf[0] if nf else f"?{fmt}", src, nf[1] if nf else None))
                        return "None"
                    # bytes produced by something the shaper cannot see through (a module-level callable object such
                    # as a bound `Struct(..).pack`, a constant computed by a call): not modelled, never "raw bytes"
                    for x in ast.walk(a):
                        nm = x.func.id if isinstance(x, ast.Call) and isinstance(x.func, ast.Name) else (x.id if isinstance(x, ast.Name) and isinstance(x.ctx, ast.Load) else None)
                        if nm is None or nm in env:
                            continue
                        r = self.p.resolve(f.mod, nm)
                        if r and r[0] == "value":
                            vals = [r[2]] if not isinstance(r[2], list) else r[2]
                            if any(isinstance(v, (ast.Call, ast.Attribute)) for v in vals):
                                out.append(("unk", f"bytes written come from the module-level object {nm}"))
                                break
                    src = self._expr(f, a, env, out)
                    out.append(("R", src))
                    return "None"
                if fn.attr == "read" and self.side == "r":
                    n = self._expr(f, call.args[0], env, out) if call.args else "ALL"
                    t = self._newtok()
                    out.append(("R", n, t))
                    return t
        # unpack(fmt, <codec>.fo.read(n))
        if isinstance(fn, ast.Name) and fn.id == "unpack" and len(call.args) == 2 and self.side == "r":
            inner = call.args[1]
            sub = []
            v = self._expr(f, inner, env, sub)
            if len(sub) == 1 and sub[0][0] == "R":
                fmt = self.p.try_fold(f.mod, call.args[0])
                nf = norm_fmt(fmt)
                t = sub[0][2]
                out.append(("P", nf[0] if nf else f"?{fmt}", t, sub[0][1], nf[1] if nf else None))
                return t
            out.extend(sub)
            return f"unpack({v})"
        # --- codec method ---------------------------------------------------
        m = self._codec_method(f, call, env)
        if m is not None:
            prim = V_WRITE if self.side == "w" else V_READ
            real = m.node.name
            if real == prim:
                if self.side == "w":
                    src = self._expr(f, call.args[0], env, out) if call.args else "?"
                    out.append(("V", src))
                    return "None"
                t = self._newtok()
                out.append(("V", t))
                return t
            return self._inline(m, call, f, env, out)
        # unknown method on the codec object
        if isinstance(fn, ast.Attribute):
            recv = self._expr(f, fn.value, env, [])
            if self._is_codec_text(recv):
                if fn.attr in ("flush",):
                    return "None"
                out.append(("unk", f"codec.{fn.attr}"))
                return "?"
        # --- recursive data functions -------------------------------------
        callee = self.p.resolve_func(f.mod, fn) if isinstance(fn, (ast.Name, ast.Attribute)) else None
        if callee is not None and callee.name in DATA_FUNCS and callee.cls is None:
            mode = DATA_FUNCS[callee.name]
            args = [self._expr(f, a, env, out) for a in call.args]
            kw = {k.arg: self._expr(f, k.value, env, out) for k in call.keywords}
            codec = args[0] if args else "?"
            if mode == "w":
                out.append(("D", "w", args[2] if len(args) > 2 else kw.get("schema", "?"), args[1] if len(args) > 1 else "?", codec))
            elif mode == "r":
                out.append(("D", "r", args[1] if len(args) > 1 else kw.get("writer_schema", "?"), args[3] if len(args) > 3 else kw.get("reader_schema", "None"), codec))
            else:
                out.append(("D", "s", args[1] if len(args) > 1 else "?", "None", codec))
            t = self._newtok()
            return t
        # --- nested defs / helpers taking the codec object --------------------
        args_txt = None
        if isinstance(fn, ast.Name) and env.get("<partials>", {}).get(fn.id):
            alts = []
            ret = None
            for pc in env["<partials>"][fn.id]:
                sub = []
                synth = ast.copy_location(ast.Call(func=pc.args[0], args=list(pc.args[1:]) + list(call.args), keywords=list(pc.keywords) + list(call.keywords)), call)
                ast.fix_missing_locations(synth)
                self.cg.by_node.setdefault(id(synth), self.cg.by_node.get(id(pc)))
                ret = self._call(f, synth, env, sub)
                alts.append(sub)
            if all(_strip_reader(a_) == _strip_reader(alts[0]) for a_ in alts):
                out.extend(alts[0])
            else:
                out.append(("alts", alts))
            return ret or "?"
        if isinstance(fn, ast.Name) and env.get("<fnalias>", {}).get(fn.id):
            alts = []
            ret = None
            for target in env["<fnalias>"][fn.id]:
                sub = []
                synth = ast.copy_location(ast.Call(func=ast.copy_location(ast.Name(id=target.id, ctx=ast.Load()), call), args=list(call.args), keywords=list(call.keywords)), call)
                ast.fix_missing_locations(synth)
                ret = self._call(f, synth, env, sub)
                alts.append(sub)
            if all(_strip_reader(a_) == _strip_reader(alts[0]) for a_ in alts):
                out.extend(alts[0])
            else:
                out.append(("alts", alts))
            return ret or "?"
        if isinstance(fn, ast.Name):
            defs = env.get("<defs>", {}).get(fn.id)
            if defs:
                alts = []
                ret = None
                for d in defs:
                    sub = []
                    fi = self._nested_info(f, d)
                    ret = self._inline(fi, call, f, env, sub, is_method=False)
                    alts.append(sub)
                if all(_strip_reader(a) == _strip_reader(alts[0]) for a in alts):
                    out.extend(alts[0])
                else:
                    out.append(("alts", alts))
                return ret or "?"
        args_txt = [self._expr(f, a, env, out) for a in call.args]
        kw_txt = {k.arg: self._expr(f, k.value, env, out) for k in call.keywords}
        passes_codec = any(a in ("C", "C.fo", "C._fo") or (a.startswith("NEWCODEC(") and a.endswith(")")) for a in args_txt)
        if callee is not None and passes_codec and self.depth < 6:
            return self._inline(callee, call, f, env, out, is_method=False, pre_args=args_txt, pre_kw=kw_txt)
        if passes_codec:
            # call through a table / stored callable with the codec object
            cs = self.cg.by_node.get(id(call))
            if cs is not None and getattr(cs, "ctor_of", None) is not None:
                # an object of a program class built around the codec: what it does with it later (context manager,
                # iterator protocol) is not followed
                out.append(("unk", f"object of class {cs.ctor_of.name} constructed with the codec"))
                return "?"
            if cs is not None and cs.targets:
                out.append(("T", norm(fn), args_txt, [t.id for t in cs.targets]))
                return self._newtok()
            if isinstance(fn, ast.Name) and fn.id in PURE_BUILTINS:
                return f"{fn.id}({', '.join(args_txt)})"
            out.append(("unk", f"call {norm(fn)} with codec"))
            return "?"
        # pure package helper with a single definite result (e.g. a range-checked
        # subscript extracted into a function): use its result text, so that
        # extracting or inlining such a helper leaves the term unchanged
        if callee is not None and callee.cls is None and callee.name not in DATA_FUNCS and self.depth < 4 and not callee.is_generator():
            sub = []
            ret = self._inline(callee, call, f, env, sub, is_method=False, pre_args=args_txt, pre_kw=kw_txt)
            simple = all(x[0] in ("if", "raise", "handler") for x in _flat(sub)) and not any(x[0] in ("V", "P", "R", "D", "T", "unk", "set") for x in _flat(sub))
            if simple and not ret.startswith("?") and ret != "None":
                return ret
        # constructing a new codec object over a stream: BinaryDecoder(x)
        r = self.p.resolve_expr(f.mod, fn) if isinstance(fn, (ast.Name, ast.Attribute)) else None
        if r and r[0] == "class" and r[1] is self.codec_cls:
            return f"NEWCODEC({', '.join(args_txt)})"
        # pure call
        if isinstance(fn, ast.Attribute):
            recv = self._expr(f, fn.value, env, out)
            return f"{recv}.{fn.attr}({', '.join(args_txt + [f'{k}={v}' for k, v in kw_txt.items()])})"
        name = norm(fn)
        return f"{name}({', '.join(args_txt + [f'{k}={v}' for k, v in kw_txt.items()])})"

    def _nested_info(self, f, dnode):
        g = f
        while g is not None:
            for lst in g.nested.values():
                for fi in lst:
                    if fi.node is dnode:
                        return fi
            g = g.parent
        raise AnalysisError("nested function not indexed")

    def _inline(self, callee, call, f, env, out, yield_body=None, is_method=True, pre_args=None, pre_kw=None):
        if self.depth > 8:
            out.append(("unk", f"inline depth at {callee.id}"))
            return "?"
        args = pre_args if pre_args is not None else [self._expr(f, a, env, out) for a in call.args]
        kws = pre_kw if pre_kw is not None else {k.arg: self._expr(f, k.value, env, out) for k in call.keywords}
        new = {}
        params = callee.pos_params
        if callee.cls is not None and params[:1] == ["self"]:
            recv = self._expr(f, call.func.value, env, []) if isinstance(call.func, ast.Attribute) else "self"
            new["self"] = recv
            params = params[1:]
        defaults = callee.param_defaults()
        for i, pn in enumerate(params):
            if i < len(args):
                new[pn] = args[i]
        for k, v in kws.items():
            new[k] = v
        for pn in callee.params:
            if pn not in new and pn != "self":
                d = defaults.get(pn)
                new[pn] = repr(self.p.try_fold(callee.mod, d)) if d is not None and self.p.try_fold(callee.mod, d, "<x>") != "<x>" else pn
        # closure variables of nested functions
        if callee.parent is not None:
            for k, v in env.items():
                new.setdefault(k, v)
        # self.<attr> state carried by the caller env (codec object state)
        for k, v in env.items():
            if k.startswith("self.") or k.startswith("<"):
                new.setdefault(k, v)
        saved = self.in_codec
        if callee.cls is self.codec_cls or (callee.cls is not None and self.codec_cls in self.p.mro(callee.cls)):
            self.in_codec = new.get("self") in ("C", "self") or str(new.get("self", "")).startswith("NEWCODEC(")
            if new.get("self") == "C" or str(new.get("self", "")).startswith("NEWCODEC("):
                new["self"] = "self"
                self.in_codec = True
        self.depth += 1
        try:
            sub = self._body(callee, demirrored(callee.node), new)
        finally:
            self.depth -= 1
            self.in_codec = saved
        # propagate codec state variables back
        for k, v in new.items():
            if k.startswith("self.") and self.in_codec is False and new.get("self") == "self":
                pass
        ret = "None"
        if sub and sub[-1][0] == "ret":
            ret = sub[-1][1]
            sub = sub[:-1]
        elif any(x[0] == "ret" for x in _flat(sub)):
            ret = _single_return(sub)
            if ret is None:
                ret = "?multi-return"
            else:
                sub = _strip_rets(sub)
        if yield_body is not None:
            sub = _subst_yield(sub, yield_body)
        out.extend(sub)
        return ret


_OPS = {ast.Add: "+", ast.Sub: "-", ast.Mult: "*", ast.Div: "/", ast.FloorDiv: "//", ast.Mod: "%", ast.Pow: "**", ast.LShift: "<<", ast.RShift: ">>", ast.BitOr: "|", ast.BitAnd: "&", ast.BitXor: "^"}
_CMP = {ast.Eq: "==", ast.NotEq: "!=", ast.Lt: "<", ast.LtE: "<=", ast.Gt: ">", ast.GtE: ">=", ast.Is: "is", ast.IsNot: "is not", ast.In: "in", ast.NotIn: "not in"}
_FLIP = {"<": ">", ">": "<", "<=": ">=", ">=": "<=", "==": "==", "!=": "!="}


def canon_compare(parts, ops):
    """canonical text of a comparison: constants on the right (0 > x  ->  x < 0)"""
    if len(ops) == 1 and ops[0] in _FLIP:
        a, b = parts
        if _is_const(a) and not _is_const(b):
            a, b, op = b, a, _FLIP[ops[0]]
            return f"({a} {op} {b})"
    s = parts[0]
    for op, p in zip(ops, parts[1:]):
        s += f" {op} {p}"
    return f"({s})"


def _is_const(t):
    return t[:1].isdigit() or t[:1] in "'\"-" or t in ("None", "True", "False") or t[:2] in ("b'", 'b"')


def _flat(term):
    for it in term:
        yield it
        if it[0] == "if":
            yield from _flat(it[2])
            yield from _flat(it[3])
        elif it[0] in ("for", "while"):
            yield from _flat(it[2])
        elif it[0] == "forelse":
            yield from _flat(it[2])
            yield from _flat(it[3])
        elif it[0] == "handler":
            yield from _flat(it[1])
        elif it[0] == "alts":
            for a in it[1]:
                yield from _flat(a)


def flat(term):
    return list(_flat(term))


def _subst_yield(term, body):
    out = []
    for it in term:
        if it[0] == "yield":
            out.extend(body)
        elif it[0] == "if":
            out.append(("if", it[1], _subst_yield(it[2], body), _subst_yield(it[3], body)))
        elif it[0] in ("for", "while"):
            out.append((it[0], it[1], _subst_yield(it[2], body)))
        elif it[0] == "forelse":
            out.append((it[0], it[1], _subst_yield(it[2], body), _subst_yield(it[3], body)))
        else:
            out.append(it)
    return out


def _strip_reader(term):
    """term with the reader-schema argument of D tokens blanked (item_reader variants)"""
    out = []
    for it in term:
        if it[0] == "D":
            out.append(("D", it[1], it[2]))
        elif it[0] == "if":
            out.append(("if", it[1], _strip_reader(it[2]), _strip_reader(it[3])))
        elif it[0] in ("for", "while"):
            out.append((it[0], it[1], _strip_reader(it[2])))
        elif it[0] == "forelse":
            out.append((it[0], it[1], _strip_reader(it[2]), _strip_reader(it[3])))
        else:
            out.append(it)
    return out


# ----------------------------------------------------------------------------
# consumption shape: the abstraction in which writers, readers and skippers are compared
# ----------------------------------------------------------------------------

def consumption(term, keep_src=False):
    """Canonical string of what a term emits/consumes.  D(read) and D(skip) both
    render as D(<schema path>); raise-only branches are dropped; `if` whose
    live branches consume the same is collapsed; token ids are renamed in order of appearance."""
    ren = {}

    def rn(txt):
        import re

        def sub(m):
            k = m.group(0)
            if k not in ren:
                ren[k] = f"n{len(ren) + 1}"
            return ren[k]

        txt = re.sub(r"\bt\d+\b", sub, txt)

        def sub2(m):
            k = m.group(0)
            if k not in ren:
                ren[k] = f"${len([x for x in ren if x.startswith('$')]) + 1}"
            return ren[k]

        return re.sub(r"\$[A-Za-z_][A-Za-z0-9_.]*", sub2, txt)

    def seq(t):
        parts = []
        dead = False
        for it in t:
            k = it[0]
            if k == "V":
                if len(it) == 2 and it[1].startswith("t") and it[1][1:].isdigit():
                    rn(it[1])
                    parts.append("V")
                else:
                    parts.append(f"V({rn(it[1])})" if keep_src else "V")
            elif k == "P":
                parts.append(f"P({it[1]})")
            elif k == "R":
                if len(it) == 3:
                    parts.append(f"R[{rn(it[1])}]")
                    rn(it[2])
                else:
                    parts.append(f"R({rn(it[1])})" if keep_src else "R")
            elif k == "D":
                parts.append(f"D({rn(it[2])})")
            elif k == "T":
                parts.append(f"T({it[1]})")
            elif k == "if":
                import re as _re

                before = set(ren.values())
                a = seq(it[2])
                mid = dict(ren)
                b = seq(it[3])

                def _local(txt):
                    m_ = {}

                    def sub_(mm):
                        k_ = mm.group(0)
                        if k_ in before:
                            return k_
                        if k_ not in m_:
                            m_[k_] = f"m{len(m_) + 1}"
                        return m_[k_]

                    return _re.sub(r"\bn\d+\b|\$\d+", sub_, txt)

                if a != b and a and b and _local(a) == _local(b):
                    # both arms consume the same (their fresh tokens differ in number only): one copy, and the tokens
                    # the second arm allocated are given back
                    for k_ in [k_ for k_ in ren if k_ not in mid]:
                        del ren[k_]
                    b = a
                a_dead = _dead(it[2])
                b_dead = _dead(it[3])
                if a_dead and b_dead:
                    parts.append("!")
                    dead = True
                    break
                if a_dead:
                    if b:
                        parts.append(b)
                elif b_dead:
                    if a:
                        parts.append(a)
                elif a == b:
                    if a:
                        parts.append(a)
                elif a or b:
                    parts.append(f"if{rn(it[1])}{{{a}}}else{{{b}}}")
            elif k == "for":
                b = seq(it[2])
                if b:
                    parts.append(f"for[{rn(it[1])}]{{{b}}}")
            elif k == "forelse":
                b = seq(_token_paths(it[2])) if (_dead(it[3]) and _breaks_after_tokens(it[2])) else seq(it[2])
                if _dead(it[3]) and _breaks_after_tokens(it[2]):
                    # `for x in xs: if p(x): <tokens>; break` / `else: raise`: the body runs at
                    # most once and not running it raises: equivalent to the body once
                    if b:
                        parts.append(b)
                else:
                    e = seq(it[3])
                    if b or e:
                        parts.append(f"for[{rn(it[1])}]{{{b}}}else{{{e}}}")
            elif k == "while":
                b = seq(it[2])
                parts.append(f"while{rn(it[1])}{{{b}}}")
            elif k == "set":
                if it[1].startswith("self."):
                    parts.append(f"{rn('$' + it[1])}:={rn(it[2])}")
            elif k == "alts":
                parts.append("alts{" + "|".join(seq(a) for a in it[1]) + "}")
            elif k == "handler":
                parts.append("handler{" + seq(it[1]) + "}")
            elif k == "unk":
                parts.append(f"?{it[1]}")
            elif k == "raise":
                parts.append("!")
                dead = True
                break
            elif k in ("ret", "break", "continue", "yield"):
                if k == "yield":
                    parts.append("yield")
        return " ".join(p for p in parts if p)

    return seq(term)


def _dead(t):
    """a branch that certainly aborts (ends in raise) and consumes nothing we track"""
    return bool(t) and t[-1][0] == "raise" and not any(x[0] in ("V", "P", "R", "D", "T") for x in _flat(t))


def _token_paths(body):
    """body of an at-most-once search loop whose failure raises: keep only what the
    token-emitting paths emit (a guard with an empty other side selects the element, it is
    not an alternative encoding)"""
    keep = [it for it in body if any(x[0] in ("V", "P", "R", "D", "T") for x in _flat([it]))]
    if len(keep) == 1 and keep[0][0] == "if":
        a, b = keep[0][2], keep[0][3]
        ta = any(x[0] in ("V", "P", "R", "D", "T") for x in _flat(a))
        tb = any(x[0] in ("V", "P", "R", "D", "T") for x in _flat(b))
        if ta and not tb:
            return _token_paths(a)
        if tb and not ta:
            return _token_paths(b)
    return keep


def _single_return(term):
    """the one value a term returns when its other exits are raises (guard-clause / if-else forms)"""
    vals = set()

    def walk(t):
        for it in t:
            if it[0] == "ret":
                vals.add(it[1])
            elif it[0] == "if":
                walk(it[2])
                walk(it[3])
            elif it[0] in ("for", "while"):
                if any(x[0] == "ret" for x in _flat(it[2])):
                    vals.add(None)
            elif it[0] == "forelse":
                if any(x[0] == "ret" for x in _flat(it[2])) or any(x[0] == "ret" for x in _flat(it[3])):
                    vals.add(None)
            elif it[0] == "handler":
                walk(it[1])

    walk(term)
    if len(vals) == 1 and None not in vals:
        return next(iter(vals))
    return None


def _strip_rets(term):
    out = []
    for it in term:
        if it[0] == "ret":
            continue
        if it[0] == "if":
            out.append(("if", it[1], _strip_rets(it[2]), _strip_rets(it[3])))
        elif it[0] == "handler":
            out.append(("handler", _strip_rets(it[1])))
        else:
            out.append(it)
    return out


def _breaks_after_tokens(body):
    """every token-emitting path through `body` leaves the enclosing loop by `break` right after"""
    idx = [i for i, it in enumerate(body) if any(x[0] in ("V", "P", "R", "D", "T") for x in _flat([it]))]
    if not idx:
        return True
    last = idx[-1]
    if len(idx) > 1 and any(body[i][0] in ("V", "P", "R", "D", "T") for i in idx[:-1]) and body[last][0] == "if":
        return False
    it = body[last]
    if any(x[0] == "break" for x in body[last + 1 :]):
        return all(body[i][0] in ("V", "P", "R", "D", "T") for i in idx)
    if it[0] == "if" and len(idx) == 1:
        return _breaks_after_tokens(it[2]) and _breaks_after_tokens(it[3])
    return False


def has_unknown(term):
    return [x[1] for x in _flat(term) if x[0] == "unk"]
