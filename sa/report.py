"""Outcome bookkeeping, known findings, evidence and replay files."""
import hashlib
import json
import os
import time

from .loader import AnalysisError

VERIF = os.path.dirname(os.path.dirname(os.path.abspath(__file__)))
HOLDS, VIOLATION, UNRECOGNISED, NOTE = "HOLDS", "VIOLATION", "UNRECOGNISED", "NOTE"


def strip_line(where):
    """'fastavro/x.py:Q.name:123' -> 'fastavro/x.py:Q.name' (finding keys never hold line numbers)"""
    parts = where.split(":")
    if len(parts) >= 3 and parts[-1].isdigit():
        return ":".join(parts[:-1])
    return where


_borrow_cache = {}


class Ctx:
    """Collects the obligations a property's rules enumerate on one Program."""

    def __init__(self, program, prop_id, tier="quick", builtin=False):
        self.program = program
        self.prop = prop_id
        self.tier = tier
        self.obligations = []
        self.notes = []
        self.floors = {}
        self.rule_text = {}
        self.builtin = builtin  # True while analysing a built-in positive example
        self.extra = {}  # free-form coverage facts for the evidence file

    # -- recording ---------------------------------------------------------
    def rule(self, rule, text, floor=1):
        self.rule_text[rule] = text
        self.floors[rule] = max(self.floors.get(rule, 0), floor)

    def _add(self, rule, instance, verdict, where, construct, detail, positive=False):
        if verdict == VIOLATION and not positive and where and where.count(":") >= 1:
            # a known private helper of this function was folded back into it: the rule was written against the
            # two functions, what it reads in the merged one is not a positive identification of a bad construct
            parts = where.split(":")
            try:
                gone = self.program.vanished_callees().get((parts[0], parts[1]))
            except Exception:
                gone = None
            if gone:
                verdict = UNRECOGNISED
                detail = f"{', '.join(gone)} of the reference is folded into {parts[1]}: `{construct}` is not judged; " + (detail or "")
                construct = ""
        self.obligations.append(
            {
                "rule": rule,
                "instance": instance,
                "verdict": verdict,
                "where": where,
                "construct": construct,
                "detail": detail,
                "builtin": self.builtin,
            }
        )

    # -- rules shared between properties ------------------------------------
    def borrow(self, prop, mapping, why, only=None):
        """Adopt rules of another property that are necessary conditions of this one as well.
        mapping: {foreign rule id: own rule id}; `only` optionally restricts the adopted obligations (e.g. to
        the functions this property's operations reach).  The foreign property's rules are evaluated once per Program
        (cached) and the obligations of the listed rules are recorded here under the own ids; `why` states the
        implication (this property cannot hold when that rule is violated) and goes into the rule text."""
        import importlib

        if getattr(self, "no_borrow", False):
            return
        key = (id(self.program), prop)
        child = _borrow_cache.get(key)
        if child is None or child.program is not self.program:
            child = Ctx(self.program, prop, self.tier)
            child.no_borrow = True
            mod = importlib.import_module(f"rules.{prop.lower()}")
            try:
                mod.run(child)
            except AnalysisError as e:
                child.unrecognised(prop + ".anchor", "analysis could not continue", "", str(e))
            if len(_borrow_cache) > 40:
                _borrow_cache.clear()
            _borrow_cache[key] = child
        for foreign, own in mapping.items():
            self.rule(own, f"[shared with {foreign}] {child.rule_text.get(foreign, '')} -- {why}", floor=child.floors.get(foreign, 1) if only is None else 1)
            n_adopted = 0
            n_foreign = 0
            for o in child.obligations:
                if o["rule"] == foreign and not o["builtin"]:
                    n_foreign += 1
                    if only is None or only(o):
                        n_adopted += 1
                        self._add(own, o["instance"], o["verdict"], o["where"], o["construct"], o["detail"])
            if only is not None and n_adopted == 0 and n_foreign >= child.floors.get(foreign, 1):
                # the foreign rule ran and none of what it found concerns this property's functions
                self._add(own, f"{foreign} evaluated ({n_foreign} obligations); none of its findings lies in this property's functions", HOLDS, "", "", "")
        for o in child.obligations:
            if o["rule"].endswith(".anchor"):
                self._add(self.prop + ".anchor", f"shared rules of {prop}: " + o["instance"], o["verdict"], o["where"], o["construct"], o["detail"])

    def holds(self, rule, instance, where="", detail=""):
        self._add(rule, instance, HOLDS, where, "", detail)

    def violation(self, rule, instance, where, construct, detail, positive=False):
        # positive: the construct reported is bad whatever function it sits in (a call on a deny list), so a helper folded
        # into this function does not weaken the identification
        self._add(rule, instance, VIOLATION, where, construct, detail, positive=positive)

    def unrecognised(self, rule, instance, where, detail):
        self._add(rule, instance, UNRECOGNISED, where, "", detail)

    def check(self, rule, instance, ok, where, construct="", detail=""):
        if ok:
            self.holds(rule, instance, where, detail)
        else:
            self.violation(rule, instance, where, construct or instance, detail)
        return ok

    def note(self, rule, text):
        self.notes.append({"rule": rule, "note": text})

    # -- queries -----------------------------------------------------------
    def violations(self):
        return [o for o in self.obligations if o["verdict"] == VIOLATION and not o["builtin"]]

    def key(self, o):
        return finding_key(self.prop, o)


def finding_key(prop, o):
    return "|".join([prop, o["rule"], strip_line(o["where"]), o["construct"]])


def load_known():
    path = os.path.join(VERIF, "known_findings.json")
    if not os.path.exists(path):
        return {"known": [], "fixed": []}
    with open(path) as fh:
        return json.load(fh)


def known_match(prop, o, known):
    for k in known.get("known", []):
        if (
            k.get("property") == prop
            and k.get("rule") == o["rule"]
            and k.get("where") == strip_line(o["where"])
            and k.get("construct") == o["construct"]
        ):
            return k
    return None


def write_replay(prop, o):
    d = os.path.join(VERIF, "replay")
    os.makedirs(d, exist_ok=True)
    key = finding_key(prop, o)
    h = hashlib.sha256(key.encode()).hexdigest()[:10]
    path = os.path.join(d, f"{prop}-{o['rule'].split('.')[-1]}-{h}.json")
    with open(path, "w") as fh:
        json.dump({"property": prop, "key": key, "finding": o}, fh, indent=1)
    return path


def finish(ctx, t0, seed, assumptions, technique, exit_on_done=True, extra_samples=None):
    """Apply the outcome policy (DESIGN 3.10), write evidence, print lines, return exit code."""
    prop = ctx.prop
    known = load_known()
    real = [o for o in ctx.obligations if not o["builtin"]]
    errors = []
    # vacuity floors
    for rule, floor in sorted(ctx.floors.items()):
        n = sum(1 for o in real if o["rule"] == rule)
        if n < floor:
            errors.append(f"rule {rule} matched {n} instance(s), anchor floor is {floor}")
    for o in real:
        if o["verdict"] == UNRECOGNISED:
            errors.append(f"{o['rule']} {o['instance']} at {o['where']}: unrecognised construct: {o['detail']}")
    # built-in positive examples must fire
    builtin_rules = {}
    for o in ctx.obligations:
        if o["builtin"]:
            builtin_rules.setdefault(o["rule"], []).append(o["verdict"])
    for rule, verdicts in builtin_rules.items():
        if VIOLATION not in verdicts:
            errors.append(f"built-in positive example of {rule} did not fire")

    lines = []
    code = 0
    unlisted = 0
    listed = 0
    for o in real:
        if o["verdict"] != VIOLATION:
            continue
        k = known_match(prop, o, known)
        if k is not None:
            listed += 1
            lines.append(
                f"KNOWN-FINDING: property={prop} {o['rule']} {strip_line(o['where'])} :: {o['construct']} :: {k.get('what', o['detail'])}"
            )
        else:
            unlisted += 1
            path = write_replay(prop, o)
            lines.append(f"VIOLATION property={prop} replay={path}")
            lines.append(f"  rule={o['rule']} instance={o['instance']} at {o['where']}")
            lines.append(f"  construct: {o['construct']}")
            lines.append(f"  why: {o['detail']}")
            code = 1
    if errors:
        for e in errors:
            lines.append(f"ANALYSIS-ERROR property={prop} {e}")
        if code == 0:
            code = 2

    discharged = sum(1 for o in real if o["verdict"] == HOLDS)
    distinct = len({(o["rule"], o["instance"], strip_line(o["where"])) for o in real})
    samples = []
    seen_rules = set()
    for o in real:
        if o["rule"] not in seen_rules or o["verdict"] != HOLDS:
            seen_rules.add(o["rule"])
            samples.append({k: o[k] for k in ("rule", "instance", "verdict", "where", "detail") if o[k]})
        if len(samples) >= 40:
            break
    if extra_samples:
        samples.extend(extra_samples)
    per_rule = {}
    for o in real:
        r = per_rule.setdefault(o["rule"], {"text": ctx.rule_text.get(o["rule"], ""), "instances": 0, "holds": 0, "violations": 0, "unrecognised": 0})
        r["instances"] += 1
        r[{"HOLDS": "holds", "VIOLATION": "violations", "UNRECOGNISED": "unrecognised"}[o["verdict"]]] += 1
    cov = {
        "explanation": (
            f"static analysis ({technique}) of {len(ctx.program.modules)} modules / "
            f"{len(ctx.program.all_functions())} functions parsed from the working tree; "
            f"{len(real)} structural obligations enumerated, {discharged} discharged, "
            f"{listed} known finding(s), {unlisted} unlisted violation(s). Obligations are necessary "
            "conditions of the property visible in the shape of the code; the behavioural core over runtime values is not decided."
        ),
        "evaluations": max(len(real), 1),
        "distinct_nontrivial": max(distinct, 0),
        "rule": "one evaluation per (rule, instance) obligation enumerated from the parsed tree; distinct = distinct (rule, instance, function); built-in positive examples excluded",
        "samples": samples or [{"note": "no obligations"}],
        "obligations": len(real),
        "discharged": discharged,
        "checker_cmd": f"./check {prop} --tier {ctx.tier}",
        "trusted_base": assumptions,
        "implementation": ctx.program.implementation,
        "tree_digest": ctx.program.digest(),
        "modules": len(ctx.program.modules),
        "functions": len(ctx.program.all_functions()),
        "per_rule": per_rule,
        "notes": ctx.notes,
        "analysis_errors": errors,
        "known_findings_reported": listed,
        "builtin_positive_examples": {r: v.count(VIOLATION) for r, v in builtin_rules.items()},
    }
    cov.update(ctx.extra)
    ev = {
        "property_id": prop,
        "tier": ctx.tier,
        "seed": seed,
        "level": "other",
        "coverage": cov,
        "assumptions": assumptions,
        "wall_s": round(time.time() - t0, 3),
        "violations": unlisted,
    }
    d = os.path.join(VERIF, "evidence")
    os.makedirs(d, exist_ok=True)
    with open(os.path.join(d, f"{prop}.json"), "w") as fh:
        json.dump(ev, fh, indent=1, sort_keys=True, default=str)
    for ln in lines:
        print(ln)
    print(
        f"[{prop}] tier={ctx.tier} obligations={len(real)} discharged={discharged} known={listed} "
        f"violations={unlisted} errors={len(errors)} wall={ev['wall_s']}s"
    )
    return code
