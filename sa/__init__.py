"""Static-analysis engine for the fastavro verification framework.

Nothing under /repo is imported or executed: every module here works on the
syntax trees of <repo>/fastavro/**/*.py (stdlib ``ast`` only).
"""
