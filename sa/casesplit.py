"""Case splitting: arms merged over several literal values are separated again.

    if V in ('a', 'b'):                      if V == 'a':
        S[... 'x' if V == 'a' else 'y' ...]      S['x']
                                      ==>    elif V == 'b':
                                                 S['y']

Applied to an `if` whose test is `V in (<string literals>)` or `V in {<literal>: .., ...}` (a dict display,
typically an inlined dispatch table) when the body decides something on V again (a test or conditional
expression comparing V with literals, or a subscript of that display by V) and never rebinds V.  Each copy
of the body is partially evaluated under V == literal: decided tests and conditional expressions are
folded, `{..}[V]` becomes the value.  The transformation is semantics-preserving (V is a plain local
compared with literals) and makes "one arm per kind" and "merged arms with inner switches" one normal form.
"""
import ast
import copy

from . import guards


def _lits_of_test(test):
    """(variable name, [literal values], dict display or None) for `V in (...)` / `V in {...}`; a leading
    `isinstance(V, str) and` (the guard that keeps unhashable kinds away from the table) is implied by every case"""
    if isinstance(test, ast.BoolOp) and isinstance(test.op, ast.And) and len(test.values) == 2:
        g, t2 = test.values
        if isinstance(g, ast.Call) and isinstance(g.func, ast.Name) and g.func.id == "isinstance" and len(g.args) == 2 and isinstance(g.args[0], ast.Name) and isinstance(g.args[1], ast.Name) and g.args[1].id == "str":
            r = _lits_of_test(t2)
            if r is not None and r[0] == g.args[0].id:
                return r
        return None
    if not (isinstance(test, ast.Compare) and len(test.ops) == 1 and isinstance(test.ops[0], ast.In) and isinstance(test.left, ast.Name)):
        return None
    c = test.comparators[0]
    if isinstance(c, (ast.Tuple, ast.List, ast.Set)) and len(c.elts) >= 2 and all(isinstance(e, ast.Constant) and isinstance(e.value, str) for e in c.elts):
        return test.left.id, [e.value for e in c.elts], None
    if isinstance(c, ast.Dict) and len(c.keys) >= 2 and all(isinstance(k, ast.Constant) and isinstance(k.value, str) for k in c.keys):
        return test.left.id, [k.value for k in c.keys], c
    return None


def _decides_on(stmts, var):
    for s in stmts:
        for n in ast.walk(s):
            if isinstance(n, ast.Compare) and len(n.ops) == 1 and isinstance(n.left, ast.Name) and n.left.id == var and isinstance(n.ops[0], (ast.Eq, ast.NotEq, ast.In, ast.NotIn)):
                c = n.comparators[0]
                if isinstance(c, ast.Constant) or (isinstance(c, (ast.Tuple, ast.List, ast.Set)) and all(isinstance(e, ast.Constant) for e in c.elts)):
                    return True
            if isinstance(n, ast.Subscript) and isinstance(n.value, ast.Dict) and isinstance(n.slice, ast.Name) and n.slice.id == var:
                return True
    return False


def _rebinds(stmts, var):
    for s in stmts:
        for n in ast.walk(s):
            if isinstance(n, ast.Name) and n.id == var and isinstance(n.ctx, (ast.Store, ast.Del)):
                return True
    return False


class _PE(ast.NodeTransformer):
    """partial evaluation under var == value"""

    def __init__(self, var, value):
        self.env = {var: value}
        self.var = var
        self.value = value

    def _decide(self, test):
        names = {n.id for n in ast.walk(test) if isinstance(n, ast.Name)}
        if self.var not in names:
            return None
        return guards.eval_bool(test, self.env)

    def _simplify(self, test):
        """drop decided conjuncts / disjuncts"""
        if isinstance(test, ast.BoolOp):
            vals = []
            for v in test.values:
                v = self._simplify(v)
                d = self._decide(v)
                if d is None:
                    vals.append(v)
                elif isinstance(test.op, ast.And) and d is False:
                    return ast.copy_location(ast.Constant(value=False), test)
                elif isinstance(test.op, ast.Or) and d is True:
                    return ast.copy_location(ast.Constant(value=True), test)
            if not vals:
                return ast.copy_location(ast.Constant(value=isinstance(test.op, ast.And)), test)
            if len(vals) == 1:
                return vals[0]
            test.values = vals
        return test

    def visit_If(self, node):
        node.test = self._simplify(self.visit(node.test))
        d = node.test.value if isinstance(node.test, ast.Constant) and isinstance(node.test.value, bool) else self._decide(node.test)
        node.body = self._block(node.body)
        node.orelse = self._block(node.orelse)
        if d is True:
            return node.body
        if d is False:
            return node.orelse or None
        return node

    def _block(self, stmts):
        out = []
        for s in stmts:
            r = self.visit(s)
            if r is None:
                continue
            if isinstance(r, list):
                out.extend(r)
            else:
                out.append(r)
        return out

    def visit_IfExp(self, node):
        self.generic_visit(node)
        node.test = self._simplify(node.test)
        d = node.test.value if isinstance(node.test, ast.Constant) and isinstance(node.test.value, bool) else self._decide(node.test)
        if d is True:
            return node.body
        if d is False:
            return node.orelse
        return node

    def visit_Compare(self, node):
        self.generic_visit(node)
        d = self._decide(node)
        if d is not None:
            return ast.copy_location(ast.Constant(value=bool(d)), node)
        return node

    def visit_FormattedValue(self, node):
        # f'{V}' under V == 'lit' is the literal (V is a schema kind: a plain string)
        self.generic_visit(node)
        if isinstance(node.value, ast.Name) and node.value.id == self.var and node.conversion == -1 and node.format_spec is None and isinstance(self.value, str):
            return ast.copy_location(ast.Constant(value=self.value), node)
        return node

    def visit_Subscript(self, node):
        self.generic_visit(node)
        if isinstance(node.value, ast.Dict) and isinstance(node.slice, ast.Name) and node.slice.id == self.var and isinstance(node.ctx, ast.Load):
            for k, v in zip(node.value.keys, node.value.values):
                if isinstance(k, ast.Constant) and k.value == self.value:
                    return v
        return node

    def generic_block_fields(self, node):
        return node

    def visit_For(self, node):
        self.generic_visit_expr_fields(node)
        node.body = self._block(node.body) or [ast.copy_location(ast.Pass(), node)]
        node.orelse = self._block(node.orelse)
        return node

    visit_While = visit_For

    def visit_With(self, node):
        self.generic_visit_expr_fields(node)
        node.body = self._block(node.body) or [ast.copy_location(ast.Pass(), node)]
        return node

    def visit_Try(self, node):
        node.body = self._block(node.body) or [ast.copy_location(ast.Pass(), node)]
        for h in node.handlers:
            h.body = self._block(h.body) or [ast.copy_location(ast.Pass(), h)]
        node.orelse = self._block(node.orelse)
        node.finalbody = self._block(node.finalbody)
        return node

    def generic_visit_expr_fields(self, node):
        for f, v in ast.iter_fields(node):
            if f in ("body", "orelse", "finalbody", "handlers"):
                continue
            if isinstance(v, ast.AST):
                setattr(node, f, self.visit(v))
            elif isinstance(v, list):
                setattr(node, f, [self.visit(x) if isinstance(x, ast.AST) else x for x in v])

    def visit_FunctionDef(self, node):
        return node

    visit_AsyncFunctionDef = visit_Lambda = visit_FunctionDef


def specialise(stmts, var, value):
    pe = _PE(var, value)
    return pe._block(copy.deepcopy(stmts))


def split_if(s):
    """the If rewritten as a chain over its literals, or s itself"""
    info = _lits_of_test(s.test)
    if info is None:
        return s
    var, lits, table = info
    if len(set(lits)) != len(lits):
        return s
    if _rebinds(s.body, var):
        return s
    if not _decides_on(s.body, var) and table is None:
        return s
    if table is not None and not _decides_on(s.body, var):
        return s
    chain = None
    tail = s.orelse
    for lit in reversed(lits):
        body = specialise(s.body, var, lit) or [ast.copy_location(ast.Pass(), s)]
        test = ast.copy_location(ast.Compare(left=ast.copy_location(ast.Name(id=var, ctx=ast.Load()), s.test), ops=[ast.Eq()], comparators=[ast.copy_location(ast.Constant(value=lit), s.test)]), s.test)
        chain = ast.copy_location(ast.If(test=test, body=body, orelse=tail), s)
        tail = [chain]
    return ast.fix_missing_locations(chain)


def _lookups_by(stmts, var):
    for s in stmts:
        for n in ast.walk(s):
            if isinstance(n, ast.Subscript) and isinstance(n.value, ast.Dict) and isinstance(n.slice, ast.Name) and n.slice.id == var:
                return True
    return False


def _formats(stmts, var):
    for s in stmts:
        for n in ast.walk(s):
            if isinstance(n, ast.FormattedValue) and isinstance(n.value, ast.Name) and n.value.id == var and n.conversion == -1 and n.format_spec is None:
                return True
    return False


class _Splitter(ast.NodeTransformer):
    def visit_If(self, node):
        self.generic_visit(node)
        # inside `if V == 'lit':` V is known: table lookups by V and tests on V are folded
        t = node.test
        if isinstance(t, ast.Compare) and len(t.ops) == 1 and isinstance(t.ops[0], ast.Eq) and isinstance(t.left, ast.Name) and isinstance(t.comparators[0], ast.Constant) and isinstance(t.comparators[0].value, str):
            var, lit = t.left.id, t.comparators[0].value
            if not _rebinds(node.body, var) and (_lookups_by(node.body, var) or _decides_on(node.body, var) or _formats(node.body, var)):
                node.body = specialise(node.body, var, lit) or [ast.copy_location(ast.Pass(), node)]
                ast.fix_missing_locations(node)
        return split_if(node)


def split_cases(tree):
    return _Splitter().visit(tree)
